"""C10 — external tensor reads never escape the model directory (DESIGN.md section 5, C10).

Correspondence (model = lean/IrVerif/Model/Path.lean, driver commands path.*):
  * string functions (normpath, join, abspath, dirname, split) vs CPython posixpath; realpath / lstat / stat of the model
    vs os.path.realpath and the kernel, on a fixed tree and on random trees;
  * every real ExternalTensor read vs the model's read on a description of the same tree: accept/reject, bytes, which
    layer rejects, whether the tensor's own path was opened by the call and which inode that reached (audit hook);
    trees contain canaries outside the base, symlinks in/out, symlinked directories, hard links, a prefix sibling,
    a FIFO and a device node inside the base;
  * sequences on one tensor (calls of all entry points, changes of the tree, base_dir re-assignments incl. "" , release())
    vs the model's sessions; histories over the tensors of one model through every public re-basing operation (setter with str /
    pathlib / bytes values, external_data.set_base_dir on the main graph and on a function body, load_to_model,
    convert_tensors_from_external, Model.clone) vs the model's world (path.world);
  * zero-size tensors, NUL characters, PATH_MAX / NAME_MAX, paths that follow 36..44 symbolic links in one resolution - nested, one
    after the other, mixed (path.readsT / path.reads / path.lstats); bytes locations (path.readsTB); trees whose resolved names are
    PATH_MAX bytes and longer, incl. the D454 shape where os.path.realpath returns its input for a loop it believes to see (path.readsP;
    path.nolinks: the prefix walk of check 3 vs the same loop on the kernel); trees with directories the process may not search, read by
    a child without privileges (path.readsA); histories with a re-pointed symlink on the base path and with os.chdir (path.world);
  * a static AST scan of the imported onnx_ir tree: every file-access call site and every user of path / location / base_dir is
    in an explicit table (modelled entry point, or not location-derived with a reason); the audit hook attributes every open to
    the onnx_ir function that made it;
  * ir.load with every model-path spelling (incl. "<symlinked dir>/.."), chdir between load and read, models whose
    external tensors sit in initializers / TENSOR / TENSORS attributes of the main graph, of nested graphs (depth 1-3) and
    of model-local functions; the walker behind set_base_dir vs the model's walker.

Oracle (independent of the model): returned bytes are those of a singly-linked REGULAR file whose true location (known by
construction of the tree) is below the true location of the base; a rejected read opened no file of the tree, an accepted
one only inside files (sys.addaudithook); after ir.load every external tensor anywhere in the model has a non-empty base
that is the directory the model file was opened from; in sequences, bytes come from the file opened by the call or mapped
by an earlier call under the SAME base directory.
"""
from __future__ import annotations

import io
import itertools
import json
import os
import posixpath
import shutil
import stat
import sys
import tempfile

from harness.common import Ctx, Infra, Part, lean_batch, lean_batch_parallel, load_corpus, pmap

THEOREMS = [
    "IrVerif.Path.C10_lexical",
    "IrVerif.Path.C10_real",
    "IrVerif.Path.C10_read_safe",
    "IrVerif.Path.C10_open_safe",
    "IrVerif.Path.C10_all_entry_points",
    "IrVerif.Path.C10_single_name",
    "IrVerif.Path.C10_base_resolves",
    "IrVerif.Path.C10_load_base_nonempty",
    "IrVerif.Path.C10_load_base_is_model_dir",
    "IrVerif.Path.C10_load_read_safe",
    "IrVerif.Path.C10_load_all_positions",
    "IrVerif.Path.C10_call_events",
    "IrVerif.Path.C10_call_open_safe",
    "IrVerif.Path.C10_call_result",
    "IrVerif.Path.C10_session_safe",
    "IrVerif.Path.C10_nul_rejected",
    "IrVerif.Path.C10_eloop_no_open",
    "IrVerif.Path.C10_fuel_discharged",
    "IrVerif.Path.C10_zero_size",
    "IrVerif.Path.C10_world_safe",
    "IrVerif.Path.C10_eloop_counts_all_links",
    "IrVerif.Path.C10_world_chdir_opens",
    "IrVerif.Path.C10_bytes_location",
    "IrVerif.Path.C10_pathmax_verified_partial",
    "IrVerif.Path.C10_pathmax_safe",
    "IrVerif.Path.C10_pathmax_safe_full",
    "IrVerif.Path.C10_blind_safe",
    "IrVerif.Path.C10_eacces_safe",
    "IrVerif.Path.C10_world_chdir_safe",
]
ASSUMPTIONS = [
    "POSIX only: os.path.normcase is the identity; Windows/ntpath behaviour is not modelled",
    "no concurrent modification of the tree between the check and the open of one call (TOCTOU is outside the model); changes "
    "BETWEEN calls are modelled (sessions, world histories)",
    "CPython 3.12 posixpath semantics (join, normpath, abspath, split/dirname, realpath/_joinrealpath with its seen cache) "
    "as transcribed; the kernel's path resolution (path_resolution(7): lookup in directories, '..' at the root, symlink "
    "following, trailing separators, ENOTDIR/ENOENT, ELOOP as Linux counts it: EVERY link followed in one resolution, nested or one "
    "after the other, costs one of MAXSYMLINKS = 40 (theorem C10_eloop_counts_all_links; validated on the running kernel with "
    "sequential fans, trailing chains, nested chains and mixtures of 36..44 links)) is a hand-written model validated against "
    "os.lstat/os.stat/os.path.realpath on fixed and random trees; the theorems about safe opens use the model WITHOUT PATH_MAX in "
    "os.lstat / os.stat (PATH_MAX at the open only), which is exact on trees without names of PATH_MAX bytes or more; PATH_MAX at "
    "every path operation is a second model (readP / checkContainmentP: an entry os.path.realpath cannot lstat is a non-link, "
    "D451) compared with the real code on trees whose resolved names are PATH_MAX - 2 .. 5600 bytes long and on relative spellings "
    "with ~1270 leading '..' (D453), on trees where realpath is led back to the link it is resolving by an entry it cannot lstat (D454), "
    "and with the plain model on the ordinary trees; for it C10_pathmax_safe_full proves the safe open from the repaired check alone "
    "(samestat + fixed points + the prefix walk of D454: no prefix of path_real / base_real is a symbolic link; model noLinkOn, compared "
    "with the same loop on the running kernel on every realpath answer): the hypothesis of C10_pathmax_safe (link-free answers, still "
    "evaluated and published as pathmax_linkfree=*) is gone - 'a fixed point of the blind realpath which the kernel resolves is "
    "link-free' turned out to be FALSE (D454); hypothesis left: os.getcwd() is an absolute string; ASCII byte counts; NAME_MAX as 'no such entry'",
    "EACCES (a directory the process may not search) makes os.lstat / os.stat / open fail like ENAMETOOLONG: C10_blind_safe is about ANY "
    "restriction of the three system calls (they may fail wherever; what they return is what the kernel returns; an open that succeeds "
    "implies os.stat of the same string does), C10_eacces_safe the instance with per-directory search permission for the current uid "
    "(model walkA / sysA: every component that is looked up - a name, '.' or '..' - needs search permission on the directory it is looked up "
    "in; files are readable once reached; read / write bits and ACLs are not modelled); compared with the real code and the kernel in a "
    "forked child WITHOUT privileges (dropped to uid nobody when the harness runs as root, which searches every directory)",
    "os.getcwd() names a chain of real directories (true on POSIX); theorems about safe opens assume the recursion bound of "
    "os.path.realpath is at least the kernel's symlink bound; C10_fuel_discharged shows that every such bound gives the outcome of "
    "the kernel's bound itself (hypothesis, evaluated per generated case and published as fuel_hypothesis=*: the location is "
    "relative, or the kernel resolves the base directory)",
    "a NUL character in the base directory or the location makes os.lstat raise ValueError inside check 2 (modelled: check2 = false; "
    "theorem C10_nul_rejected); a bytes base_dir with a str location makes os.path.join raise TypeError before any check or open "
    "(modelled in callT); a bytes LOCATION (os.fsencode spelling) raises TypeError with every non-empty base directory before any "
    "check or open, and reads unchecked with the empty bytes base directory (modelled: callTB, theorem C10_bytes_location)",
    "os.chdir between the operations of a history: every call that opens the file resolves a relative base directory from the "
    "working directory of that call (model: runWorldC, theorems C10_world_chdir_opens and C10_world_chdir_safe: returned bytes come from an "
    "open by the same tensor under the same base directory value that was safe in the tree and working directory of the call that made "
    "it); like a change of the tree, a change of directory does not drop a mapping (a mapped tensor is served from its mapping while its "
    "base directory VALUE is unchanged)",
    "an ABSOLUTE location that lies inside the base directory is accepted (join(base, abs) = abs, check 1 passes): the "
    "property's 'absolute paths raise' is read as 'absolute paths leading outside the base raise'",
    "an empty base directory disables the checks by design (programmatic construction); the theorems and the oracle are about "
    "calls made while the tensor has a non-empty base directory; re-assigning base_dir to a different VALUE (type included: "
    "Path('/a') != '/a') drops the mapping (D184) so that bytes always come from an open checked against the tensor's current base directory",
    "a tensor that is already mapped is served from its mapping (no new open, no new check) while its base directory is unchanged, "
    "even if the tree changes afterwards: it keeps returning the bytes of the inode it mapped through a checked open",
    "zero-size tensors: numpy/__array__/serialisation run the check and open nothing, tobytes touches nothing, tofile checks, opens and "
    "copies `length` bytes (modelled: bodyZ; theorem C10_zero_size)",
    "Model.clone()/Graph.clone() share the ExternalTensor objects (checked on every clone made); a clone is an alias in the world model",
    "entry-point completeness is a static AST scan of the imported onnx_ir tree against the tables FILE_SITES / PATH_USERS below: a file "
    "access through a call that the scan's sink list does not name (an unusual library function, exec/eval, a C extension) is not seen "
    "statically; the audit hook (every open event is attributed to the onnx_ir function that made it) covers those dynamically",
    "st_nlink counts the names of an inode (LinkCountSound; checked on every described tree); mount points and bind mounts are not "
    "modelled; of the permissions only the search bit of directories is (see EACCES above); FIFOs, sockets and device nodes are modelled "
    "as one kind of non-regular object",
]

NBYTES = 8
ENTRY_POINTS = ["numpy", "tobytes", "tofile_bytesio", "tofile_file", "array", "serialize_raw"]

# --------------------------------------------------------------------------- the tree


def _w(path: str, content: bytes) -> None:
    with open(path, "wb") as f:
        f.write(content)


def build_tree(chains: bool = False) -> dict:
    """Create the test tree; returns a description with ground-truth locations.  `chains`: also the chains of nested symbolic
    links (122 more entries; kept out of the tree of the exhaustive location scope to keep the model's lookups cheap)."""
    top = os.path.realpath(tempfile.mkdtemp(prefix="irverif-c10-"))
    R = os.path.join(top, "r")
    os.mkdir(R)
    for d in ("base", "base/d", "base/d/e", "basex", "outside", "outside/d"):
        os.mkdir(os.path.join(R, d))
    files = {
        "base/f": b"INSIDE_F",
        "base/d/f": b"INSIDEDF",
        "base/d/e/f": b"INSIDDEF",
        "base/g": b"INSIDE_G",
        "basex/f": b"CANARYXF",
        "outside/f": b"CANARYOF",
        "outside/canary": b"CANARY_C",
        "outside/d/f": b"CANARYDF",
        "outside/hcanary": b"CANARY_H",
        "f": b"CANARYRF",
    }
    for rel, content in files.items():
        _w(os.path.join(R, rel), content)
    links = {
        "base/link_in": "f",
        "base/link_in2": "d/../g",
        "base/link_out": "../outside/canary",
        "base/link_abs_out": os.path.join(R, "outside/canary"),
        "base/link_abs_in": os.path.join(R, "base/d/f"),
        "base/dlink_in": "d",
        "base/dlink_out": "../outside",
        "base/d/up": "..",
        "base/chain": "link_out",  # symlink to a symlink leading outside
        "base/chain_in": "link_in",
        "base/loop_a": "loop_b",
        "base/loop_b": "loop_a",
        "base/dangling": "nothing_here",
        "base/dangling_out": "../outside/nothing_here",
        "base/link_sib": "../basex/f",
        "blink": "base",  # the base directory through a symlink
        "outside/back": "../base",  # a way back in from outside
    }
    for rel, target in links.items():
        os.symlink(target, os.path.join(R, rel))
    os.link(os.path.join(R, "outside/hcanary"), os.path.join(R, "base/hard"))
    os.link(os.path.join(R, "base/g"), os.path.join(R, "base/d/hard_in"))
    # chains of nested symbolic links: `mid` (30 links) and `deep_13` (33 links): inside the kernel's bound of 40 also together
    # with the at most 7 other links a generated base + location can traverse (Linux counts ALL links of one resolution, the
    # model bounds their nesting: see ASSUMPTIONS); `deep` (46 links to an inside file) and `deep_3` (43): os.path.realpath
    # resolves them, the kernel says ELOOP; `deepout` (46 links to a canary outside)
    for head, k, final in (("mid", 30, "f"), ("deep", 46, "f"), ("deepout", 46, "../outside/canary")) if chains else ():
        names = [head] + [f"{head}_{i}" for i in range(1, k)]
        for i, n in enumerate(names):
            os.symlink(names[i + 1] if i + 1 < k else final, os.path.join(R, "base", n))
    if chains:
        # the band around Linux's MAXSYMLINKS = 40, which counts ALL links followed in one resolution (the model does the same):
        # `s -> .` is followed any number of times one after the other (nesting depth 1: "s/s/.../s/f"); `nest_i -> nest_{i+1}/.`
        # is a chain whose links are NOT the last component of their target (46 links from `nest` to the directory d, 46 - i from
        # nest_i); `deep_i` / `deepout_i` have 46 - i links left to an inside file / to the canary outside
        os.symlink(".", os.path.join(R, "base", "s"))
        names = ["nest"] + [f"nest_{i}" for i in range(1, 46)]
        for i, n in enumerate(names):
            os.symlink(names[i + 1] + "/." if i + 1 < 46 else "d", os.path.join(R, "base", n))
    # non-regular objects inside the base: a FIFO (kept open read-write by the harness so that an open() of it can
    # never block) holding 8 bytes, and, when permitted, a character device (a /dev/zero clone)
    special_fds = []
    os.mkfifo(os.path.join(R, "base/fifo"))
    fd = os.open(os.path.join(R, "base/fifo"), os.O_RDWR | os.O_NONBLOCK)
    os.write(fd, b"FIFODATA")
    special_fds.append(fd)
    try:
        os.mknod(os.path.join(R, "base/zero"), 0o666 | stat.S_IFCHR, os.makedev(1, 5))
    except OSError:
        pass
    scratch = os.path.join(top, "scratch")
    os.mkdir(scratch)
    return {"top": top, "R": R, "scratch": scratch, "special_fds": special_fds,
            "canaries": sorted(v.decode() for k, v in files.items() if v.startswith(b"CANARY")) + ["FIFODATA", "\0" * NBYTES]}


def describe_tree(R: str, idmap: dict | None = None) -> dict:
    """Walk R without following links -> entries for the model + ground truth for the oracle.
    `idmap` ((dev, ino) -> id) keeps inode ids stable across descriptions of a changing tree."""
    entries = []  # [path, kind, arg]  kind in d/f/l
    inodes: dict = {}  # (dev, ino) -> {"id", "nlink", "data", "locs"}
    anc = R
    ancs = []
    while anc != "/":
        anc = os.path.dirname(anc)
        ancs.append(anc)
    for a in reversed(ancs):
        if a != "/":
            entries.append([a, "d", os.stat(a).st_nlink])
    stack = [R]
    while stack:
        p = stack.pop()
        st = os.lstat(p)
        import stat as _stat

        if _stat.S_ISLNK(st.st_mode):
            entries.append([p, "l", os.readlink(p)])
        elif _stat.S_ISDIR(st.st_mode):
            entries.append([p, "d", st.st_nlink])
            for n in sorted(os.listdir(p), reverse=True):
                stack.append(os.path.join(p, n))
        elif not _stat.S_ISREG(st.st_mode):
            # FIFO, socket, device node: never read by the harness
            key = (st.st_dev, st.st_ino)
            if key not in inodes:
                iid = len(inodes) + 1 if idmap is None else idmap.setdefault(key, len(idmap) + 1)
                inodes[key] = {"id": iid, "nlink": st.st_nlink, "data": "", "locs": [], "kind": "o"}
            inodes[key]["locs"].append(p)
            entries.append([p, "o", inodes[key]["id"]])
        else:
            key = (st.st_dev, st.st_ino)
            if key not in inodes:
                with open(p, "rb") as f:
                    data = f.read()
                if idmap is None:
                    iid = len(inodes) + 1
                else:
                    iid = idmap.setdefault(key, len(idmap) + 1)
                inodes[key] = {"id": iid, "nlink": st.st_nlink, "data": data.decode("latin1"), "locs": []}
            inodes[key]["locs"].append(p)
            entries.append([p, "f", inodes[key]["id"]])
    return {"entries": entries, "inodes": inodes}


def build_random_tree(rng) -> dict:
    """A small random tree: directories, files, symlinks with random (relative / absolute / dangling /
    looping) targets, hard links.  File contents are unique."""
    top = os.path.realpath(tempfile.mkdtemp(prefix="irverif-c10-"))
    R = os.path.join(top, "r")
    os.mkdir(R)
    names = ["a", "b", "c", "x"]
    dirs = [R]
    files = []
    contents = []
    for _ in range(rng.randrange(4, 13)):
        parent = rng.choice(dirs)
        name = rng.choice(names)
        p = os.path.join(parent, name)
        if os.path.lexists(p):
            continue
        r = rng.random()
        if r < 0.3:
            os.mkdir(p)
            dirs.append(p)
        elif r < 0.55:
            c = ("F%07d" % len(contents)).encode()
            _w(p, c)
            contents.append(c.decode())
            files.append(p)
        elif r < 0.65 and files:
            os.link(rng.choice(files), p)
        else:
            k = rng.randrange(1, 4)
            t = "/".join(rng.choice(names + ["..", "..", ".", ""]) for _ in range(k))
            q = rng.random()
            if q < 0.15:
                t = R + "/" + t
            elif q < 0.2:
                t = "/" + t
            elif q < 0.3:
                t = t + "/"
            if t == "":
                t = "."
            os.symlink(t, p)
    scratch = os.path.join(top, "scratch")
    os.mkdir(scratch)
    return {"top": top, "R": R, "scratch": scratch, "canaries": contents, "dirs": dirs}


def random_tree_path(rng, R: str) -> str:
    k = rng.randrange(1, 6)
    body = "/".join(rng.choice(["a", "b", "c", "x", "a", "b", "..", ".", ""]) for _ in range(k))
    r = rng.random()
    if r < 0.75:
        return body
    if r < 0.8:
        return "/" + body
    return R + "/" + body


# --------------------------------------------------------------------------- no hang, no crash on a changed implementation


class _Timeout(BaseException):
    """raised by the SIGALRM handler (BaseException: `except Exception` in the harness or the library does not swallow it)"""


READ_TIMEOUT_S = 20.0     # one call of an entry point / one public operation of the real code
STREAM_TIMEOUT_S = 900.0  # one stream (a family of cases in the main process, one job of a worker)
_EXPIRED = {"n": 0}       # time limits that expired in this process: after 3 the stream is abandoned, later streams get 5 s per call


class _TooManyTimeouts(Exception):
    pass


def _read_limit() -> float:
    return READ_TIMEOUT_S if _EXPIRED["n"] < 3 else 5.0


def _on_alarm(signum, frame):
    raise _Timeout()


class _time_limit:
    """`with _time_limit(seconds) as tl: ...`: the body is interrupted by SIGALRM after `seconds` (real code that loops, or blocks in
    an interruptible system call); `tl.expired` tells.  Nests: an enclosing limit keeps running."""

    def __init__(self, seconds: float):
        self.seconds, self.expired = seconds, False

    def __enter__(self):
        import signal
        import time

        self._t0 = time.monotonic()
        self._old_handler = signal.signal(signal.SIGALRM, _on_alarm)
        self._outer = signal.setitimer(signal.ITIMER_REAL, self.seconds)[0]
        if 0 < self._outer < self.seconds:  # never outlive the enclosing limit
            signal.setitimer(signal.ITIMER_REAL, self._outer)
        return self

    def __exit__(self, et, ev, tb):
        import signal
        import time

        signal.setitimer(signal.ITIMER_REAL, 0)
        signal.signal(signal.SIGALRM, self._old_handler)
        mine = et is not None and issubclass(et, _Timeout)
        if self._outer > 0:
            left = self._outer - (time.monotonic() - self._t0)
            if mine and left <= 0.05:
                return False  # the ENCLOSING limit expired: let it see the exception
            signal.setitimer(signal.ITIMER_REAL, max(left, 0.05))
        if mine:
            self.expired = True
            _EXPIRED["n"] += 1
            return True
        return False


def _guard(part, name: str, fn, *a, limit: float | None = None, **kw):
    """Run one stream of the harness so that a changed implementation can neither hang nor crash the check: a time limit
    (-> failing input `nontermination:<stream>`) and exceptions escaping the stream (real code called on harness stubs, a
    generator that meets an implementation it was not written for) become a broken correspondence, never a harness crash."""
    try:
        with _time_limit(limit or STREAM_TIMEOUT_S) as tl:
            return fn(*a, **kw)
        if tl.expired:
            part.fail(f"nontermination:stream:{name}", f"the stream {name} did not finish within {limit or STREAM_TIMEOUT_S:.0f} s (real code that does not terminate?)", {"stream": name})
    except Infra:
        raise
    except _TooManyTimeouts:
        part.fail(f"nontermination:stream:{name}", f"the stream {name} was abandoned: calls of the real code keep exceeding their time limit", {"stream": name})
    except Exception as e:  # noqa: BLE001
        import traceback

        part.disagree(f"the stream {name} raised outside a guarded call of the real code", {"stream": name}, None,
                      f"{type(e).__name__}: {e}"[:300] + " @ " + " <- ".join(f"{f.name}:{f.lineno}" for f in traceback.extract_tb(e.__traceback__)[-3:]))
    return None


# --------------------------------------------------------------------------- real reads

_AUDIT = {"on": False, "events": [], "sites": [], "installed": False, "pkg": None}


def _opening_site():
    """(file relative to the onnx_ir package, qualified function) of the innermost onnx_ir frame below an open()."""
    pkg = _AUDIT["pkg"]
    if pkg is None:
        import onnx_ir

        pkg = _AUDIT["pkg"] = os.path.dirname(os.path.abspath(onnx_ir.__file__)) + os.sep
    f = sys._getframe(2)
    while f is not None:
        fn = f.f_code.co_filename
        if fn.startswith(pkg):
            return (fn[len(pkg):], f.f_code.co_qualname)
        f = f.f_back
    return None


def _hook(event, args):
    if _AUDIT["on"] and event == "open":
        try:
            p = args[0]
            if isinstance(p, bytes):
                p = os.fsdecode(p)
            if isinstance(p, str):
                _AUDIT["events"].append(p)
                _AUDIT["sites"].append(_opening_site())
        except Exception:
            pass


def _ensure_hook():
    if not _AUDIT["installed"]:
        sys.addaudithook(_hook)
        _AUDIT["installed"] = True


def _classify(e: BaseException) -> str:
    m = str(e)
    if isinstance(e, ValueError):
        if "path traversal attack." in m and "outside the base directory" in m and "via symlink" not in m:
            return "c1"
        if "resolves via symlink" in m:
            return "c2"
        if "multiple hard links" in m or "is not a regular file" in m or "could not be verified" in m:
            return "c3"  # "could not be verified": the samestat cross-check of os.path.realpath against the kernel (D451 / D452)
        if "embedded null byte" in m:
            return "c2"  # os.lstat inside check 2's os.path.realpath refuses the string (model: check2 = false)
    if isinstance(e, TypeError) and "mix str" in m.replace("strings", "str"):
        return "type"  # os.path.join(bytes base_dir, str location): raised before any check or open
    if isinstance(e, TypeError) and "endswith first arg must be bytes" in m:
        return "type"
    if isinstance(e, OSError):
        return "open"
    return "other"


def make_tensor(base: str, loc: str, offset: int = 0, length: int = NBYTES):
    import onnx_ir as ir

    return ir.ExternalTensor(loc, offset, length, ir.DataType.UINT8, shape=ir.Shape([NBYTES if length is None else length]), name="t", base_dir=base)


def read_via(t, ep: str, scratch: str) -> bytes:
    import numpy as np

    if ep == "numpy":
        return t.numpy().tobytes()
    if ep == "tobytes":
        return bytes(t.tobytes())
    if ep == "tofile_bytesio":
        b = io.BytesIO()
        t.tofile(b)
        return b.getvalue()
    if ep == "tofile_file":
        dst = os.path.join(scratch, f"out-{os.getpid()}")
        with open(dst, "wb") as f:
            t.tofile(f)
        with open(dst, "rb") as f:
            return f.read()
    if ep == "array":
        return np.asarray(t).tobytes()
    if ep == "serialize_raw":
        import onnx_ir as ir

        (mem,) = ir.external_data.convert_tensors_from_external([t])
        return bytes(ir.serde.serialize_tensor(mem).raw_data)
    raise AssertionError(ep)


def real_read(t, ep: str, scratch: str, R: str, release: bool = True) -> dict:
    """Run one read under the audit hook; canonical observation."""
    _ensure_hook()
    _AUDIT["events"] = []
    _AUDIT["sites"] = []
    _AUDIT["on"] = True
    obs = None
    try:
        with _time_limit(_read_limit()) as tl:
            try:
                data = read_via(t, ep, scratch)
                obs = {"r": "ok", "bytes": data.decode("latin1")}
            except Exception as e:  # noqa: BLE001
                obs = {"r": "raised", "layer": _classify(e), "exc": type(e).__name__}
        if tl.expired or obs is None:
            obs = {"r": "raised", "layer": "timeout", "exc": "Timeout"}  # reported by compare() as nontermination:read:<ep>
    finally:
        _AUDIT["on"] = False
        if release:
            try:
                t.release()
            except Exception:
                pass
    try:
        own = os.path.join(os.fspath(t.base_dir), os.fspath(t.location))
        if isinstance(own, bytes):
            own = os.fsdecode(own)
    except Exception:  # noqa: BLE001
        own = None
    obs["own_opens"] = sum(1 for p in _AUDIT["events"] if p == own)
    cwd = os.getcwd()
    opened = []
    sites = set()
    for p, site in zip(_AUDIT["events"], _AUDIT["sites"]):
        ap = p if os.path.isabs(p) else os.path.join(cwd, p)
        if ap.startswith(scratch):
            continue
        opened.append(ap)
        if site is not None:
            sites.add(site)
    obs["opened"] = opened
    obs["open_sites"] = sorted(list(x) for x in sites)  # which onnx_ir functions opened files during this call
    return obs


# --------------------------------------------------------------------------- oracle


def true_location(path: str, R: str):
    """Ground truth for where an opened path leads: (dev, ino) of what the kernel opens."""
    try:
        st = os.stat(path)
        return (st.st_dev, st.st_ino)
    except OSError:
        return None


def oracle(part, tree: dict, desc: dict, case: dict, obs: dict, true_base: str | None) -> None:
    """The property itself on the real objects.  `true_base` = true location of the base directory
    (by construction of the base spelling), None when the base does not exist."""
    R = tree["R"]
    sig_case = f"{case['ep']}:{case.get('via', 'direct')}"
    inos = desc["inodes"]

    def inside(key) -> bool:
        info = inos.get(key)
        if info is None or true_base is None or info.get("kind") == "o":
            return False
        if info["nlink"] != 1:
            return False
        tb = true_base.rstrip("/") + "/"
        return all((l + "/").startswith(tb) for l in info["locs"])

    in_tree = [p for p in obs["opened"] if (posixpath.normpath(p) + "/").startswith(tree["top"] + "/") or true_location(p, R) in inos]
    off, ln = case.get("offset", 0) or 0, case.get("length", NBYTES)
    ln = NBYTES if ln is None else ln
    if obs["r"] == "ok":
        ok_inside = [info for key, info in inos.items() if inside(key) and info["data"][off:off + (ln if ln is not None else NBYTES)] == obs["bytes"]]
        if not ok_inside:
            if any(c[off:off + ln] == obs["bytes"] for c in tree["canaries"]):
                part.fail(f"canary-read:{sig_case}", "a read returned the bytes of a file outside the base directory", {**case, "obs": obs})
            else:
                part.fail(f"not-inside-file:{sig_case}", "returned bytes are not those of a singly-linked regular file inside the resolved base directory", {**case, "obs": obs})
        for p in in_tree:
            key = true_location(p, R)
            if key is not None and key in inos and not inside(key):
                part.fail(f"outside-open:{sig_case}", "an accepted read opened a file outside the base directory / with several links", {**case, "obs": obs})
    else:
        for p in in_tree:
            key = true_location(p, R)
            if key is not None and key in inos and not inside(key):
                part.fail(f"open-before-reject:{sig_case}", "a rejected read opened a file outside the base directory", {**case, "obs": obs})


# --------------------------------------------------------------------------- generators

TOKENS = [".", "..", "d", "f", "link_in", "link_out", ""]
EXTRA_TOKENS = ["fifo", "zero", "dlink_out", "dlink_in", "hard", "up", "chain", "loop_a", "dangling", "link_abs_out", "link_abs_in",
                "hard_in", "link_sib", "g", "e", "nothing", "basex", "outside", "base", "canary", "back", "link_in2",
                "chain_in", "dangling_out", "blink"]
CHAIN_TOKENS = ["mid", "deep", "deepout", "deep_13", "deep_3", "mid_29", "deepout_40", "deep_6", "deep_5", "deepout_6", "deepout_5", "nest_6", "nest_5", "s"]


def band_location(rng) -> tuple:
    """A location that makes the kernel follow about 40 symbolic links in ONE resolution (36..44, counted by construction),
    mixing links followed one after the other (`s -> .`, dlink_in/.., d/up), chains of trailing links (deep_i, deepout_i) and
    nested non-trailing links (nest_i).  Returns (location, number of links, shape)."""
    total = rng.choice([36, 38, 39, 40, 40, 41, 41, 42, 44])
    shape = rng.choice(["seq", "chain", "nest", "seq+chain", "seq+nest", "seq+chain-out", "chain-out", "mixed"])
    pre, left = [], total
    if shape in ("mixed",):
        for _ in range(rng.randrange(1, 4)):
            tok, cost = rng.choice([("dlink_in/..", 1), ("d/up", 1), ("dlink_in/up", 2), ("s", 1)])
            pre.append(tok)
            left -= cost
    if shape.startswith("seq") or shape == "mixed":
        k = left if shape == "seq" else rng.randrange(1, left)
        pre += ["s"] * k
        left -= k
    if shape == "seq":
        tail = rng.choice(["f", "d/f", "g"])
    elif "nest" in shape or (shape == "mixed" and rng.random() < 0.4):
        tail = f"nest_{46 - left}/f" if left < 46 else "nest/f"
    elif shape.endswith("-out") or (shape == "mixed" and rng.random() < 0.5):
        tail = f"deepout_{46 - left}" if left < 46 else "deepout"
    else:
        tail = f"deep_{46 - left}" if left < 46 else "deep"
    if left <= 0:
        tail = "f"
        total -= left
    return "/".join(pre + [tail]), total, shape


def base_spellings(R: str) -> list[dict]:
    """Each spelling: cwd to use, the base_dir string, the TRUE location of the base (ground truth)."""
    rname = os.path.basename(R)
    b = R + "/base"
    return [
        {"cwd": R, "base": b, "true": b, "kind": "abs"},
        {"cwd": R, "base": b + "/", "true": b, "kind": "abs-trailing"},
        {"cwd": R, "base": "base", "true": b, "kind": "rel"},
        {"cwd": R, "base": "./base/", "true": b, "kind": "rel-dot-trailing"},
        {"cwd": R + "/base", "base": ".", "true": b, "kind": "dot"},
        {"cwd": R + "/base/d", "base": "..", "true": b, "kind": "dotdot"},
        {"cwd": R, "base": f"../{rname}/base/.", "true": b, "kind": "rel-updown"},
        {"cwd": R, "base": R + "/blink", "true": b, "kind": "abs-symlink"},
        {"cwd": R, "base": "blink/", "true": b, "kind": "rel-symlink"},
        {"cwd": R, "base": R + "//base", "true": b, "kind": "abs-doubleslash"},
        {"cwd": R, "base": "/" + b, "true": b, "kind": "two-leading-slashes"},
        {"cwd": R, "base": "//" + b, "true": b, "kind": "three-leading-slashes"},
        {"cwd": R, "base": R + "/base/d/..", "true": b, "kind": "abs-dotdot"},
        {"cwd": R, "base": R + "/base/d/up", "true": b, "kind": "abs-symlink-up"},
        {"cwd": R, "base": R + "/base/d", "true": b + "/d", "kind": "abs-subdir"},
        {"cwd": R, "base": R + "/nonexistent", "true": None, "kind": "abs-missing"},
        {"cwd": R, "base": R + "/base/f", "true": b + "/f", "kind": "abs-is-file"},
        {"cwd": R + "/outside", "base": "../base", "true": b, "kind": "rel-from-sibling"},
        {"cwd": R, "base": R + "/base/dlink_out", "true": R + "/outside", "kind": "abs-symlink-to-outside-dir"},
        {"cwd": R + "/base", "base": "dlink_in/..", "true": b, "kind": "rel-symlink-dotdot"},
        {"cwd": R, "base": R + "/base/loop_a", "true": None, "kind": "abs-symlink-loop"},
        {"cwd": R, "base": "base/dangling", "true": None, "kind": "rel-dangling"},
        {"cwd": R, "base": "/", "true": "/", "kind": "root"},
        {"cwd": R + "/base", "base": "dlink_out/..", "true": R, "kind": "rel-lexical-differs-from-real"},
    ]


def locations_exhaustive(R: str, maxlen: int) -> list[str]:
    """All component sequences of length <= maxlen over TOKENS, relative and with absolute roots."""
    locs = []
    prefixes = ["", "/", R + "/base/", R + "/outside/", R + "/basex/"]
    for n in range(0, maxlen + 1):
        for seq in itertools.product(TOKENS, repeat=n):
            body = "/".join(seq)
            locs.append(body)
    out = []
    for pre in prefixes:
        for body in locs:
            if pre and len(body.split("/")) > max(1, maxlen - 1) and body:
                continue
            out.append(pre + body)
    # dedupe, keep order
    seen = set()
    res = []
    for l in out:
        if l not in seen:
            seen.add(l)
            res.append(l)
    return res


def random_location(rng, R: str) -> str:
    n = rng.randrange(1, 7)
    toks = TOKENS + EXTRA_TOKENS
    seq = [rng.choice(TOKENS) if rng.random() < 0.5 else rng.choice(toks) for _ in range(n)]
    body = "/".join(seq)
    r = rng.random()
    if r < 0.7:
        return body
    if r < 0.8:
        return "/" + body
    return rng.choice([R + "/base/", R + "/outside/", R + "/basex/", R + "/", R + "/base//", "/" + R + "/base/"]) + body


# --------------------------------------------------------------------------- workers


KFUEL = 40  # Linux MAXSYMLINKS
PFUEL = 200


def fs_json(desc: dict) -> dict:
    return {"entries": desc["entries"],
            "inodes": [[info["id"], info["nlink"], info["data"]] for info in desc["inodes"].values()]}


def _work(job: dict) -> dict:
    part = Part()
    _guard(part, "reads", _work_body, part, job)
    return part


def _work_body(part, job: dict) -> dict:
    """One chunk: fixed base spelling, list of (loc, ep, offset, length)."""
    tree, desc, sp = job["tree"], job["desc"], job["sp"]
    R = tree["R"]
    os.chdir(sp["cwd"])
    id_of = {info["id"]: info for info in desc["inodes"].values()}
    queries = []
    obs_list = []
    for loc, ep, off, ln, *extra in job["cases"]:
        case = {"cwd": sp["cwd"], "base": sp["base"], "loc": loc, "ep": ep, "offset": off, "length": ln, "base_kind": sp["kind"]}
        if extra:
            case["hist"] = extra[0]
        t = make_tensor(sp["base"], loc, off, ln)
        obs = real_read(t, ep, tree["scratch"], R)
        oracle(part, tree, desc, case, obs, sp["true"])
        obs_list.append((case, obs))
        queries.append([sp["base"], loc, off or 0, NBYTES if ln is None else ln, ep])
    reqs = [{"m": "path.reads", "fs": fs_json(desc), "cwd": sp["cwd"], "kfuel": KFUEL, "fuel": PFUEL, "queries": queries}]
    if job.get("fuelcmp"):
        reqs.append({"m": "path.reads", "fs": fs_json(desc), "cwd": sp["cwd"], "kfuel": KFUEL, "fuel": KFUEL, "queries": queries})
    if job.get("fuelcmp"):
        # the model with PATH_MAX at every path operation on the same cases (tofile semantics): on trees without long names it
        # must agree with the plain model, and the hypothesis of C10_pathmax_safe (link-free answers) must hold where it reads
        reqs.append({"m": "path.readsP", "fs": fs_json(desc), "cwd": sp["cwd"], "kfuel": KFUEL, "fuel": PFUEL, "queries": [q[:4] for q in queries]})
    both = lean_batch(reqs)
    outs = both[0]
    outs_k = both[1] if len(both) > 1 else {"r": []}
    outs_p = both[2] if len(both) > 2 else {"r": []}
    if "r" in outs and "r" in outs_p:
        for (case, obs), o1, op in zip(obs_list, outs["r"], outs_p["r"]):
            if op["r"] == "ok" and sp["base"] != "":
                part.count("pathmax_linkfree=" + ("holds" if op.get("lf") else "FAILS"))
            if op.get("veq") is not True:
                part.disagree("the general model over restricted system calls (readV), instantiated with PATH_MAX only (sysP), differs from readP", case, op, None)
            if case["ep"].startswith("tofile") and (o1["r"], o1.get("bytes"), o1["v"], o1["opened"]) != (op["r"], op.get("bytes"), op["v"], op["opened"]):
                part.disagree("the model with PATH_MAX at every path operation differs from the plain model on a tree without long names", case, o1, op)
    if "r" not in outs or "r" not in outs_k:
        part.disagree("model error", {"sp": sp}, outs, None)
        return part
    # C10_fuel_discharged on the generated cases: hypothesis = (relative location, or the kernel resolves the base);
    # conclusion = the model's outcome with fuel = kfuel equals its outcome with the large recursion bound (and hence the
    # real code's, which is compared below).  C10_eloop_no_open: hypothesis = the kernel does not resolve the path.
    for (case, obs), o1, o0 in zip(obs_list, outs["r"], outs_k["r"]):
        hyp = (not case["loc"].startswith("/")) or sp["true"] is not None
        part.count("fuel_hypothesis=" + ("holds" if hyp else "fails"))
        if hyp and (o1["r"], o1.get("bytes"), o1["opened"] if o1["opened"] != "fail" else None) != (o0["r"], o0.get("bytes"), o0["opened"] if o0["opened"] != "fail" else None):
            part.disagree("model outcome depends on the recursion bound although fuel >= kfuel (C10_fuel_discharged)", case, o1, o0)
        if o1["v"] != o0["v"]:
            part.count("fuel_verdict_differs_outcome_same")
    for (case, obs) in obs_list:
        try:
            os.stat(os.path.join(case["cwd"], case["base"], case["loc"]))
            part.count("eloop_hypothesis=path-resolves")
        except OSError as e_:
            import errno as _errno

            part.count("eloop_hypothesis=" + ("ELOOP" if e_.errno == _errno.ELOOP else "ENAMETOOLONG" if e_.errno == _errno.ENAMETOOLONG else "other-errno"))
            if obs["r"] == "ok":
                part.fail(f"unresolvable-path-read:{case['ep']}", "a read returned bytes although the kernel does not resolve the tensor's path", {**case, "obs": obs})
        except ValueError:
            part.count("eloop_hypothesis=nul")
    for (case, obs), out in zip(obs_list, outs["r"]):
        layer = obs.get("layer", "ok" if obs["r"] == "ok" else "?")
        hist = case.pop("hist", {})
        if hist:
            hist = {**hist, "band_outcome": f"{hist.get('band_links')}:{obs['r'] if obs['r'] == 'ok' else 'raised-' + layer}"}
        part.case([case["cwd"].replace(R, "$R"), case["base"].replace(R, "$R"), case["loc"].replace(R, "$R"), case["ep"], case["offset"], case["length"]],
                  nontrivial=True, sample=dict(case), base=case["base_kind"], ep=case["ep"],
                  outcome=(obs["r"] if obs["r"] == "ok" else "raised-" + layer), ncomp=min(len(case["loc"].split("/")), 6), **hist)
        compare(part, case, obs, out, desc["inodes"], R)
    return part


def compare(part, case: dict, obs: dict, out: dict, id_of: dict, R: str) -> None:
    """Model verdict vs the real read: accept/reject, bytes, which layer rejects, whether the tensor's path was
    opened by this call and which inode that reached."""
    if obs.get("layer") == "timeout":
        part.fail(f"nontermination:read:{case.get('ep')}", f"a read did not return within {READ_TIMEOUT_S:.0f} s", dict(case))
        if _EXPIRED["n"] >= 3:
            raise _TooManyTimeouts()
        return
    for site in obs.get("open_sites", ()):
        if tuple(site) not in ENTRY_OPEN_SITES:
            part.disagree("a file was opened during a read by an onnx_ir function that is not a modelled open site (FILE_SITES entry:*)", case, sorted(ENTRY_OPEN_SITES), site)
    if "own_opens" in obs:
        m_open = out.get("opened")
        if (m_open is None) != (obs["own_opens"] == 0):
            part.disagree("open / no open of the tensor's path differs", case, out, obs)
        elif obs["own_opens"] > 1:
            part.disagree("the tensor's path was opened more than once in one call", case, out, obs)
        elif m_open is not None and id_of:
            try:
                own_abs = os.path.join(case["cwd"], case["base"], case["loc"])
                st_ = os.stat(own_abs)
                info = id_of.get((st_.st_dev, st_.st_ino))
                real_id = info["id"] if info is not None else "fail"
            except (OSError, ValueError):
                real_id = "fail"
            if real_id != m_open and not (real_id != "fail" and m_open == "fail" and os.path.isdir(own_abs)):
                part.disagree("opened inode differs", case, out, {**obs, "real_opened": real_id})
    if out["r"] != obs["r"]:
        part.disagree("accept/reject differs", case, out, obs)
        return
    if obs["r"] == "ok":
        if out.get("bytes") != obs["bytes"]:
            part.disagree("bytes differ", case, out, obs)
        return
    layer = obs.get("layer")
    mlayer = {"c1": "c1", "c2": "c2", "c3": "c3"}.get(out["v"], "open")
    if layer == "type" or out.get("nev") == 0:
        # TypeError from os.path.join(bytes, str): the model performs no event at all
        if not (layer == "type" and (out.get("nev", 0) == 0 or (out.get("nev") == 1 and out.get("v") == "skipped"))):
            part.disagree("raised without any event (TypeError on a bytes base_dir) differs", case, out, obs)
        return
    if layer in ("c1", "c2", "c3", "open"):
        if mlayer != layer:
            part.disagree("rejecting layer differs", case, out, obs)
    elif layer == "other" and mlayer in ("c1", "c2", "c3"):
        # e.g. numpy's ValueError for a short file: the model must have reached the open
        part.disagree("rejecting layer differs (implementation raised after the check)", case, out, obs)


def _realpath_work(job: dict) -> dict:
    part = Part()
    _guard(part, "realpath", _realpath_body, part, job)
    return part


def _realpath_body(part, job: dict) -> dict:
    """os.path.realpath / os.lstat / os.stat vs the model on the same tree."""
    import stat as _stat

    desc, cwd, paths, R = job["desc"], job["cwd"], job["paths"], job["R"]
    os.chdir(cwd)
    key_of = {k: info["id"] for k, info in desc["inodes"].items()}

    def show(p, follow):
        try:
            st = os.stat(p) if follow else os.lstat(p)
        except (OSError, ValueError):
            return "none"
        if _stat.S_ISLNK(st.st_mode):
            return "l" + os.readlink(p)
        if _stat.S_ISDIR(st.st_mode):
            return "d"
        return ("f" if _stat.S_ISREG(st.st_mode) else "o") + f"{key_of.get((st.st_dev, st.st_ino), '?')}"

    fsj = fs_json(desc)
    outs = lean_batch([
        {"m": "path.realpaths", "fs": fsj, "cwd": cwd, "kfuel": KFUEL, "fuel": PFUEL, "paths": paths},
        {"m": "path.lstats", "fs": fsj, "cwd": cwd, "kfuel": KFUEL, "follow": False, "paths": paths},
        {"m": "path.lstats", "fs": fsj, "cwd": cwd, "kfuel": KFUEL, "follow": True, "paths": paths},
        {"m": "path.nolinks", "fs": fsj, "cwd": cwd, "kfuel": KFUEL, "paths": paths + [os.path.realpath(p) for p in paths]},
    ])
    for o in outs:
        if "r" not in o:
            part.disagree("model error", {"cwd": cwd}, o, None)
            return part
    for i, p in enumerate(paths):
        part.case(["realpath", cwd.replace(R, "$R"), p.replace(R, "$R")], nontrivial=True, fn="realpath/lstat/stat")
        e = os.path.realpath(p)
        if outs[0]["r"][i] != e:
            part.disagree("realpath model != os.path.realpath", {"cwd": cwd, "p": p}, outs[0]["r"][i], e)
        for k, follow in ((1, False), (2, True)):
            e = show(p, follow)
            if outs[k]["r"][i] != e:
                part.disagree(("stat" if follow else "lstat") + " model != kernel", {"cwd": cwd, "p": p}, outs[k]["r"][i], e)
    # the prefix walk of check 3 (D454; model noLinkOn with lstatP) vs the same loop on the running kernel: on the raw strings
    # (with "..", links, trailing separators) and on what os.path.realpath answers for them
    for i, p in enumerate(paths + [os.path.realpath(p) for p in paths]):
        e = real_nolink(p)
        part.case(["nolink", cwd.replace(R, "$R"), p.replace(R, "$R")], nontrivial=True, fn="nolink-walk", nolink=("passes" if e else "refuses") + ("-raw" if i < len(paths) else "-realpath"))
        if outs[3]["r"][i] != e:
            part.disagree("prefix walk (noLinkOn) model != os.lstat / os.path.dirname loop on the kernel", {"cwd": cwd, "p": p}, outs[3]["r"][i], e)
    return part


def real_nolink(p: str) -> bool:
    """the loop the repaired check 3 runs on path_real / base_real (D454), on the running kernel"""
    try:
        while True:
            if stat.S_ISLNK(os.lstat(p).st_mode):
                return False
            d = os.path.dirname(p)
            if d == p:
                return True
            p = d
    except (OSError, ValueError):
        return False


# --------------------------------------------------------------------------- string functions


def _remove_stale_trees(max_age_s: int = 2 * 3600) -> None:
    """Trees of runs that were killed (a finished run removes its own)."""
    import time

    tmp = tempfile.gettempdir()
    try:
        names = os.listdir(tmp)
    except OSError:
        return
    for n in names:
        if n.startswith("irverif-c10-"):
            p = os.path.join(tmp, n)
            try:
                if time.time() - os.lstat(p).st_mtime > max_age_s:
                    shutil.rmtree(p, ignore_errors=True) if os.path.isdir(p) and not os.path.islink(p) else os.remove(p)
            except OSError:
                pass


def check_links(part, desc: dict, what: str) -> None:
    """Link counts of the described tree are sound (hypothesis LinkCountSound of C10_single_name): an inode has
    at most st_nlink names in the tree."""
    for info in desc["inodes"].values():
        if len(info["locs"]) > info["nlink"]:
            part.disagree("described tree violates link-count soundness", {"tree": what, "locs": info["locs"]}, info["nlink"], len(info["locs"]))


def string_functions(ctx: Ctx) -> None:
    alpha = ["/", ".", "a", "b"]
    n = ctx.pick(6, 7)
    strs = ["".join(t) for k in range(0, n + 1) for t in itertools.product(alpha, repeat=k)]
    for _ in range(ctx.pick(2000, 20000)):
        k = ctx.rng.randrange(1, 14)
        strs.append("".join(ctx.rng.choice(["/", "/", ".", "..", "a", "bc", "a.b", " ", "é"]) for _ in range(k)))
    reqs, exp, cases = [], [], []
    for s in strs:
        reqs.append({"m": "path.normpath", "p": s}); exp.append(posixpath.normpath(s)); cases.append(("normpath", s))
        reqs.append({"m": "path.dirname", "p": s}); exp.append(posixpath.dirname(s)); cases.append(("dirname", s))
        reqs.append({"m": "path.split", "p": s}); exp.append(list(posixpath.split(s))); cases.append(("split", s))
    nex = sum(len(alpha) ** k for k in range(0, n + 1))
    short = [s for s in strs[:nex] if len(s) <= 3]
    pairs = [(a, b) for a in short for b in short]
    pairs += [(ctx.rng.choice(strs), ctx.rng.choice(strs)) for _ in range(ctx.pick(5000, 50000))]
    for a, b in pairs:
        reqs.append({"m": "path.join", "a": a, "b": b}); exp.append(posixpath.join(a, b)); cases.append(("join", [a, b]))
    old = os.getcwd()
    try:
        for cwd in ("/", os.path.realpath(tempfile.gettempdir())):
            os.chdir(cwd)
            for a in short + strs[-500:]:
                reqs.append({"m": "path.abspath", "cwd": cwd, "p": a}); exp.append(posixpath.abspath(a)); cases.append(("abspath", [cwd, a]))
    finally:
        os.chdir(old)
    ctx.exhaustive_scopes.append(f"normpath/dirname/split: all strings over {{'/','.','a','b'}} of length <= {n}; join: all pairs of such strings of length <= 3")
    outs = lean_batch_parallel(reqs)
    for (fn, arg), e, o in zip(cases, exp, outs):
        ctx.case([fn, arg], nontrivial=bool(arg), fn=fn)
        if o.get("r") != e:
            ctx.disagree(f"{fn} model != posixpath", {"fn": fn, "arg": arg}, o, e)


# --------------------------------------------------------------------------- load()


def load_cases(ctx: Ctx, tree: dict, desc: dict) -> None:
    """ir.load with absolute / relative / bare model paths: base_dir derivation + reads through it."""
    import numpy as np
    import onnx_ir as ir

    R = tree["R"]
    locs = ["f", "d/f", "link_in", "link_out", "../outside/canary", "../basex/f", R + "/outside/canary", "hard",
            "dlink_out/f", "d/../f", "./f", "d//f", "../base/f", "dlink_in/f", "chain", "d/up/f", "d/hard_in", "nothing"]
    # one model file with one external initializer per location
    vals = []
    for i, loc in enumerate(locs):
        t = ir.ExternalTensor(loc, 0, NBYTES, ir.DataType.UINT8, shape=ir.Shape([NBYTES]), name=f"t{i}")
        v = ir.Value(name=f"t{i}", const_value=t, shape=ir.Shape([NBYTES]), type=ir.TensorType(ir.DataType.UINT8))
        vals.append(v)
    graph = ir.Graph([], [], nodes=[], initializers=vals, name="g", opset_imports={"": 20})
    model = ir.Model(graph, ir_version=10)
    mpath = os.path.join(R, "base", "m.onnx")
    ir.save(model, mpath)
    mpath_up = os.path.join(R, "m.onnx")  # the same model one level up: opened through "<symlinked dir>/.."
    ir.save(model, mpath_up)
    desc_m = describe_tree(R)  # the tree including the model files
    rname = os.path.basename(R)
    b = R + "/base"
    spellings = [
        {"cwd": b, "path": "dlink_out/../m.onnx", "true": R, "kind": "symlink-dotdot"},
        {"cwd": R, "path": "base/dlink_in/up/../m.onnx", "true": R, "kind": "symlink-up-dotdot"},
        {"cwd": R, "path": mpath, "true": b, "kind": "abs"},
        {"cwd": R, "path": "base/m.onnx", "true": b, "kind": "rel"},
        {"cwd": R, "path": "./base/m.onnx", "true": b, "kind": "rel-dot"},
        {"cwd": b, "path": "m.onnx", "true": b, "kind": "bare"},
        {"cwd": b, "path": "./m.onnx", "true": b, "kind": "dot-bare"},
        {"cwd": R, "path": "base//m.onnx", "true": b, "kind": "double-sep"},
        {"cwd": R, "path": "blink/m.onnx", "true": b, "kind": "via-symlink"},
        {"cwd": R, "path": f"../{rname}/base/m.onnx", "true": b, "kind": "updown"},
        {"cwd": b + "/d", "path": "../m.onnx", "true": b, "kind": "dotdot"},
        {"cwd": R, "path": R + "//base///m.onnx", "true": b, "kind": "abs-multi-sep"},
    ]
    old = os.getcwd()
    try:
        for sp in spellings:
            os.chdir(sp["cwd"])
            out = lean_batch([{"m": "path.loadbase", "cwd": sp["cwd"], "p": sp["path"]}, {"m": "path.loadbase_unfixed", "p": sp["path"]}])
            m = ir.load(sp["path"])
            tensors = [v.const_value for v in m.graph.initializers.values()]
            got_base = os.fspath(tensors[0].base_dir)
            ctx.case(["load", sp["kind"], sp["path"].replace(R, "$R")], sample={"load": sp["path"], "cwd": sp["cwd"]}, load=sp["kind"])
            if got_base == "":
                ctx.fail(f"load-empty-base:{sp['kind']}", "ir.load assigned an empty base directory: containment checks are disabled",
                         {"cwd": sp["cwd"], "path": sp["path"], "base_dir": got_base})
            try:
                same = os.path.samefile(got_base, sp["true"])
            except OSError:
                same = False
            if got_base != "" and not same:
                ctx.fail(f"load-wrong-base:{sp['kind']}", "the base directory assigned by ir.load is not the directory the model file was opened from",
                         {"cwd": sp["cwd"], "path": sp["path"], "base_dir": got_base, "model_dir": sp["true"]})
            if got_base != out[0].get("r"):
                if got_base == out[1].get("r") and got_base == "":
                    ctx.count("load-base-matches-unfixed-model(D23)")
                else:
                    ctx.disagree("load base_dir derivation differs from model", {"cwd": sp["cwd"], "path": sp["path"]}, out, got_base)
            # reads are made from the load-time directory and, after a chdir, from two other directories
            read_cwds = [sp["cwd"], R + "/outside", R]
            groups: dict = {c: ([], []) for c in read_cwds}
            for k, t in enumerate(tensors):
                ep = ENTRY_POINTS[(k + spellings.index(sp)) % len(ENTRY_POINTS)]
                rc = read_cwds[(k + spellings.index(sp)) % len(read_cwds)]
                os.chdir(rc)
                case = {"cwd": rc, "load_cwd": sp["cwd"], "base": got_base, "loc": os.fspath(t.location), "ep": ep, "via": "load-" + sp["kind"], "model_path": sp["path"]}
                obs = real_read(t, ep, tree["scratch"], R)
                oracle(ctx, tree, desc, case, obs, sp["true"])
                ctx.case(["load-read", sp["kind"], case["loc"].replace(R, "$R"), ep, rc.replace(R, "$R")], load_read=sp["kind"], chdir=("same" if rc == sp["cwd"] else "changed"),
                         outcome=(obs["r"] if obs["r"] == "ok" else "raised-" + obs.get("layer", "?")))
                # the model reads with the base directory the MODEL derives from the model path
                groups[rc][0].append([out[0].get("r", ""), case["loc"], 0, NBYTES, ep])
                groups[rc][1].append((case, obs))
            for rc, (queries, obs_l) in groups.items():
                if not queries:
                    continue
                mo = lean_batch([{"m": "path.reads", "fs": fs_json(desc_m), "cwd": rc, "kfuel": KFUEL, "fuel": PFUEL, "queries": queries}])[0]
                if "r" not in mo:
                    ctx.disagree("model error", {"load": sp}, mo, None)
                else:
                    for (case, obs), o in zip(obs_l, mo["r"]):
                        compare(ctx, case, obs, o, desc_m["inodes"], R)
    finally:
        os.chdir(old)
        os.remove(mpath)
        os.remove(mpath_up)


# --------------------------------------------------------------------------- load(): nested models

NEST_LOCS = ["f", "d/f", "link_in", "../outside/canary", "$R/outside/canary", "link_out", "hard", "dlink_out/f", "../basex/f"]


def build_nested_model(R: str):
    """A model whose external tensors sit at every kind of position: main-graph initializers, TENSOR and
    TENSORS attributes of main-graph nodes, initializers and node attributes of subgraphs (GRAPH attributes
    of If/Loop nodes and a GRAPHS attribute) at depth 1, 2 and 3.  Returns (model, description tree for the
    Lean walker model, list of tensor names)."""
    import onnx_ir as ir

    names: list[str] = []

    def ext(pos: str, k: int):
        loc = NEST_LOCS[k].replace("$R", R)
        name = f"{pos}#{k}"
        names.append(name)
        return ir.ExternalTensor(loc, 0, NBYTES, ir.DataType.UINT8, shape=ir.Shape([NBYTES]), name=name)

    def inits(pos: str):
        vals = []
        for k in range(len(NEST_LOCS)):
            t = ext(pos, k)
            vals.append(ir.Value(name=t.name, const_value=t, shape=ir.Shape([NBYTES]), type=ir.TensorType(ir.DataType.UINT8)))
        return vals

    def tensor_nodes(pos: str):
        """one Constant-like node per location (TENSOR attribute) + one node with a TENSORS attribute"""
        nodes, desc = [], []
        for k in range(len(NEST_LOCS)):
            t = ext(pos + ".tattr", k)
            nodes.append(ir.Node("", "Constant", [], [ir.AttrTensor("value", t)], num_outputs=1, name=f"{pos}.c{k}"))
            desc.append({"t": [t.name], "g": []})
        ts = [ext(pos + ".tsattr", k) for k in range(len(NEST_LOCS))]
        nodes.append(ir.Node("test", "ManyTensors", [], [ir.AttrTensors("values", ts)], num_outputs=1, name=f"{pos}.many"))
        desc.append({"t": [t.name for t in ts], "g": []})
        return nodes, desc

    def graph(pos: str, depth: int, maxdepth: int):
        iv = inits(pos + ".init")
        nodes, ndesc = tensor_nodes(pos)
        if depth < maxdepth:
            then_g, then_d = graph(pos + ".then", depth + 1, maxdepth)
            else_g, else_d = graph(pos + ".else", depth + 1, depth + 1)  # the else branch does not nest further
            nodes.append(ir.Node("", "If", [], [ir.AttrGraph("then_branch", then_g), ir.AttrGraph("else_branch", else_g)], num_outputs=1, name=f"{pos}.if"))
            ndesc.append({"t": [], "g": [then_d, else_d]})
            if depth == 0:
                g1, d1 = graph(pos + ".gs0", depth + 1, depth + 1)
                g2, d2 = graph(pos + ".gs1", depth + 1, depth + 2)
                nodes.append(ir.Node("test", "ManyGraphs", [], [ir.AttrGraphs("bodies", [g1, g2])], num_outputs=1, name=f"{pos}.graphs"))
                ndesc.append({"t": [], "g": [d1, d2]})
                body, bd = graph(pos + ".loop", depth + 1, depth + 1)
                nodes.append(ir.Node("", "Loop", [], [ir.AttrGraph("body", body)], num_outputs=1, name=f"{pos}.loop"))
                ndesc.append({"t": [], "g": [bd]})
        g = ir.Graph([], [], nodes=nodes, initializers=iv, name=pos, opset_imports={"": 20, "test": 1} if depth == 0 else None)
        return g, {"i": [v.name for v in iv], "n": ndesc}

    g, d = graph("main", 0, 3)
    # model-local functions: no initializers at the top of a function body (FunctionProto has none), but tensor
    # attributes of its nodes and initializers / attributes of graphs nested in it
    funcs, fdescs = [], []
    for fi, maxdepth in enumerate((1, 2)):
        pos = f"func{fi}"
        nodes, ndesc = tensor_nodes(pos)
        then_g, then_d = graph(pos + ".then", 1, maxdepth)
        nodes.append(ir.Node("", "If", [], [ir.AttrGraph("then_branch", then_g)], num_outputs=1, name=f"{pos}.if"))
        ndesc.append({"t": [], "g": [then_d]})
        fg = ir.Graph([], [], nodes=nodes, name=pos, opset_imports={"": 20, "test": 1})
        funcs.append(ir.Function("test", f"F{fi}", graph=fg, attributes=[]))
        fdescs.append({"i": [], "n": ndesc})
    return ir.Model(g, ir_version=10, functions=funcs), {"main": d, "funcs": fdescs}, names


def every_external_tensor(model) -> dict:
    """Independent of onnx_ir's own walkers: every ExternalTensor reachable anywhere in the model (main graph,
    bodies of model-local functions, and every graph nested in them)."""
    import onnx_ir as ir

    found: dict = {}
    stack = [model.graph] + [f.graph for f in model.functions.values()]
    while stack:
        g = stack.pop()
        for v in g.initializers.values():
            if isinstance(v.const_value, ir.ExternalTensor):
                found[v.const_value.name] = v.const_value
        for node in g:
            for a in node.attributes.values():
                if a.type == ir.AttributeType.TENSOR and isinstance(a.value, ir.ExternalTensor):
                    found[a.value.name] = a.value
                elif a.type == ir.AttributeType.TENSORS:
                    for t in a.value:
                        if isinstance(t, ir.ExternalTensor):
                            found[t.name] = t
                elif a.type == ir.AttributeType.GRAPH:
                    stack.append(a.value)
                elif a.type == ir.AttributeType.GRAPHS:
                    stack.extend(a.value)
    return found


def nested_load_cases(ctx: Ctx, tree: dict, desc: dict) -> None:
    """ir.load of a model with external tensors at every nesting position: EVERY reachable external tensor must
    get the non-empty model-directory base and must then accept/reject like the model."""
    import onnx_ir as ir

    R = tree["R"]
    b = R + "/base"
    model, wdesc, names = build_nested_model(R)
    mpath = os.path.join(b, "nested.onnx")
    ir.save(model, mpath)
    desc_m = describe_tree(R)
    rname = os.path.basename(R)
    spellings = [
        {"cwd": R, "path": mpath, "kind": "abs"},
        {"cwd": R, "path": "base/nested.onnx", "kind": "rel"},
        {"cwd": b, "path": "nested.onnx", "kind": "bare"},
        {"cwd": b, "path": "./nested.onnx", "kind": "dot-bare"},
        {"cwd": R, "path": "blink//nested.onnx", "kind": "via-symlink"},
        {"cwd": b + "/d", "path": "../nested.onnx", "kind": "dotdot"},
        {"cwd": R + "/outside", "path": f"../../{rname}/base/nested.onnx", "kind": "from-outside"},
    ]
    # the walker of the Lean model on the same nesting tree: which tensors does set_base_dir reach?
    wout = lean_batch([{"m": "path.walker", "tree": wdesc}])[0]
    model_reached = set(wout.get("walker", []))
    model_all = set(wout.get("reach", []))
    if "walker" not in wout:
        ctx.disagree("model error (walker)", {"nested": True}, wout, None)
    old = os.getcwd()
    try:
        for si, sp in enumerate(spellings):
            os.chdir(sp["cwd"])
            lb = lean_batch([{"m": "path.loadbase", "cwd": sp["cwd"], "p": sp["path"]}])[0].get("r")
            m = ir.load(sp["path"])
            tensors = every_external_tensor(m)
            if set(tensors) != set(names):
                ctx.disagree("nested model: tensors found after load differ from those saved", {"load": sp}, sorted(set(names) ^ set(tensors))[:5], None)
            if si == 0:
                # the real walker vs the model walker vs full reachability
                real_reached = {t.name for g_ in [m.graph] + [f.graph for f in m.functions.values()]
                                for t in ir.external_data._all_tensors(g_, include_attributes=True) if isinstance(t, ir.ExternalTensor)}
                if real_reached != model_reached:
                    ctx.disagree("_all_tensors reaches other tensors than the model walker", {"load": sp}, sorted(model_reached ^ real_reached)[:8], None)
                if model_all != set(names):
                    ctx.disagree("model reach differs from the tensors of the model", {"load": sp}, sorted(model_all ^ set(names))[:8], None)
            read_cwds = [sp["cwd"], R + "/outside", R + "/basex"]
            groups: dict = {c: ([], []) for c in read_cwds}
            for k, name in enumerate(sorted(tensors)):
                t = tensors[name]
                pos = name.split("#")[0]
                poskind = (("func-" if pos.startswith("func") else "") + ("init" if ".init" in pos else "tensors-attr" if pos.endswith(".tsattr") else "tensor-attr")
                           + f"-depth{pos.count('.then') + pos.count('.else') + pos.count('.gs') + pos.count('.loop')}")
                got_base = os.fspath(t.base_dir)
                ep = ENTRY_POINTS[(k + si) % len(ENTRY_POINTS)]
                rc = read_cwds[(k // len(NEST_LOCS) + si) % len(read_cwds)]
                os.chdir(rc)
                case = {"cwd": rc, "load_cwd": sp["cwd"], "base": got_base, "loc": os.fspath(t.location), "ep": ep, "via": "nested-load-" + sp["kind"],
                        "model_path": sp["path"], "position": pos}
                if got_base == "":
                    ctx.fail(f"load-empty-base:{poskind}", "after ir.load an external tensor of the model still has an empty base directory: "
                             "its containment checks are disabled and its location resolves against the cwd", case)
                elif got_base != lb:
                    ctx.disagree("nested load: base_dir differs from the model's derivation", case, lb, got_base)
                if got_base != "" and not os.path.samefile(got_base, b):
                    ctx.fail(f"load-wrong-base:nested-{sp['kind']}", "the base directory assigned by ir.load is not the directory the model file was opened from", case)
                obs = real_read(t, ep, tree["scratch"], R)
                oracle(ctx, tree, desc, case, obs, b)
                ctx.case(["nested-load", sp["kind"], name, ep], nested_position=poskind, nested_chdir=("same" if rc == sp["cwd"] else "changed"),
                         nested_outcome=(obs["r"] if obs["r"] == "ok" else "raised-" + obs.get("layer", "?")))
                groups[rc][0].append([lb or "", case["loc"], 0, NBYTES, ep])
                groups[rc][1].append((case, obs))
            for rc, (queries, obs_l) in groups.items():
                if not queries:
                    continue
                mo = lean_batch([{"m": "path.reads", "fs": fs_json(desc_m), "cwd": rc, "kfuel": KFUEL, "fuel": PFUEL, "queries": queries}])[0]
                if "r" not in mo:
                    ctx.disagree("model error", {"load": sp}, mo, None)
                else:
                    for (case, obs), o in zip(obs_l, mo["r"]):
                        compare(ctx, case, obs, o, desc_m["inodes"], R)
    finally:
        os.chdir(old)
        os.remove(mpath)


# --------------------------------------------------------------------------- static scan: entry-point completeness
#
# C10_all_entry_points is a theorem about the statement lists `body ep` of the model.  What ties "these are ALL the places
# where onnx_ir opens a file whose path derives from an external tensor's location / base_dir" to /repo is this scan: every
# call site in the imported onnx_ir tree (tests excluded) that opens, maps, copies, stats or resolves a file, and every
# function that reads ExternalTensor.path / location / base_dir, must be listed below.  An unlisted site (e.g. a new fast
# path) is a broken correspondence; so is a listed ENTRY site that disappeared or whose containment check no longer
# precedes the open in statement order.

_SINK_CALLS = {
    "open", "io.open", "os.open", "os.fdopen", "io.FileIO", "mmap.mmap", "np.memmap", "numpy.memmap", "np.fromfile", "numpy.fromfile",
    "np.load", "numpy.load", "np.loadtxt", "numpy.loadtxt", "np.genfromtxt", "numpy.genfromtxt", "os.sendfile", "os.copy_file_range",
    "os.readlink", "os.stat", "os.lstat", "os.path.realpath", "os.path.samefile", "os.path.exists", "os.path.lexists", "os.path.isfile",
    "os.path.isdir", "os.path.islink", "os.path.getsize", "os.scandir", "os.listdir", "os.walk", "onnx.load", "onnx.load_model",
    "onnx.load_tensor", "onnx.load_external_data_for_model", "onnx.save", "onnx.save_model", "pickle.load", "torch.load",
    "os.replace", "os.rename", "os.remove", "os.unlink", "os.link", "os.symlink", "os.truncate", "tempfile.mkdtemp", "tempfile.mkstemp",
    "tempfile.NamedTemporaryFile", "tempfile.TemporaryDirectory", "tempfile.TemporaryFile", "subprocess.run", "subprocess.Popen",
    "os.system", "pathlib.Path", "Path",
}
_SINK_PREFIX = ("shutil.", "onnx.external_data_helper.", "safetensors.")
_SINK_METHODS = {"read_bytes", "read_text", "write_bytes", "write_text", "open", "tofile", "fromfile", "memmap", "safe_open", "load_file",
                 "serialize_file", "copy_file_range", "sendfile", "readinto", "load_external_data_for_model"}
_SINK_STRINGS = {"copy_file_range", "sendfile", "memmap", "fromfile", "open", "mmap"}  # getattr(os, "<name>", ...)
_PATH_ATTRS = {"path", "location", "base_dir", "_location", "_base_dir"}
_TENSOR_CALLS = {"_load", "_check_path_containment", "set_base_dir", "convert_tensors_from_external", "_external_tensor_to_memory_tensor",
                 "load_to_model"}

# (file, qualified function, sink) -> (number of such call sites, class, what it is / why it is not location-derived)
#   entry:<prim>   the open of join(base_dir, location) of a modelled entry point (Prim of Model/Path.lean `body`)
#   check          the containment check's own realpath / stat (check2 / check3 of the model)
#   delegate       calls x.tofile(): for an ExternalTensor that IS the modelled entry point `tofile`
#   not-derived    the path does not come from an external tensor's location / base_dir
FILE_SITES = {
    ("_core.py", "ExternalTensor._load", "open"): (1, "entry:openMap", "with open(self.path, 'rb') as f  (loadBody = [check, openMap, frombuffer])"),
    ("_core.py", "ExternalTensor._load", "mmap.mmap"): (1, "entry:openMap", "maps the descriptor opened by the line above (no path of its own)"),
    ("_core.py", "ExternalTensor.tofile", "open"): (1, "entry:openCopy", "with open(self.path, 'rb') as src  (body tofile = [check, openCopy])"),
    ("_core.py", "ExternalTensor.tofile", "getattr:copy_file_range"): (1, "entry:openCopy", "kernel copy FROM the descriptor opened by the line above"),
    ("_core.py", "ExternalTensor._check_path_containment", "os.path.realpath"): (4, "check", "check 2: realpath(base_dir), realpath(path); check 3: both answers must be "
                                                                                 "fixed points: realpath(path_real), realpath(base_real) (D453)"),
    ("_core.py", "ExternalTensor._check_path_containment", "os.stat"): (4, "check", "check 3: stat(path) for st_nlink / S_ISREG, and the samestat cross-check of "
                                                                        "os.path.realpath against the kernel: stat(path_real), stat(base_dir), stat(base_real) (D451 / D452); metadata only"),
    ("_core.py", "ExternalTensor._check_path_containment", "os.lstat"): (1, "check", "check 3: the prefix walk over path_real and base_real (os.path.dirname until it no longer changes): "
                                                                         "no prefix may be a symbolic link, every prefix must be examinable (D454; model noLinkOn); metadata only"),
    ("_core.py", "Tensor.tofile", ".tofile"): (1, "not-derived", "numpy ndarray.tofile(file): WRITES an in-memory array to the caller's file object"),
    ("_core.py", "PackedTensor.tofile", ".tofile"): (1, "not-derived", "numpy ndarray.tofile(file): WRITES an in-memory array to the caller's file object"),
    ("_core.py", "LazyTensor.tofile", ".tofile"): (2, "delegate", "forwards to the evaluated tensor's tofile / TensorBase.tofile(tobytes())"),
    ("tensor_adapters.py", "TorchTensor.tofile", ".tofile"): (1, "not-derived", "TensorBase.tofile of an in-memory torch tensor"),
    ("external_data.py", "_write_tensor_at", ".tofile"): (1, "delegate", "writer: tensor.tofile(data_file); for an ExternalTensor this is the entry point tofile"),
    ("_io.py", "load", "onnx.load"): (1, "not-derived", "the model file itself (path given by the caller); load_external_data=False is REQUIRED (checked below)"),
    ("_io.py", "save", "onnx.save"): (2, "not-derived", "writes the model proto to the caller's path"),
    ("external_data.py", "_paths_refer_to_same_file", "os.path.samefile"): (1, "not-derived", "stat comparison of tensor.path with the write destination: metadata only, nothing is read"),
    ("external_data.py", "_check_no_existing_shard_files", "os.path.exists"): (1, "not-derived", "write destinations (caller's base_dir / relative_path)"),
    ("external_data.py", "_write_external_data", "os.path.islink"): (1, "not-derived", "write destination"),
    ("external_data.py", "_write_external_data", "os.path.realpath"): (1, "not-derived", "write destination"),
    ("external_data.py", "_write_external_data", "tempfile.mkdtemp"): (1, "not-derived", "staging directory next to the write destination"),
    ("external_data.py", "_write_external_data", "os.path.exists"): (1, "not-derived", "write destination"),
    ("external_data.py", "_write_external_data", "shutil.copymode"): (1, "not-derived", "mode bits of the write destination"),
    ("external_data.py", "_write_external_data", "os.replace"): (1, "not-derived", "staged file -> write destination"),
    ("external_data.py", "_write_external_data", "os.remove"): (1, "not-derived", "staged file"),
    ("external_data.py", "_ExternalDataWriter._write_serial", "open"): (1, "not-derived", "opens the write destination 'wb'"),
    ("external_data.py", "_ExternalDataWriter._write_parallel", "open"): (1, "not-derived", "opens the write destination 'wb'"),
    ("external_data.py", "_ExternalDataWriter._write_parallel._thread_file", "open"): (1, "not-derived", "opens the write destination 'r+b'"),
    ("serde.py", "deserialize_tensor", "onnx.external_data_helper.ExternalDataInfo"): (1, "not-derived", "parses TensorProto.external_data key/values; touches no file"),
    ("_safetensors/__init__.py", "_save_file", "safetensors.serialize_file"): (2, "not-derived", "writes the caller's .safetensors destination"),
    ("_safetensors/__init__.py", "_save_file", "safetensors.TensorSpec"): (1, "not-derived", "in-memory descriptor"),
    ("_safetensors/__init__.py", "_save_file", "tempfile.mkdtemp"): (1, "not-derived", "staging directory next to the caller's .safetensors destination"),
    ("_safetensors/__init__.py", "_save_file", "os.replace"): (1, "not-derived", "staged shard -> the caller's destination"),
    ("_safetensors/__init__.py", "_save_file", "shutil.rmtree"): (1, "not-derived", "removes the staging directory"),
    ("_safetensors/__init__.py", "_save_file", "open"): (1, "not-derived", "writes the shard index json next to the destination"),
    ("_safetensors/__init__.py", "_read_safetensors", "open"): (1, "not-derived", "reads back the header of the file save_safetensors has just written (caller's path, "
                                                                  "not a location taken from a model)"),
}

# every function that touches ExternalTensor.path / location / base_dir or calls the loaders: (file, function) -> what it does
PATH_USERS = {
    ("_core.py", "ExternalTensor.__init__"): "stores location / base_dir",
    ("_core.py", "ExternalTensor.base_dir"): "getter; setter = Step.setBase of the model (drops the mapping when the value changes, D184)",
    ("_core.py", "ExternalTensor.location"): "getter",
    ("_core.py", "ExternalTensor.path"): "tensorPath = join(base_dir, location)",
    ("_core.py", "ExternalTensor.__repr__"): "formats them",
    ("_core.py", "ExternalTensor._check_path_containment"): "checkContainment",
    ("_core.py", "ExternalTensor._load"): "loadBody",
    ("_core.py", "ExternalTensor.tofile"): "body tofile",
    ("_core.py", "ExternalTensor.numpy"): "body numpy (calls _load)",
    ("_core.py", "ExternalTensor.__array__"): "body array (calls _load)",
    ("_core.py", "ExternalTensor.tobytes"): "body tobytes (calls _load)",
    ("_io.py", "load"): "loadBase + set_base_dir on the main graph and on every function body (loadTensors)",
    ("external_data.py", "set_base_dir"): "assigns base_dir of every tensor _all_tensors reaches (allTensors)",
    ("external_data.py", "_write_external_data"): "compares tensor.path with the write destination (samefile) to release / invalidate; reads nothing",
    ("external_data.py", "convert_tensors_from_external"): "entry point serialize_raw per tensor",
    ("external_data.py", "load_to_model"): "convert_tensors_from_external on the initializers of all graphs",
    ("external_data.py", "unload_from_model"): "convert_tensors_from_external, then writes",
    ("_safetensors/__init__.py", "_save_file"): "convert_tensors_from_external (entry point serialize_raw)",
    ("_safetensors/__init__.py", "_migrate_tensor_shape_dtype"): "copies location / base_dir into a new ExternalTensor (no file access)",
    ("serde.py", "deserialize_tensor"): "builds the ExternalTensor from the proto's location (base_dir stays '')",
    ("serde.py", "serialize_tensor_into"): "writes location back into the proto",
}
# who may call ExternalTensor._load / _check_path_containment (the modelled bodies)
LOAD_CALLERS = {"_load": {"ExternalTensor.numpy", "ExternalTensor.__array__", "ExternalTensor.tobytes"},
                "_check_path_containment": {"ExternalTensor._load", "ExternalTensor.tofile"}}
ENTRY_OPEN_SITES = {("_core.py", "ExternalTensor._load"), ("_core.py", "ExternalTensor.tofile")}


def _dotted(n):
    import ast

    if isinstance(n, ast.Name):
        return n.id
    if isinstance(n, ast.Attribute):
        b = _dotted(n.value)
        return (b + "." + n.attr) if b else None
    return None


def scan_tree(pkg: str) -> dict:
    """AST scan of the onnx_ir package directory `pkg` (tests excluded)."""
    import ast

    sinks, users, callers, order = [], {}, {}, {}
    for dp, _dn, fn in os.walk(pkg):
        for f in sorted(fn):
            if not f.endswith(".py") or f.endswith("_test.py"):
                continue
            path = os.path.join(dp, f)
            rel = os.path.relpath(path, pkg)
            with open(path, encoding="utf-8") as fh:
                tree = ast.parse(fh.read())

            def sink_of(ch):
                if not isinstance(ch, ast.Call):
                    return None
                d = _dotted(ch.func)
                if d in _SINK_CALLS or (d and d.startswith(_SINK_PREFIX)):
                    return d
                if isinstance(ch.func, ast.Attribute) and ch.func.attr in _SINK_METHODS:
                    return "." + ch.func.attr
                if d == "getattr" and len(ch.args) >= 2 and isinstance(ch.args[1], ast.Constant) and ch.args[1].value in _SINK_STRINGS:
                    return "getattr:" + str(ch.args[1].value)
                return None

            def rec(node, q):
                for ch in ast.iter_child_nodes(node):
                    if isinstance(ch, (ast.FunctionDef, ast.AsyncFunctionDef, ast.ClassDef)):
                        q2 = (q + "." if q else "") + ch.name
                        if not isinstance(ch, ast.ClassDef) and (rel, q2) in ENTRY_OPEN_SITES:
                            # statement order at the top level of the body: the unconditional check, then the first open
                            chk = opn = None
                            for i, st in enumerate(ch.body):
                                if chk is None and isinstance(st, ast.Expr) and isinstance(st.value, ast.Call) and _dotted(st.value.func) == "self._check_path_containment":
                                    chk = i
                                if opn is None and any(sink_of(x) in ("open", "os.open", "io.open", "mmap.mmap") for x in ast.walk(st)):
                                    opn = i
                            order[(rel, q2)] = (chk, opn)
                        rec(ch, q2)
                        continue
                    k = sink_of(ch)
                    if k:
                        sinks.append({"file": rel, "fn": q or "<module>", "sink": k, "line": ch.lineno, "text": ast.unparse(ch)[:100],
                                      "kw": {kw.arg: ast.unparse(kw.value) for kw in ch.keywords if kw.arg}})
                    if isinstance(ch, ast.Attribute) and ch.attr in _PATH_ATTRS and not (isinstance(ch.value, ast.Name) and ch.value.id in ("os", "sys", "posixpath", "ntpath")):
                        users.setdefault((rel, q or "<module>"), set()).add(ch.attr)
                    if isinstance(ch, ast.Call):
                        nm = ch.func.attr if isinstance(ch.func, ast.Attribute) else ch.func.id if isinstance(ch.func, ast.Name) else None
                        if nm in _TENSOR_CALLS:
                            users.setdefault((rel, q or "<module>"), set()).add("call:" + nm)
                            callers.setdefault(nm, set()).add((rel, q or "<module>"))
                    rec(ch, q)

            rec(tree, "")
    return {"sinks": sinks, "users": users, "callers": callers, "order": order}


def static_sites(ctx: Ctx) -> None:
    """Entry-point completeness as a checked tie (see the comment above FILE_SITES)."""
    import onnx_ir

    pkg = os.path.dirname(os.path.abspath(onnx_ir.__file__))
    sc = scan_tree(pkg)
    found: dict = {}
    for s in sc["sinks"]:
        found.setdefault((s["file"], s["fn"], s["sink"]), []).append(s)
    for key, sites in sorted(found.items()):
        ent = FILE_SITES.get(key)
        cls = ent[1] if ent else "UNLISTED"
        ctx.case(["site", *key], nontrivial=True, site_class=cls.split(":")[0])
        if ent is None:
            ctx.disagree("file-access site of onnx_ir that is not in the C10 site table (harness/c10.py FILE_SITES): is it a new way to open a "
                         "path derived from an external tensor's location / base_dir?", {"site": list(key), "lines": [x["line"] for x in sites], "text": sites[0]["text"]},
                         "no modelled entry point / no recorded reason", sites[0]["text"])
        elif len(sites) != ent[0]:
            ctx.disagree("number of file-access call sites in a listed function changed", {"site": list(key), "lines": [x["line"] for x in sites]}, ent[0], len(sites))
    for key, ent in FILE_SITES.items():
        if key not in found:
            if ent[1].startswith(("entry", "check")):
                ctx.disagree("a modelled open / check site no longer exists in onnx_ir (the model's statement lists describe other code)", {"site": list(key)}, ent[1], None)
            else:
                ctx.count("site-table-stale-entry")
    # the model file is parsed WITHOUT letting onnx read external data itself (that reader has no containment check)
    for s in found.get(("_io.py", "load", "onnx.load"), []):
        if s["kw"].get("load_external_data") != "False":
            ctx.disagree("ir.load no longer passes load_external_data=False to onnx.load: onnx would open external data files itself, unchecked",
                         {"site": ["_io.py", "load", "onnx.load"], "text": s["text"]}, "load_external_data=False", s["kw"].get("load_external_data"))
    # in both modelled bodies the unconditional check statement precedes the statement that opens (loadBody / body tofile)
    for site in sorted(ENTRY_OPEN_SITES):
        chk, opn = sc["order"].get(site, (None, None))
        ctx.case(["site-order", *site], nontrivial=True, site_order=("check-first" if chk is not None and opn is not None and chk < opn else "BROKEN"))
        if chk is None or opn is None or not chk < opn:
            ctx.disagree("the containment check is not an unconditional top-level statement before the first open of a modelled entry point "
                         "(model: loadBody = [check, openMap, ..], tofile = [check, openCopy])", {"site": list(site)}, "check statement index < open statement index", [chk, opn])
    # readers of path / location / base_dir and callers of the loaders
    for key, attrs in sorted(sc["users"].items()):
        ctx.case(["path-user", *key], nontrivial=True, path_user=("listed" if key in PATH_USERS else "UNLISTED"))
        if key not in PATH_USERS:
            ctx.disagree("a function of onnx_ir reads an external tensor's path / location / base_dir (or calls a loader) and is not in the C10 table "
                         "(harness/c10.py PATH_USERS)", {"function": list(key), "uses": sorted(attrs)}, None, sorted(attrs))
    for nm, allowed in LOAD_CALLERS.items():
        for (rel, q) in sorted(sc["callers"].get(nm, ())):
            if rel != "_core.py" or q not in allowed:
                ctx.disagree(f"ExternalTensor.{nm} is called from a function that is not a modelled entry point", {"caller": [rel, q]}, sorted(allowed), q)
    ctx.exhaustive_scopes.append(f"static scan: all {len(sc['sinks'])} file-access call sites and all {len(sc['users'])} functions using path/location/base_dir "
                                 f"of the imported onnx_ir tree ({pkg.replace(os.sep + 'src' + os.sep + 'onnx_ir', '/src/onnx_ir')}), tests excluded")


# --------------------------------------------------------------------------- run


SLICES = [(0, NBYTES), (2, 4), (0, 3), (4, NBYTES), (None, None), (None, NBYTES), (3, None)]  # (4, 8) and (3, None) exceed the file


def run(ctx: Ctx) -> None:
    ctx.rule = ("one case = (cwd, base spelling, location string, entry point, offset, length) read on the real tree; distinct by "
                "that tuple with the temp root abstracted; all are non-trivial (a real ExternalTensor read is attempted); "
                "string-function / realpath cases are distinct by (function, argument)")
    if isinstance(getattr(ctx, "proof", None), dict):
        ctx.proof.setdefault("extra_trusted", []).append(
            "model of the kernel's path resolution and of CPython posixpath (join/normpath/abspath/dirname/realpath): "
            "validated differentially on every run, not verified against the kernel or CPython sources")
    _remove_stale_trees()
    static_sites(ctx)
    string_functions(ctx)
    tree = build_tree()
    old = os.getcwd()
    try:
        desc = describe_tree(tree["R"])
        check_links(ctx, desc, "fixed tree")
        R = tree["R"]
        sps = base_spellings(R)
        maxlen = ctx.pick(3, 4)
        ex_locs = locations_exhaustive(R, maxlen)
        ctx.exhaustive_scopes.append(
            f"locations: all component sequences of length <= {maxlen} over {TOKENS} (relative), and of length <= "
            f"{max(1, maxlen - 1)} after the absolute roots '/', $R/base/, $R/outside/, $R/basex/ x {len(sps)} base spellings "
            "(entry points round-robin; all entry points for relative locations of length <= 2)")
        jobs = []
        corpus = load_corpus("C10")
        for si, sp in enumerate(sps):
            cases = []
            for c in corpus:
                if "loc" in c:
                    cases.append((c["loc"].replace("$R", R), c.get("ep", "numpy"), c.get("offset", 0), c.get("length", NBYTES)))
            for li, loc in enumerate(ex_locs):
                if len(loc.split("/")) <= 2 and not loc.startswith("/"):
                    for ep in ENTRY_POINTS:
                        cases.append((loc, ep, 0, NBYTES))
                else:
                    cases.append((loc, ENTRY_POINTS[(li + si) % len(ENTRY_POINTS)], 0, NBYTES))
            for _ in range(ctx.pick(300, 6000)):
                off, ln = SLICES[0] if ctx.rng.random() < 0.6 else ctx.rng.choice(SLICES)
                cases.append((random_location(ctx.rng, R), ctx.rng.choice(ENTRY_POINTS), off, ln))
            nchunks = ctx.pick(4, 8)
            k = max(1, (len(cases) + nchunks - 1) // nchunks)
            for i in range(0, len(cases), k):
                jobs.append({"tree": tree, "desc": desc, "sp": sp, "cases": cases[i:i + k], "fuelcmp": (len(jobs) % 3 == 0)})
        # the tree with chains of nested symbolic links (ELOOP; recursion bound vs kernel bound): random locations around the chains
        tree2 = build_tree(chains=True)
        desc2 = describe_tree(tree2["R"])
        check_links(ctx, desc2, "fixed tree with chains")
        for sp in [x for x in base_spellings(tree2["R"]) if x["kind"] in ("abs", "rel", "abs-symlink", "abs-symlink-up", "rel-symlink-dotdot", "abs-missing", "abs-symlink-loop")]:
            cases = []
            for _ in range(ctx.pick(120, 1500)):
                n_ = ctx.rng.randrange(1, 5)
                seq = [ctx.rng.choice(CHAIN_TOKENS) if ctx.rng.random() < 0.5 else ctx.rng.choice(TOKENS + ["dlink_in", "up", "back", "blink"]) for _ in range(n_)]
                loc = "/".join(seq)
                if ctx.rng.random() < 0.15:
                    loc = tree2["R"] + "/base/" + loc
                cases.append((loc, ctx.rng.choice(ENTRY_POINTS), 0, NBYTES))
            # the band around MAXSYMLINKS = 40: the links of the base spelling count as well
            base_links = {"abs": 0, "rel": 0, "abs-symlink": 1, "abs-symlink-up": 1, "rel-symlink-dotdot": 1}.get(sp["kind"])
            if base_links is not None:
                for _ in range(ctx.pick(40, 400)):
                    loc, nlinks, shape = band_location(ctx.rng)
                    cases.append((loc, ctx.rng.choice(ENTRY_POINTS), 0, NBYTES, {"band_links": min(max(nlinks + base_links, 35), 45), "band_shape": shape}))
            jobs.append({"tree": tree2, "desc": desc2, "sp": sp, "cases": cases, "fuelcmp": True})
        for p in pmap(_work, jobs):
            ctx.merge(p)
        # realpath / lstat / stat of the model vs os.path.realpath and the kernel
        rp_jobs = []
        rlocs = locations_exhaustive(R, ctx.pick(3, 4))
        for cwd, pre in ((R, ""), (R + "/base", ""), (R + "/base/d", ""), (R, R + "/base/"), (R, R + "/"), (R + "/outside", "")):
            paths = [pre + l for l in rlocs if not l.startswith("/")] if pre else list(rlocs)
            paths = [p for p in paths if p != ""]
            for _ in range(ctx.pick(300, 3000)):
                paths.append(pre + random_location(ctx.rng, R))
            k = max(1, (len(paths) + 3) // 4)
            for i in range(0, len(paths), k):
                rp_jobs.append({"desc": desc, "cwd": cwd, "paths": paths[i:i + k], "R": R})
        # the kernel model itself on the band: lstat / stat / realpath of paths that follow 36..44 links (tree with chains)
        R2 = tree2["R"]
        for cwd, pre in ((R2 + "/base", ""), (R2, "blink/"), (R2, R2 + "/base/d/up/")):
            paths = []
            for n in range(36, 45):
                paths += [pre + "s/" * n + "f", pre + "s/" * n + "s", pre + "s/" * (n - 1) + "link_in", pre + f"deep_{46 - n}", pre + f"deepout_{46 - n}",
                          pre + f"nest_{46 - n}/f", pre + f"nest_{46 - n}", pre + "s/" * (n - 20) + f"deep_{26}", pre + "s/" * (n - 20) + f"nest_{26}/f",
                          pre + "s/" * n + "loop_a", pre + "s/" * (n - 2) + "chain"]
            for _ in range(ctx.pick(60, 600)):
                paths.append(pre + band_location(ctx.rng)[0])
            rp_jobs.append({"desc": desc2, "cwd": cwd, "paths": paths, "R": R2})
        ctx.exhaustive_scopes.append("realpath/lstat/stat: the same location sequences as paths, from 4 working directories and 2 absolute prefixes; "
                                     "paths following n = 36..44 links (sequential, trailing chains, nested, mixed) from 3 starting points")
        for p in pmap(_realpath_work, rp_jobs):
            ctx.merge(p)
        _guard(ctx, "load", load_cases, ctx, tree, desc)
        _guard(ctx, "nested-load", nested_load_cases, ctx, tree, desc)
        _guard(ctx, "odd", odd_cases, ctx, tree2, desc2)
        _guard(ctx, "size-zero", size_zero_cases, ctx, tree2, desc2)
        _guard(ctx, "bytes-location", bytes_location_cases, ctx, tree, desc)
        _guard(ctx, "pathmax", pathmax_cases, ctx)
        _guard(ctx, "eacces", eacces_cases, ctx)
        stateful_sequences(ctx)   # workers: guarded per scenario
        world_sequences(ctx)      # workers: guarded per history
        random_trees(ctx)         # workers: guarded per job
    finally:
        os.chdir(old)
        shutil.rmtree(tree["top"], ignore_errors=True)
        if "tree2" in locals():
            shutil.rmtree(tree2["top"], ignore_errors=True)


def odd_cases(ctx: Ctx, tree: dict, desc: dict) -> None:
    """Unusual strings and base_dir / location objects: NUL (in the location and in the base directory), very long names and
    paths (NAME_MAX / PATH_MAX), unicode, backslashes, deep symlink chains (ELOOP), pathlib objects, a bytes base directory,
    base_dir assigned after construction.  Oracle on all; all are compared with the model (path.readsT)."""
    import pathlib

    R = tree["R"]
    b = R + "/base"
    locs = ["f\0", "\0", "../outside/canary\0", "f\0/../../outside/canary", "link_out\0", "d/\0/../f", "x" * 300, "d/" + "y" * 5000,
            "d/../" * 900 + "f", "./" * 1000 + "f", "d/../" * 900 + "link_out", "f" + "/" * 4200, "mid", "deep", "deep_3", "deep_13", "deepout",
            "d/../deep", "dlink_in/../mid", "d/up/deepout",
            "é/f", "ｆ", "f ", " f", "f\n", "..\\outside\\canary", "~/canary", "$HOME/x", "%2e%2e/outside/canary",
            "..%2foutside%2fcanary", "....//outside/canary", ".../outside/canary", "..../f", ". /f", ".. /outside/canary",
            "d/..\\..\\outside/canary", "\\..\\outside", "f/", "f/.", "f/..", "f/../f", "link_in/", "link_in/.",
            "link_out/", "dlink_out", "dlink_out/", "dlink_out/.", "dlink_out/..", "dlink_out/../base/f", "dlink_in/../f",
            "dlink_in/../../outside/canary", "d/up/../outside/canary", "d/up/../base/f", "back", "../outside/back/f",
            "hard/", "dangling/..", "dangling_out/../f", "loop_a/../f", "loop_a/f", "chain_in", "link_abs_in",
            "link_abs_out", "link_sib", "d/e/../../f", "d/e/../../../outside/f", "//", "/", "", ".", "./", "d/", "d/.", "///" + R.lstrip("/") + "/base/f",
            "//" + R.lstrip("/") + "/base/f", "//" + R.lstrip("/") + "/outside/canary"]
    variants = ["str", "pathlike-loc", "pathlike-base", "base-assigned-later", "bytes-base", "nul-in-base", "pathlike-base-assigned-later"]
    old = os.getcwd()
    try:
        os.chdir(R)
        queries, obs_l = [], []
        k = 0
        for base in (b, "base", "./base//", R + "/blink"):
            for loc in locs:
                k += 1
                ep = ENTRY_POINTS[k % len(ENTRY_POINTS)]
                variant = variants[k % len(variants)]
                kind = "str"
                bobj, lobj, mbase = base, loc, base
                if variant == "pathlike-loc" and "\0" not in loc and str(pathlib.PurePosixPath(loc)) == loc:
                    lobj = pathlib.PurePosixPath(loc)
                if variant in ("pathlike-base", "pathlike-base-assigned-later"):
                    bobj = pathlib.PurePosixPath(base)
                    mbase, kind = os.fspath(bobj), "pathlike"  # pathlib normalises the spelling; the model gets os.fspath(value)
                if variant == "bytes-base":
                    bobj, kind = os.fsencode(base), "bytes"
                if variant == "nul-in-base":
                    bobj = mbase = base + "/d\0/.."
                case = {"cwd": R, "base": mbase, "loc": loc, "ep": ep, "offset": 0, "length": NBYTES, "via": variant, "base_type": kind}
                try:
                    if variant.endswith("assigned-later"):
                        t = make_tensor("", lobj)
                        t.base_dir = bobj
                    else:
                        t = make_tensor(bobj, lobj)
                except Exception:  # noqa: BLE001  constructing never reads
                    ctx.count("odd-construct-raised")
                    continue
                obs = real_read(t, ep, tree["scratch"], R)
                oracle(ctx, tree, desc, case, obs, b)
                shape = ("nul" if "\0" in loc or "\0" in mbase else "path>=PATH_MAX" if len(os.path.join(mbase, loc)) >= 4096 else
                         "name>NAME_MAX" if any(len(c) > 255 for c in loc.split("/")) else "deep-chain" if "deep" in loc or loc.endswith("mid") else "other")
                ctx.case(["odd", base.replace(R, "$R"), loc.replace(R, "$R"), ep, variant], odd=variant, odd_shape=shape,
                         outcome=(obs["r"] if obs["r"] == "ok" else "raised-" + obs.get("layer", "?")))
                if obs["r"] == "ok" and ("\0" in loc or "\0" in mbase or kind == "bytes"):
                    ctx.fail(f"odd-accepted:{variant}", "a read with a NUL character in the path / a bytes base directory returned bytes", {**case, "obs": obs})
                queries.append([kind, mbase, loc, 0, NBYTES, False, ep])
                obs_l.append((case, obs))
        mo = lean_batch([{"m": "path.readsT", "fs": fs_json(desc), "cwd": R, "kfuel": KFUEL, "fuel": PFUEL, "queries": queries}])[0]
        if "r" not in mo:
            ctx.disagree("model error", {"odd": True}, mo, None)
        else:
            for (case, obs), o in zip(obs_l, mo["r"]):
                compare(ctx, case, obs, o, desc["inodes"] if case["base_type"] != "bytes" and "\0" not in case["base"] + case["loc"] else {}, R)
    finally:
        os.chdir(old)


# --------------------------------------------------------------------------- stateful sequences

MAPPING_EPS = ("numpy", "tobytes", "array", "serialize_raw")


def build_state_tree() -> dict:
    top = os.path.realpath(tempfile.mkdtemp(prefix="irverif-c10-"))
    R = os.path.join(top, "r")
    os.mkdir(R)
    for d in ("base", "base/s", "base/d", "outside", "outside/s", "other"):
        os.mkdir(os.path.join(R, d))
    files = {
        "base/w": b"INSIDE_W", "base/f": b"INSIDE_F", "base/s/w": b"INSIDESW", "base/d/w": b"INSIDEDW",
        "outside/canary": b"CANARY_C", "outside/hc": b"CANARY_H", "outside/s/w": b"CANARYSW",
    }
    for rel, c in files.items():
        _w(os.path.join(R, rel), c)
    os.symlink("../outside/canary", os.path.join(R, "other/w"))
    os.symlink("../outside/canary", os.path.join(R, "base/wlink"))
    # a base directory reached through a symbolic link that is re-pointed later (`cur -> base`, then `cur -> base2`), and a
    # directory `alt/base` that a RELATIVE base directory "base" names after os.chdir(alt): both new directories hold symbolic
    # links leading back into the directory the same spelling named before; `base/dl/..` is lexically `base`, really `p`
    for d in ("base2", "alt", "alt/base", "p", "p/q"):
        os.mkdir(os.path.join(R, d))
    files["p/w"] = b"CANARYPW"
    _w(os.path.join(R, "p/w"), files["p/w"])
    os.symlink("base", os.path.join(R, "cur"))
    os.symlink("../p/q", os.path.join(R, "base/dl"))
    for n in ("w", "f", "s"):
        os.symlink("../base/" + n, os.path.join(R, "base2", n))
        os.symlink("../../base/" + n, os.path.join(R, "alt/base", n))
    os.symlink("../outside/canary", os.path.join(R, "base2/wlink"))
    _w(os.path.join(R, "base2/g"), b"INSIDE2G")
    scratch = os.path.join(top, "scratch")
    os.mkdir(scratch)
    return {"top": top, "R": R, "scratch": scratch, "canaries": sorted(v.decode() for v in files.values() if v.startswith(b"CANARY"))}


def _mut_none(R, t, loc):
    return None


def _mut_symlink_out(R, t, loc):
    p = os.path.join(R, "base", loc)
    os.remove(p)
    os.symlink(os.path.join(R, "outside/canary"), p)


def _mut_hardlink_out(R, t, loc):
    p = os.path.join(R, "base", loc)
    os.remove(p)
    os.link(os.path.join(R, "outside/hc"), p)


def _mut_symlink_in(R, t, loc):
    p = os.path.join(R, "base", loc)
    os.remove(p)
    os.symlink(os.path.join(R, "base/f"), p)


def _mut_replace_in(R, t, loc):
    p = os.path.join(R, "base", loc)
    os.remove(p)
    _w(p, b"INSIDE_N")


def _mut_rewrite_in_place(R, t, loc):
    with open(os.path.join(R, "base", loc), "r+b") as f:
        f.write(b"INSIDE_M")


def _mut_add_hardlink(R, t, loc):
    os.link(os.path.join(R, "base", loc), os.path.join(R, "outside/extra"))


def _mut_delete(R, t, loc):
    os.remove(os.path.join(R, "base", loc))


def _mut_dir_swap(R, t, loc):
    shutil.rmtree(os.path.join(R, "base/s"))
    os.symlink("../outside/s", os.path.join(R, "base/s"))


def _mut_retarget_cur(R, t, loc):
    """re-point the symbolic link on the base path: cur -> base becomes cur -> base2 (and back)"""
    p = os.path.join(R, "cur")
    tgt = "base2" if os.readlink(p) == "base" else "base"
    os.remove(p)
    os.symlink(tgt, p)


def _mut_base_other(R, t, loc):
    t.base_dir = R + "/other"
    return (R + "/other", R + "/other")


def _mut_base_sub(R, t, loc):
    t.base_dir = R + "/base/d"
    return (R + "/base/d", R + "/base/d")


def _mut_base_rel(R, t, loc):
    t.base_dir = "base"
    return ("base", R + "/base")


def _mut_base_outside(R, t, loc):
    t.base_dir = R + "/outside"
    return (R + "/outside", R + "/outside")


def _mut_base_empty(R, t, loc):
    t.base_dir = ""
    return ("", None)


def _mut_base_main(R, t, loc):
    t.base_dir = R + "/base"
    return (R + "/base", R + "/base")


def _mut_release(R, t, loc):
    t.release()
    return "release"


MUTATIONS = {
    "none": _mut_none, "symlink_out": _mut_symlink_out, "hardlink_out": _mut_hardlink_out, "symlink_in": _mut_symlink_in,
    "replace_in": _mut_replace_in, "rewrite_in_place": _mut_rewrite_in_place, "add_hardlink": _mut_add_hardlink,
    "retarget_cur": _mut_retarget_cur,
    "delete": _mut_delete, "dir_swap": _mut_dir_swap, "base_other": _mut_base_other, "base_sub": _mut_base_sub,
    "base_rel": _mut_base_rel, "base_outside": _mut_base_outside, "base_empty": _mut_base_empty, "base_main": _mut_base_main,
    "release": _mut_release,
}


def run_scenario(part, loc: str, steps: list, label: str) -> None:
    """steps: list of ("call", ep) | ("mut", name).  One tensor, one fresh tree; oracle after every
    call; the whole sequence is then given to the model (path.session) and compared call by call.
    A label starting with "empty-start" constructs the tensor with base_dir "" (checks skipped by design)."""
    tree = build_state_tree()
    R = tree["R"]
    loc = loc.replace("$R", R)
    old = os.getcwd()
    try:
        os.chdir(R)
        idmap: dict = {}
        known: dict = {}  # id -> latest content (also of inodes that were unlinked meanwhile)

        def snapshot():
            d = describe_tree(R, idmap)
            for info in d["inodes"].values():
                known[info["id"]] = info["data"]
            ghosts = [[i, 0, c] for i, c in known.items() if i not in {x["id"] for x in d["inodes"].values()}]
            return d, {"entries": d["entries"], "inodes": [[x["id"], x["nlink"], x["data"]] for x in d["inodes"].values()] + ghosts}

        base, true_base = R + "/base", R + "/base"
        if label.startswith("empty-start"):
            base, true_base = "", None
        t = make_tensor(base, loc)
        desc, fsj = snapshot()
        msteps = [{"op": "fs", "fs": fsj}, {"op": "base", "base": base}]
        observed = []
        mapped_id = None  # inode the tensor legitimately mapped earlier (oracle's own bookkeeping)
        for kind, arg in steps:
            if kind == "mut":
                r = MUTATIONS[arg](R, t, loc)
                if r == "release":
                    msteps.append({"op": "release"})
                    mapped_id = None
                elif isinstance(r, tuple):
                    if r[0] != base:
                        mapped_id = None  # a mapping made under another base directory does not count for this one
                    base, true_base = r
                    msteps.append({"op": "base", "base": base})
                else:
                    desc, fsj = snapshot()
                    msteps.append({"op": "fs", "fs": fsj})
                continue
            ep = arg
            case = {"cwd": R, "base": base, "loc": loc, "ep": ep, "offset": 0, "length": NBYTES, "via": "stateful", "sequence": label, "steps": steps}
            obs = real_read(t, ep, tree["scratch"], R, release=False)
            # ---- oracle (independent of the model); an empty base directory disables the checks by design
            inos = desc["inodes"]
            tb = (true_base.rstrip("/") + "/") if true_base is not None else None

            def inside(key):
                info = inos.get(key)
                return tb is None or (info is not None and info.get("kind") != "o" and info["nlink"] == 1 and all((l + "/").startswith(tb) for l in info["locs"]))

            opened_keys = []
            for p in obs["opened"]:
                key = true_location(p, R)
                if key is not None and key in inos:
                    opened_keys.append(key)
                    if not inside(key):
                        part.fail(f"stateful-outside-open:{ep}", "a call opened a file outside the base directory / with several links "
                                  "(the containment check must be made on every call that opens the path)", {**case, "obs": obs})
            if obs["r"] == "ok":
                if opened_keys:
                    good = any(inside(k) and inos[k]["data"][:NBYTES] == obs["bytes"] for k in opened_keys)
                else:
                    good = mapped_id is not None and known.get(mapped_id, "")[:NBYTES] == obs["bytes"]
                if tb is None:
                    good = True
                if not good:
                    kind_ = "canary-read" if obs["bytes"] in tree["canaries"] else "not-inside-file"
                    part.fail(f"stateful-{kind_}:{ep}", "a call returned bytes that are not those of a singly-linked regular file inside "
                              "the base directory (opened by this call, or mapped by an earlier checked call)", {**case, "obs": obs})
            if ep in MAPPING_EPS and opened_keys and obs["r"] == "ok" and tb is not None:
                mapped_id = inos[opened_keys[-1]]["id"]
            if ep == "serialize_raw" and obs["r"] == "ok":
                mapped_id = None
            msteps.append({"op": "call", "ep": ep})
            observed.append((case, obs))
            part.case(["stateful", label, len(observed)], nontrivial=True, sample={"sequence": label, "loc": loc}, stateful_ep=ep,
                      stateful_outcome=(obs["r"] if obs["r"] == "ok" else "raised-" + obs.get("layer", "?")) + ("" if obs["opened"] else "-noopen"))
        out = lean_batch([{"m": "path.session", "cwd": R, "kfuel": KFUEL, "fuel": PFUEL, "loc": loc, "offset": 0, "length": NBYTES, "steps": msteps}])[0]
        if "r" not in out or len(out["r"]) != len(observed):
            part.disagree("model error (session)", {"sequence": label}, out, None)
        else:
            for (case, obs), o in zip(observed, out["r"]):
                compare(part, case, obs, o, {}, R)
        try:
            t.release()
        except Exception:
            pass
    finally:
        os.chdir(old)
        shutil.rmtree(tree["top"], ignore_errors=True)


def _stateful_work(job: list) -> dict:
    part = Part()
    for loc, steps, label in job:
        _guard(part, "stateful", run_scenario, part, loc, steps, label, limit=120.0)
    return part


def stateful_sequences(ctx: Ctx) -> None:
    """(entry point, change of the tree | base_dir re-assignment | release(), entry point, tofile, release, entry point)
    exhaustively over entry points x mutations, plus random longer sequences."""
    scen = []
    for ep1 in ENTRY_POINTS:
        for mut in MUTATIONS:
            loc = "s/w" if mut == "dir_swap" else "w"
            for ep2 in ENTRY_POINTS:
                steps = [("call", ep1), ("mut", mut), ("call", ep2), ("call", "tofile_bytesio"), ("mut", "release"), ("call", ep2)]
                scen.append((loc, steps, f"{ep1}>{mut}>{ep2}"))
    for ep1 in ENTRY_POINTS:
        for ep2 in ENTRY_POINTS:
            for loc0 in ("$R/base/wlink", "$R/base/w", "$R/outside/canary"):
                steps = [("call", ep1), ("mut", "base_main"), ("call", ep2), ("call", "tofile_file"), ("mut", "base_empty"), ("call", ep2),
                         ("mut", "base_main"), ("call", ep2)]
                scen.append((loc0, steps, f"empty-start:{ep1}>rebase>{ep2}:{loc0.split('/')[-1]}"))
    ctx.exhaustive_scopes.append(f"stateful: call ep1, mutation, call ep2, tofile, release, call ep2 for all {len(ENTRY_POINTS)}x{len(MUTATIONS)}x{len(ENTRY_POINTS)} (ep1, mutation, ep2)")
    path_muts = {"file": ["symlink_out", "hardlink_out", "symlink_in", "replace_in", "delete", "rewrite_in_place", "add_hardlink"],
                 "link": ["symlink_out", "hardlink_out", "symlink_in", "replace_in", "delete"],
                 "gone": []}
    other_muts = ["none", "base_other", "base_sub", "base_rel", "base_outside", "base_empty", "base_main", "release"]
    for _ in range(ctx.pick(150, 2000)):
        steps = [("call", ctx.rng.choice(ENTRY_POINTS))]
        kind, extra = "file", False
        for _ in range(ctx.rng.randrange(3, 9)):
            if ctx.rng.random() < 0.45:
                m = ctx.rng.choice(path_muts[kind] + other_muts)
                if m == "add_hardlink":
                    if extra:
                        continue
                    extra = True
                if m in ("symlink_out", "symlink_in"):
                    kind = "link"
                elif m in ("hardlink_out", "replace_in"):
                    kind = "file" if m == "replace_in" else "link"  # after hardlink_out never write through it
                elif m == "delete":
                    kind = "gone"
                steps.append(("mut", m))
            else:
                steps.append(("call", ctx.rng.choice(ENTRY_POINTS)))
        scen.append(("w", steps, "random:" + ">".join(a for _, a in steps)))
    k = max(1, (len(scen) + 31) // 32)
    for p in pmap(_stateful_work, [scen[i:i + k] for i in range(0, len(scen), k)]):
        ctx.merge(p)


# --------------------------------------------------------------------------- several tensors, public re-basing operations

# the external tensors of the world model: (position, location, offset, length as given, zero-size)
WORLD_TENSORS = [("main-init", "w", 0, NBYTES, False), ("main-init-zero", "w", 0, 0, True), ("sub-init", "f", 0, NBYTES, False),
                 ("main-attr", "s/w", 0, NBYTES, False), ("func-attr", "w", 2, 4, False), ("sub-attr-link", "wlink", 0, NBYTES, False)]
WORLD_FS_MUTS = ["symlink_out", "replace_in", "rewrite_in_place", "dir_swap", "hardlink_out"]


def build_world_model():
    """A model holding WORLD_TENSORS: initializers of the main graph and of an If branch, TENSOR attributes of a main-graph
    node, of a node inside the If branch and of a node inside a model-local function.  Returns (model, tensors by index)."""
    import onnx_ir as ir

    ts = []
    for pos, loc, off, ln, zero in WORLD_TENSORS:
        ts.append(ir.ExternalTensor(loc, off, ln, ir.DataType.UINT8, shape=ir.Shape([0 if zero else ln]), name=pos))

    def init(t):
        return ir.Value(name=t.name, const_value=t, shape=ir.Shape(list(t.shape)), type=ir.TensorType(ir.DataType.UINT8))

    then_g = ir.Graph([], [], nodes=[ir.Node("", "Constant", [], [ir.AttrTensor("value", ts[5])], num_outputs=1, name="sc")], initializers=[init(ts[2])], name="then")
    nodes = [ir.Node("", "Constant", [], [ir.AttrTensor("value", ts[3])], num_outputs=1, name="c"),
             ir.Node("", "If", [], [ir.AttrGraph("then_branch", then_g)], num_outputs=1, name="if")]
    g = ir.Graph([], [], nodes=nodes, initializers=[init(ts[0]), init(ts[1])], name="main", opset_imports={"": 20, "test": 1})
    fg = ir.Graph([], [], nodes=[ir.Node("", "Constant", [], [ir.AttrTensor("value", ts[4])], num_outputs=1, name="fc")], name="F", opset_imports={"": 20})
    f = ir.Function("test", "F", graph=fg, attributes=[])
    return ir.Model(g, ir_version=10, functions=[f]), ts


def _world_tensors_of(graph) -> list:
    """Independent walker: the ExternalTensor objects below one graph (initializers, TENSOR(S) attributes, nested graphs), in no
    particular order (set_base_dir assigns the same value to each, so the order is irrelevant)."""
    import onnx_ir as ir

    found, stack = [], [graph]
    while stack:
        g = stack.pop()
        for v in g.initializers.values():
            if isinstance(v.const_value, ir.ExternalTensor):
                found.append(v.const_value)
        for node in g:
            for a in node.attributes.values():
                if a.type == ir.AttributeType.TENSOR and isinstance(a.value, ir.ExternalTensor):
                    found.append(a.value)
                elif a.type == ir.AttributeType.TENSORS:
                    found.extend(t for t in a.value if isinstance(t, ir.ExternalTensor))
                elif a.type == ir.AttributeType.GRAPH:
                    stack.append(a.value)
                elif a.type == ir.AttributeType.GRAPHS:
                    stack.extend(a.value)
    return found


def run_world(part, ops: list, label: str) -> None:
    """One history of public operations on the tensors of one model; the real objects vs the model's world (path.world),
    with an independent oracle after every call.  ops:
      ("call", t, ep) | ("base", t, kind, spelling) | ("basedir", "main"|"func", kind, spelling) | ("release", t)
      | ("load",) load_to_model | ("convert", [t..]) convert_tensors_from_external | ("clone",) | ("fs", mutation)
      | ("chdir", directory relative to the root of the tree)"""
    import pathlib

    import onnx_ir as ir

    tree = build_state_tree()
    R = tree["R"]
    old = os.getcwd()
    try:
        os.chdir(R)
        model, ts = build_world_model()
        n = len(ts)
        idmap, known = {}, {}

        def snapshot():
            d = describe_tree(R, idmap)
            for info in d["inodes"].values():
                known[info["id"]] = info["data"]
            ghosts = [[i, 0, c] for i, c in known.items() if i not in {x["id"] for x in d["inodes"].values()}]
            return d, {"entries": d["entries"], "inodes": [[x["id"], x["nlink"], x["data"]] for x in d["inodes"].values()] + ghosts}

        def base_value(kind, sp):
            sp = sp.replace("$R", R)
            if kind == "pathlike":
                v = pathlib.PurePosixPath(sp)
                return v, os.fspath(v)
            if kind == "bytes":
                return os.fsencode(sp), sp
            return sp, sp

        here = {"cwd": R}  # the working directory (changed by ("chdir", d)); a relative base directory is relative to it

        def true_of(sp):
            try:
                return os.path.realpath(os.path.join(here["cwd"], sp)) if sp != "" and os.path.isdir(os.path.join(here["cwd"], sp)) else None
            except (OSError, ValueError):
                return None

        desc, fsj = snapshot()
        mops = [{"op": "fs", "fs": fsj}]
        cur = [("str", "")] * n          # (kind, fspath) of every tensor's base_dir as the harness expects it
        mapped = [None] * n              # oracle bookkeeping: inode legitimately mapped under the current base value
        in_model = {0, 1, 2}             # initializer tensors still external in the model (load_to_model replaces them)
        expect = []                      # per model log entry: (case, obs) or ("agg", ...)
        active = model

        def check_bases(step):
            for i, t in enumerate(ts):
                bd = t.base_dir
                got = ("bytes" if isinstance(bd, bytes) else "str" if isinstance(bd, str) else "pathlike", os.fsdecode(bd) if isinstance(bd, bytes) else os.fspath(bd))
                if got != cur[i]:
                    part.disagree("base_dir of a tensor after a re-basing operation differs from the model's", {"sequence": label, "step": step, "tensor": i}, list(cur[i]), list(got))

        def oracle_call(i, ep, obs, case):
            kind, sp = cur[i]
            inos = desc["inodes"]
            tb_ = true_of(sp) if kind != "bytes" else None
            tb = (tb_.rstrip("/") + "/") if tb_ else None
            unchecked = kind != "bytes" and sp == ""

            def inside(key):
                info = inos.get(key)
                return unchecked or (tb is not None and info is not None and info.get("kind") != "o" and info["nlink"] == 1 and all((l + "/").startswith(tb) for l in info["locs"]))

            opened_keys = []
            for p_ in obs["opened"]:
                key = true_location(p_, R)
                if key is not None and key in inos:
                    opened_keys.append(key)
                    if not inside(key):
                        part.fail(f"world-outside-open:{ep}", "a call opened a file outside the tensor's base directory / with several links", {**case, "obs": obs})
            _pos, _loc, off, ln, zero = WORLD_TENSORS[i]
            if obs["r"] == "ok" and not unchecked:
                if obs["bytes"] == "":
                    good = zero or ln == 0
                elif opened_keys:
                    good = any(inside(k_) and inos[k_]["data"][off:off + ln] == obs["bytes"] for k_ in opened_keys)
                else:
                    good = mapped[i] is not None and known.get(mapped[i], "")[off:off + ln] == obs["bytes"]
                if not good:
                    kind_ = "canary-read" if any(obs["bytes"] == c[off:off + ln] for c in tree["canaries"]) else "not-inside-file"
                    part.fail(f"world-{kind_}:{ep}", "a call returned bytes that are not those of a singly-linked regular file inside the tensor's CURRENT base "
                              "directory (opened by this call, or mapped by an earlier checked call under the same base directory value)", {**case, "obs": obs})
            if ep in MAPPING_EPS and opened_keys and obs["r"] == "ok" and not unchecked:
                mapped[i] = inos[opened_keys[-1]]["id"]
            if ep == "serialize_raw" and obs["r"] == "ok":
                mapped[i] = None

        for step, op in enumerate(ops):
            kind = op[0]
            if kind == "chdir":
                here["cwd"] = os.path.normpath(os.path.join(R, op[1]))
                os.chdir(here["cwd"])
                mops.append({"op": "chdir", "cwd": here["cwd"]})
                part.count("world_op=chdir")
            elif kind == "fs":
                loc = "s/w" if op[1] == "dir_swap" else "w"
                try:
                    MUTATIONS[op[1]](R, None, loc)
                except OSError:
                    continue  # the mutation does not apply to the current tree
                desc, fsj = snapshot()
                mops.append({"op": "fs", "fs": fsj})
            elif kind == "base":
                _, i, k, sp = op
                v, fsp = base_value(k, sp)
                ts[i].base_dir = v
                if (k, fsp) != cur[i]:
                    mapped[i] = None
                cur[i] = (k, fsp)
                mops.append({"op": "base", "t": i, "kind": k, "base": fsp})
                check_bases(step)
            elif kind == "basedir":
                _, which, k, sp = op
                v, fsp = base_value(k, sp)
                graph = active.graph if which == "main" else list(active.functions.values())[0].graph
                reached = [ts.index(t) for t in _world_tensors_of(graph)]
                ir.external_data.set_base_dir(graph, v)
                for i in reached:
                    if (k, fsp) != cur[i]:
                        mapped[i] = None
                    cur[i] = (k, fsp)
                mops.append({"op": "basedir", "ts": sorted(reached), "kind": k, "base": fsp})
                check_bases(step)
            elif kind == "release":
                ts[op[1]].release()
                mapped[op[1]] = None
                mops.append({"op": "release", "t": op[1]})
            elif kind == "clone":
                clone = active.clone()
                shared = {id(t) for g_ in [clone.graph] + [f.graph for f in clone.functions.values()] for t in _world_tensors_of(g_)}
                want = {id(ts[i]) for i in range(n) if i in in_model or i in (3, 4, 5)}
                if shared != want:
                    part.disagree("Model.clone() does not share the ExternalTensor objects of the model (the world model treats a clone as an alias)",
                                  {"sequence": label, "step": step}, len(want), len(shared))
                active = clone
                part.count("world_op=clone")
            elif kind == "call":
                _, i, ep = op
                case = {"cwd": here["cwd"], "base": cur[i][1], "base_type": cur[i][0], "loc": WORLD_TENSORS[i][1], "ep": ep, "via": "world", "sequence": label,
                        "ops": ops, "tensor": i}
                obs = real_read(ts[i], ep, tree["scratch"], R, release=False)
                oracle_call(i, ep, obs, case)
                mops.append({"op": "call", "t": i, "ep": ep})
                expect.append(("call", i, case, obs))
                part.case(["world", label, step], nontrivial=True, sample={"sequence": label}, world_ep=ep, world_tensor=WORLD_TENSORS[i][0], world_base=cur[i][0],
                          world_outcome=(obs["r"] if obs["r"] == "ok" else "raised-" + obs.get("layer", "?")) + ("" if obs["opened"] else "-noopen"))
            elif kind in ("load", "convert"):
                if kind == "load":
                    order = [0, 1, 2]  # model.graphs(): main-graph initializers in insertion order, then the If branch
                    idx = [i for i in order if i in in_model]
                else:
                    idx = list(op[1])
                _ensure_hook()
                _AUDIT["events"], _AUDIT["sites"], _AUDIT["on"] = [], [], True
                try:
                    try:
                      with _time_limit(_read_limit()) as tl_op:
                        if kind == "load":
                            ir.external_data.load_to_model(active)
                            res = [active.graph.initializers[ts[i].name].const_value if i != 2 else
                                   [a for nd in active.graph for a in nd.attributes.values() if a.type == ir.AttributeType.GRAPH][0].value.initializers[ts[2].name].const_value
                                   for i in idx]
                        else:
                            res = ir.external_data.convert_tensors_from_external([ts[i] for i in idx])
                        got = {"r": "ok", "bytes": [bytes(ir.serde.serialize_tensor(m_).raw_data).decode("latin1") for m_ in res]}
                      if tl_op.expired:
                        part.fail(f"nontermination:world-op:{kind}", f"load_to_model / convert_tensors_from_external did not return within {READ_TIMEOUT_S:.0f} s",
                                  {"via": "world-" + kind, "sequence": label, "ops": ops})
                        return
                    except Exception as e:  # noqa: BLE001
                        got = {"r": "raised", "layer": _classify(e), "exc": type(e).__name__}
                finally:
                    _AUDIT["on"] = False
                opened = [p_ if os.path.isabs(p_) else os.path.join(here["cwd"], p_) for p_ in _AUDIT["events"] if not (p_ if os.path.isabs(p_) else os.path.join(here["cwd"], p_)).startswith(tree["scratch"])]
                got["opened"] = opened
                # per tensor: the files opened, in order, with the inode each open reached (None: the open failed) and the path
                # each listed tensor has at this moment
                got["opened_ids"] = [(desc["inodes"].get(true_location(p_, R)) or {}).get("id") for p_ in opened]
                got["own_paths"] = {}
                for i in idx:
                    try:
                        own_ = os.path.join(os.fspath(ts[i].base_dir), os.fspath(ts[i].location))
                        got["own_paths"][i] = os.path.join(here["cwd"], own_) if isinstance(own_, str) else None
                    except Exception:  # noqa: BLE001
                        got["own_paths"][i] = None
                got["released"] = {i: ts[i].raw is None for i in idx}
                case = {"cwd": here["cwd"], "via": "world-" + kind, "sequence": label, "ops": ops, "tensors": idx}
                # oracle: every file opened belongs to one of the listed tensors and lies inside THAT tensor's base directory
                for p_ in opened:
                    key = true_location(p_, R)
                    info = desc["inodes"].get(key)
                    if info is None:
                        continue
                    owners = [i for i in idx if cur[i][0] != "bytes" and os.path.join(here["cwd"], cur[i][1], WORLD_TENSORS[i][1]) == p_ or
                              (cur[i][0] != "bytes" and os.path.join(cur[i][1], WORLD_TENSORS[i][1]) == os.path.relpath(p_, here["cwd"]))]
                    ok_ = False
                    for i in owners:
                        tb_ = true_of(cur[i][1])
                        if cur[i][1] == "" or (tb_ and info.get("kind") != "o" and info["nlink"] == 1 and all((l + "/").startswith(tb_.rstrip("/") + "/") for l in info["locs"])):
                            ok_ = True
                    if not ok_:
                        part.fail(f"world-outside-open:{kind}", "load_to_model / convert_tensors_from_external opened a file outside the base directory of the tensor it belongs to", {**case, "obs": got})
                if got["r"] == "ok":
                    for i in idx:
                        mapped[i] = None
                    if kind == "load":
                        in_model -= set(idx)
                mops.append({"op": "load", "ts": idx})
                expect.append(("agg", idx, case, got))
                part.case(["world", label, step], nontrivial=bool(idx), world_ep=kind, world_outcome=got["r"] + f"-{len(idx)}")
        out = lean_batch([{"m": "path.world", "cwd": R, "kfuel": KFUEL, "fuel": PFUEL,
                           "tensors": [[loc, off, ln, zero] for _p, loc, off, ln, zero in WORLD_TENSORS], "ops": mops}])[0]
        if "r" not in out:
            part.disagree("model error (world)", {"sequence": label}, out, None)
            return
        log = list(out["r"])
        pos = 0
        for ex in expect:
            if ex[0] == "call":
                _, i, case, obs = ex
                if pos >= len(log) or log[pos].get("t") != i:
                    part.disagree("model log out of step with the calls made (world)", {"sequence": label, "ops": ops}, log[pos:pos + 1], i)
                    return
                compare(part, case, obs, log[pos], {}, R)
                pos += 1
            else:
                _, idx, case, got = ex
                entries = []
                for i in idx:
                    if pos >= len(log) or log[pos].get("t") != i:
                        part.disagree("model log out of step with a load (world)", {"sequence": label, "ops": ops}, log[pos:pos + 1], i)
                        return
                    entries.append(log[pos])
                    pos += 1
                    if entries[-1]["r"] == "raised":
                        break
                m_r = "raised" if entries and entries[-1]["r"] == "raised" else "ok"
                if m_r != got["r"]:
                    part.disagree("load_to_model / convert_tensors_from_external: raise / return differs from the model", case, entries, got)
                elif got["r"] == "ok" and [e_.get("bytes") for e_ in entries] != got["bytes"]:
                    part.disagree("load_to_model / convert_tensors_from_external: bytes differ from the model", case, entries, got)
                else:
                    m_opens = sum(1 for e_ in entries if e_["opened"] is not None)
                    if m_opens != len(got["opened"]):
                        part.disagree("load_to_model / convert_tensors_from_external: number of files opened differs from the model", case, entries, got)
                    else:
                        # PER TENSOR: which file each processed tensor opened (path string and inode), in order; which layer
                        # stopped the tensor that raised; every tensor converted is released afterwards
                        k_ev = 0
                        for i, e_ in zip(idx, entries):
                            part.count("world_load_per_tensor=" + e_["r"] + ("" if e_["opened"] is None else "-open"))
                            if e_["opened"] is not None:
                                p_real, id_real = got["opened"][k_ev], got["opened_ids"][k_ev]
                                k_ev += 1
                                if got["own_paths"].get(i) != p_real:
                                    part.disagree("load_to_model / convert_tensors_from_external: a tensor opened a file that is not its own path", {**case, "tensor": i}, got["own_paths"].get(i), p_real)
                                elif (e_["opened"] if e_["opened"] != "fail" else None) != id_real and not (e_["opened"] == "fail" and os.path.isdir(p_real)):
                                    part.disagree("load_to_model / convert_tensors_from_external: inode opened for a tensor differs from the model", {**case, "tensor": i}, e_, id_real)
                            if e_["r"] == "ok" and not got["released"].get(i, True):
                                part.disagree("load_to_model / convert_tensors_from_external: a converted tensor keeps its mapping (the model releases it)", {**case, "tensor": i}, e_, got["released"])
                        if got["r"] == "raised" and entries:
                            last = entries[-1]
                            mlayer = {"c1": "c1", "c2": "c2", "c3": "c3"}.get(last["v"], "open")
                            layer = got.get("layer")
                            if last.get("nev") == 0:
                                if layer != "type":
                                    part.disagree("load_to_model / convert_tensors_from_external: the tensor that raised: TypeError expected (bytes base_dir)", {**case, "tensor": idx[len(entries) - 1]}, last, got)
                            elif layer in ("c1", "c2", "c3", "open") and layer != mlayer:
                                part.disagree("load_to_model / convert_tensors_from_external: rejecting layer of the tensor that raised differs", {**case, "tensor": idx[len(entries) - 1]}, last, got)
                            elif layer in ("other", "type") and mlayer in ("c1", "c2", "c3"):
                                part.disagree("load_to_model / convert_tensors_from_external: the implementation raised after the check, the model in it", {**case, "tensor": idx[len(entries) - 1]}, last, got)
        if pos != len(log):
            part.disagree("model log longer than the calls made (world)", {"sequence": label, "ops": ops}, len(log), pos)
        for t in ts:
            try:
                t.release()
            except Exception:  # noqa: BLE001
                pass
    finally:
        os.chdir(old)
        shutil.rmtree(tree["top"], ignore_errors=True)


def _world_work(job: list) -> dict:
    part = Part()
    for ops, label in job:
        _guard(part, "world", run_world, part, ops, label, limit=120.0)
    return part


WORLD_BASES = [("str", "$R/base"), ("pathlike", "$R/base"), ("str", "base"), ("pathlike", "base/"), ("str", "$R/base/"), ("bytes", "$R/base"),
               ("str", "$R/other"), ("str", "$R/outside"), ("str", ""), ("str", "$R/base/d"), ("pathlike", "$R/other"), ("str", "$R/base/s/.."),
               # a base directory through the re-pointable link `cur`; lexically equal spellings of different directories
               ("str", "$R/cur"), ("str", "cur"), ("pathlike", "$R/cur"), ("str", "."), ("str", "base/dl/.."), ("str", "$R/cur/")]
WORLD_FS_MUTS_ALL = WORLD_FS_MUTS + ["retarget_cur", "retarget_cur"]
WORLD_CHDIRS = ["", "base", "alt", "base2"]


def world_sequences(ctx: Ctx) -> None:
    """Histories of the public re-basing operations over the tensors of one model (theorem C10_world_safe)."""
    scen = []
    # every way of giving the model a base directory x every entry point on every tensor, then re-base another way and read again
    k = 0
    for setter in ("base", "basedir"):
        for b1 in WORLD_BASES[:7]:
            for b2 in (WORLD_BASES[0], WORLD_BASES[1], WORLD_BASES[6], WORLD_BASES[8]):
                k += 1
                ops = []
                if setter == "base":
                    ops += [("base", i, *b1) for i in range(len(WORLD_TENSORS))]
                else:
                    ops += [("basedir", "main", *b1), ("basedir", "func", *b1)]
                ops += [("call", i, ENTRY_POINTS[(i + k) % len(ENTRY_POINTS)]) for i in range(len(WORLD_TENSORS))]
                ops += [("clone",)] if k % 2 else []
                ops += [("fs", WORLD_FS_MUTS[k % len(WORLD_FS_MUTS)])] if k % 3 == 0 else []
                ops += [("basedir", "main", *b2)] if k % 2 else [("base", i, *b2) for i in (0, 3, 4)]
                ops += [("call", i, ENTRY_POINTS[(i + 2 * k) % len(ENTRY_POINTS)]) for i in range(len(WORLD_TENSORS))]
                ops += [("load",), ("call", 0, "tobytes"), ("convert", [3, 4])]
                scen.append((ops, f"{setter}:{b1[0]}:{b1[1]}>{b2[0]}:{b2[1]}#{k}"))
    ctx.exhaustive_scopes.append(f"world: both setters x {7} first base values x 4 second base values, all tensors read before and after ({len(scen)} histories)")
    # the same SPELLING of the base directory names another directory at the second read: (a) a symbolic link on the base path is
    # re-pointed between two reads (cur -> base, then cur -> base2), (b) os.chdir between two reads through a relative base
    # directory ("base" from $R, then from $R/alt); the new directory holds symbolic links leading into the old one.  Every
    # tensor is read before and after, through every entry point; tensors mapped before keep their mapping (by design), the
    # others and tofile open again.  (c) lexically equal spellings of different directories: "" -> ".", "base/dl/.." -> "base".
    n0 = len(scen)
    nt = len(WORLD_TENSORS)
    for k, ep in enumerate(ENTRY_POINTS):
        for b in (("str", "$R/cur"), ("pathlike", "$R/cur"), ("str", "cur"), ("str", "$R/cur/")):
            for setter in ("basedir", "base"):
                ops = [("basedir", "main", *b), ("basedir", "func", *b)] if setter == "basedir" else [("base", i, *b) for i in range(nt)]
                ops += [("call", i, ENTRY_POINTS[(i + k) % len(ENTRY_POINTS)]) for i in (0, 2, 3)]
                ops += [("fs", "retarget_cur")]
                ops += [("call", i, ep) for i in range(nt)] + [("call", 0, "tofile_bytesio"), ("release", 0), ("call", 0, ep), ("convert", [3, 4])]
                ops += [("fs", "retarget_cur"), ("call", 4, ep), ("load",)]
                scen.append((ops, f"retarget:{setter}:{b[0]}:{b[1]}:{ep}"))
        for b in (("str", "base"), ("pathlike", "base/"), ("str", "./base")):
            for d1, d2 in (("", "alt"), ("alt", "")):
                ops = [("chdir", d1), ("basedir", "main", *b), ("basedir", "func", *b)]
                ops += [("call", i, ENTRY_POINTS[(i + k) % len(ENTRY_POINTS)]) for i in (0, 2, 3)]
                ops += [("chdir", d2)]
                ops += [("call", i, ep) for i in range(nt)] + [("call", 0, "tofile_file"), ("release", 0), ("call", 0, ep), ("convert", [3, 4]), ("load",)]
                scen.append((ops, f"chdir:{d1 or '.'}>{d2 or '.'}:{b[0]}:{b[1]}:{ep}"))
        # "" -> "." with the working directory inside the tree, and "base/dl/.." -> "base"
        ops = [("chdir", "base"), ("call", 5, ep), ("call", 0, ep), ("basedir", "main", "str", "."), ("call", 5, ep), ("call", 0, ep), ("call", 5, "tofile_bytesio")]
        scen.append((ops, f"lexical-equal:empty>dot:{ep}"))
        ops = [("basedir", "main", "str", "base/dl/.."), ("call", 0, ep), ("call", 3, ep), ("basedir", "main", "str", "base"), ("call", 0, ep), ("call", 3, ep),
               ("basedir", "main", "str", "base/dl/.."), ("call", 0, ep)]
        scen.append((ops, f"lexical-equal:dotdot-after-link>collapsed:{ep}"))
    ctx.exhaustive_scopes.append(f"world: re-pointed symlink on the base path (4 spellings x 2 setters), chdir under a relative base (3 spellings x 2 directions), "
                                 f"lexically equal base values, x all {len(ENTRY_POINTS)} entry points ({len(scen) - n0} histories)")
    for _ in range(ctx.pick(120, 1500)):
        ops = [("basedir", "main", *ctx.rng.choice(WORLD_BASES[:5])), ("basedir", "func", *ctx.rng.choice(WORLD_BASES[:5]))] if ctx.rng.random() < 0.8 else []
        for _ in range(ctx.rng.randrange(4, 14)):
            r = ctx.rng.random()
            i = ctx.rng.randrange(len(WORLD_TENSORS))
            if r < 0.45:
                ops.append(("call", i, ctx.rng.choice(ENTRY_POINTS)))
            elif r < 0.6:
                ops.append(("base", i, *ctx.rng.choice(WORLD_BASES)))
            elif r < 0.72:
                ops.append(("basedir", ctx.rng.choice(["main", "func"]), *ctx.rng.choice(WORLD_BASES)))
            elif r < 0.78:
                ops.append(("release", i))
            elif r < 0.84:
                ops.append(("load",))
            elif r < 0.9:
                ops.append(("convert", sorted(ctx.rng.sample(range(len(WORLD_TENSORS)), ctx.rng.randrange(1, 4)))))
            elif r < 0.93:
                ops.append(("clone",))
            elif r < 0.96:
                ops.append(("chdir", ctx.rng.choice(WORLD_CHDIRS)))
            else:
                ops.append(("fs", ctx.rng.choice(WORLD_FS_MUTS_ALL)))
        scen.append((ops, "random:" + ">".join(str(o[0]) for o in ops)))
    k_ = max(1, (len(scen) + 31) // 32)
    for p in pmap(_world_work, [scen[i:i + k_] for i in range(0, len(scen), k_)]):
        ctx.merge(p)


def bytes_location_cases(ctx: Ctx, tree: dict, desc: dict) -> None:
    """A LOCATION given as a bytes object (os.fsencode spelling), with base directories of every type incl. the empty ones
    (model: callTB, theorem C10_bytes_location: with a non-empty base directory nothing is checked or opened and the call raises).
    Oracle: the property itself - bytes returned / files opened lie inside the base directory."""
    import pathlib

    import onnx_ir as ir

    R = tree["R"]
    b = R + "/base"
    bases = [("str", b), ("pathlike", b), ("bytes", b), ("bytes", "base"), ("str", "base/"), ("bytes", ""), ("str", ""), ("bytes", R + "/blink")]
    locs = ["f", "d/f", "link_out", "../outside/canary", R + "/outside/canary", R + "/base/f", "base/f", "nothing", "hard", ""]
    old = os.getcwd()
    try:
        os.chdir(R)
        queries, obs_l = [], []
        for kind, base in bases:
            bobj = os.fsencode(base) if kind == "bytes" else pathlib.PurePosixPath(base) if kind == "pathlike" else base
            mbase = os.fspath(bobj) if kind == "pathlike" else base
            for loc in locs:
                for zero in (False, True):
                    for ep in ENTRY_POINTS:
                        case = {"cwd": R, "base": mbase, "loc": loc, "ep": ep, "offset": 0, "length": NBYTES, "via": "bytes-location", "base_type": kind, "zero": zero}
                        try:
                            t = ir.ExternalTensor(os.fsencode(loc), 0, NBYTES, ir.DataType.UINT8, shape=ir.Shape([0 if zero else NBYTES]), name="t", base_dir=bobj)
                        except Exception:  # noqa: BLE001  constructing never reads
                            ctx.count("bytes-location-construct-raised")
                            continue
                        obs = real_read(t, ep, tree["scratch"], R)
                        ctx.case(["bytes-location", kind, base.replace(R, "$R"), loc.replace(R, "$R"), ep, zero], bytes_loc_base=kind + ("-empty" if base == "" else ""),
                                 bytes_loc_outcome=(obs["r"] + ("-nobytes" if obs.get("bytes") == "" else "") if obs["r"] == "ok" else "raised-" + obs.get("layer", "?")))
                        if base != "":
                            # the property itself (an implementation that accepted bytes locations would have to keep them inside)
                            oracle(ctx, tree, desc, {**case, "length": 0 if zero and ep not in ("tofile_bytesio", "tofile_file") else NBYTES}, obs, b)
                        queries.append([kind, mbase, loc, 0, NBYTES, zero, ep])
                        obs_l.append((case, obs))
        mo = lean_batch([{"m": "path.readsTB", "fs": fs_json(desc), "cwd": R, "kfuel": KFUEL, "fuel": PFUEL, "queries": queries}])[0]
        if "r" not in mo:
            ctx.disagree("model error (bytes location)", {"bytes-location": True}, mo, None)
        else:
            for (case, obs), o in zip(obs_l, mo["r"]):
                compare(ctx, case, obs, o, desc["inodes"] if case["base"] == "" and case["base_type"] == "bytes" else {}, R)
    finally:
        os.chdir(old)


# --------------------------------------------------------------------------- PATH_MAX at every path operation


def _deep_mkdirs(start: str, n: int, tag: str, last_len: int | None = None) -> list:
    """n nested directories with 200-character names below `start` (made step by step: the full name exceeds PATH_MAX);
    returns the names; leaves the process in the deepest one."""
    os.chdir(start)
    names = []
    for i in range(n):
        name = (tag + str(i)).ljust(last_len if (last_len is not None and i == n - 1) else 200, "x")
        os.mkdir(name)
        os.chdir(name)
        names.append(name)
    return names


def _short_dotdots(sp: str) -> str:
    """"../../../..." -> "(../ x N)" in the description of a case"""
    import re as _re

    sp = _re.sub(r"([A-Za-z])\1{11,}", lambda m: f"{m.group(1)}(x{len(m.group(0))})", sp)  # the 200-character names
    return _re.sub(r"(?:\.\./){8,}", lambda m: f"(../ x{len(m.group(0)) // 3})", sp)


def describe_tree_deep(R: str) -> dict:
    """describe_tree for trees whose absolute names exceed PATH_MAX: walks with directory file descriptors."""
    import stat as _stat

    entries, inodes = [], {}
    anc, ancs = R, []
    while anc != "/":
        anc = os.path.dirname(anc)
        ancs.append(anc)
    for a in reversed(ancs):
        if a != "/":
            entries.append([a, "d", os.stat(a).st_nlink])

    def walk(fd: int, label: str) -> None:
        entries.append([label, "d", os.fstat(fd).st_nlink])
        for n in sorted(os.listdir(fd)):
            st = os.lstat(n, dir_fd=fd)
            p = label + "/" + n
            if _stat.S_ISLNK(st.st_mode):
                entries.append([p, "l", os.readlink(n, dir_fd=fd)])
            elif _stat.S_ISDIR(st.st_mode):
                sub = os.open(n, os.O_RDONLY | os.O_DIRECTORY | os.O_NOFOLLOW, dir_fd=fd)
                try:
                    walk(sub, p)
                finally:
                    os.close(sub)
            elif _stat.S_ISREG(st.st_mode):
                key = (st.st_dev, st.st_ino)
                if key not in inodes:
                    f = os.open(n, os.O_RDONLY | os.O_NOFOLLOW, dir_fd=fd)
                    try:
                        data = os.read(f, 64)
                    finally:
                        os.close(f)
                    inodes[key] = {"id": len(inodes) + 1, "nlink": st.st_nlink, "data": data.decode("latin1"), "locs": []}
                inodes[key]["locs"].append(p)
                entries.append([p, "f", inodes[key]["id"]])

    fd = os.open(R, os.O_RDONLY | os.O_DIRECTORY)
    try:
        walk(fd, R)
    finally:
        os.close(fd)
    return {"entries": entries, "inodes": inodes}


def pathmax_cases(ctx: Ctx, only: str | None = None) -> None:
    """PATH_MAX at EVERY path operation of the containment check (os.lstat inside os.path.realpath, os.stat of the resolved path),
    not only at the open: trees whose resolved locations are PATH_MAX bytes or longer while the strings given to the library
    are short.  Model: readP (joinRealP / lstatP / statFileP: an entry that cannot be lstat'ed is a non-link, as in CPython's
    non-strict realpath).  Shapes: `dotdot-long` - a relative base directory with hundreds of leading ".." (D453); `blind-dotdot` - a short but wrong realpath answer for the base directory (see below); `long-base` - an absolute base directory reached through two long relative symbolic links
    (D451); `deep-cwd` - a relative base directory under a working directory about 4.2 kB deep (D452); `boundary` - resolved
    names of exactly PATH_MAX - 2 .. PATH_MAX + 1 bytes.  Oracle: no byte of a file outside the base directory / with
    several links is returned."""
    import onnx_ir as ir

    top = os.path.realpath(tempfile.mkdtemp(prefix="irverif-c10-"))
    R = os.path.join(top, "r")
    old = os.getcwd()
    try:
        os.mkdir(R)
        os.mkdir(R + "/outside")
        os.mkdir(top + "/scratch")
        _w(R + "/outside/canary", b"CANARY_C")
        _w(R + "/outside/hc", b"CANARY_H")
        canaries = {"CANARY_C", "CANARY_H"}
        setups = []  # (shape, cwd as a list of chdir steps from R, base, true base label, [locs])
        reported: set = set()

        def fill_base() -> None:
            """in the current directory: a base directory's content"""
            _w("ok", b"INSIDEOK")
            os.symlink(R + "/outside/canary", "sym")
            os.symlink("ok", "sym_in")
            os.link(R + "/outside/hc", "hard")
            os.mkdir("sub")
            _w("sub/f", b"INSIDESF")
            os.symlink("sub", "dsym_in")

        # long-base: R/t/L -> 14 directories (2.8 kB), there L2 -> 14 more; the base directory R/t/L/L2 is 5.6 kB deep
        os.mkdir(R + "/t")
        n1 = _deep_mkdirs(R + "/t", 14, "d")
        os.chdir(R + "/t"); os.symlink("/".join(n1), "L")
        for c_ in n1:
            os.chdir(c_)
        n2 = _deep_mkdirs(".", 14, "e")
        fill_base()
        # blind-dotdot: in that directory M -> $R/o/a1/.../a29; the base directory "$R/t/L/L2/M/" + 29 x "../" is $R/o for the
        # kernel, but $R/t for os.path.realpath (which cannot lstat M, takes it for a directory and pops it and the 28 names
        # above it lexically): a SHORT, well-formed, wrong answer for the base directory; the absolute location $R/t/x
        os.makedirs(R + "/o/" + "/".join(f"a{i}" for i in range(1, 30)))
        os.symlink(R + "/o/" + "/".join(f"a{i}" for i in range(1, 30)), "M")
        _w(R + "/t/x", b"CANARYTX")
        canaries.add("CANARYTX")
        for _ in n2:
            os.chdir("..")
        os.symlink("/".join(n2), "L2")
        setups.append(("blind-dotdot", [], R + "/t/L/L2/M/" + "../" * 29, [R + "/t/x", "x", R + "/o/a1", "../t/x"]))
        setups.append(("long-base", [], R + "/t/L/L2", ["ok", "sym", "sym_in", "hard", "sub/f", "dsym_in/f", "nothing", "../L2/sym"]))
        setups.append(("long-base", ["t"], "L/L2", ["ok", "sym", "hard", "sub/f"]))
        # dotdot-long (D453): a RELATIVE base directory with about 1270 leading "../" (3.8 kB, below PATH_MAX) + the working
        # directory + "/L", L -> two directories with 200-character names: os.path.realpath lstat's the relative spelling, which
        # exceeds PATH_MAX from the second of them on, while its answer (after abspath) is a short absolute string; `sym` there
        # leads outside.  Read from the working directory $R/v.
        A_, B_ = "A".ljust(200, "a"), "B".ljust(200, "b")
        os.makedirs(f"{R}/v/{A_}/{B_}")
        os.symlink(f"{A_}/{B_}", R + "/v/L")
        os.chdir(f"{R}/v/{A_}/{B_}")
        fill_base()
        for kk in ((4096 - 420 - len(R + "/v")) // 3 + 60, (4096 - 420 - len(R + "/v")) // 3 - 200):
            setups.append(("dotdot-long", ["v"], "../" * kk + (R + "/v").lstrip("/") + "/L", ["ok", "sym", "hard", "sub/f", "dsym_in/f"]))
        # blind-loop (D454): a SHORT absolute base directory $R/q; inside it 14 real directories E (2.8 kB), there a -> D/x/../(x8)/a
        # with 7 more real directories D (1.4 kB) and x -> $R/outside/q0/../q7.  os.path.realpath cannot lstat $R/q/E/D/x (4.3 kB), takes it
        # for a plain entry, strips the ".." lexically, is back at $R/q/E/a - the link it is resolving: "loop", it returns its INPUT.
        # The kernel follows x, goes up 8 real directories to $R/outside and finds the real directory a there: a/f is a canary.
        # realpath(path) == path: short, a fixed point, samestat-equal to itself - and not link-free.
        os.mkdir(R + "/q")
        nE = _deep_mkdirs(R + "/q", 14, "E")
        _w("ok", b"INSIDEOK")
        nD = _deep_mkdirs(".", 7, "D")
        qs = "/".join(f"q{i}" for i in range(8))
        os.makedirs(f"{R}/outside/{qs}")
        os.symlink(f"{R}/outside/{qs}", "x")
        for _ in nD:
            os.chdir("..")
        os.symlink("/".join(nD) + "/x/" + "../" * 8 + "a", "a")
        os.symlink("/".join(nD) + "/x/" + "../" * 8 + "ok", "b")   # the same detour to a name that is NOT being resolved: "ok" in $R/outside
        os.symlink("/".join(nD) + "/x/" + "../" * 8 + "c", "c")    # the link that "loops" is the LAST component; $R/outside/c is a regular file
        os.mkdir(R + "/outside/a")
        _w(R + "/outside/a/f", b"CANARYAF")
        _w(R + "/outside/ok", b"CANARYOK")
        _w(R + "/outside/c", b"CANARYOC")
        canaries.update({"CANARYAF", "CANARYOK", "CANARYOC"})
        E_ = "/".join(nE)
        setups.append(("blind-loop", [], R + "/q", [E_ + "/a/f", E_ + "/c", E_ + "/ok", E_ + "/b", E_ + "/a", E_ + "/a/../ok"]))
        setups.append(("blind-loop", ["q"] + nE[:5], "/".join(nE[5:]), ["a/f", "c", "ok", "b"]))
        # deep-cwd: R/w/<21 directories>/base, read with the relative base directory "base" from inside
        os.mkdir(R + "/w")
        nw = _deep_mkdirs(R + "/w", 21, "c")
        os.mkdir("base"); os.chdir("base"); fill_base()
        setups.append(("deep-cwd", ["w"] + nw, "base", ["ok", "sym", "sym_in", "hard", "sub/f", "dsym_in/f", "nothing"]))
        setups.append(("deep-cwd", ["w"] + nw, "./base/", ["ok", "hard", "sym"]))
        # boundary: the absolute name of base/ok has exactly PATH_MAX - 2 .. PATH_MAX + 1 bytes
        for k, total in enumerate((4094, 4095, 4096, 4097)):
            os.mkdir(R + f"/b{k}")
            fixed = len(R + f"/b{k}") + 19 * 201 + 1 + len("/base/ok")  # 19 full names, then the adjustable one
            last = total - fixed
            if not 1 <= last <= 255:
                continue
            nb = _deep_mkdirs(R + f"/b{k}", 20, "g", last_len=max(last, 3))
            os.mkdir("base"); os.chdir("base"); fill_base()
            setups.append((f"boundary", [f"b{k}"] + nb, "base", ["ok", "hard", "sym", "sub/f"]))
        os.chdir(R)
        desc = describe_tree_deep(R)
        fsj = fs_json(desc)
        inos = desc["inodes"]
        for shape, steps, base, locs in setups:
            if only is not None and shape != only:
                continue
            os.chdir(R)
            for c_ in steps:
                os.chdir(c_)
            cwd = os.getcwd()
            queries, obs_l = [], []
            for li, loc in enumerate(locs):
                for ep in (ENTRY_POINTS if (loc in ("sym", "hard") and shape != "boundary") or (shape in ("blind-dotdot", "blind-loop") and li <= (1 if shape == "blind-loop" else 0)) else [ENTRY_POINTS[li % len(ENTRY_POINTS)], ENTRY_POINTS[(li + 3) % len(ENTRY_POINTS)]]):
                    case = {"cwd_len": len(cwd), "cwd_steps": len(steps), "base": _short_dotdots(base.replace(R, "$R")), "loc": _short_dotdots(loc.replace(R, "$R")), "ep": ep, "via": "pathmax", "shape": shape}
                    t = make_tensor(base, loc)
                    obs = real_read(t, ep, top + "/scratch", R)
                    kind = "hardlink" if loc == "hard" else "symlink"
                    ctx.case(["pathmax", shape, len(steps), len(base), base.replace(R, "$R")[-40:], _short_dotdots(loc.replace(R, "$R")), ep], nontrivial=True, pathmax_shape=shape,
                             pathmax_outcome=(obs["r"] if obs["r"] == "ok" else "raised-" + obs.get("layer", "?")))
                    if obs["r"] == "ok" and obs["bytes"] in canaries and (kind, ep) not in reported:
                        reported.add((kind, ep))  # one failing input per signature: the list of failures of a run is bounded
                        ctx.fail(f"pathmax-escape:{kind}:{ep}", "a read returned the bytes of a file outside the base directory / with several links: the containment "
                                 "check is blind where os.lstat / os.stat fail with ENAMETOOLONG (resolved names of PATH_MAX bytes or more; shape blind-loop: os.path.realpath "
                                 "believes to see a symlink loop and returns its input unresolved, D454)", {**case, "obs": {"r": "ok", "bytes": obs["bytes"]}})
                    queries.append([base, loc, 0, NBYTES])
                    obs_l.append((case, obs))
            answers = sorted({os.path.realpath(os.path.join(base, q_[1])) for q_ in queries} | {os.path.realpath(base)})
            mo, mn = lean_batch([{"m": "path.readsP", "fs": fsj, "cwd": cwd, "kfuel": KFUEL, "fuel": PFUEL, "queries": queries},
                                 {"m": "path.nolinks", "fs": fsj, "cwd": cwd, "kfuel": KFUEL, "paths": answers}])
            if "r" not in mo or "r" not in mn:
                ctx.disagree("model error (pathmax)", {"shape": shape}, mo if "r" not in mo else mn, None)
                continue
            for a_, m_ in zip(answers, mn["r"]):
                # the prefix walk of check 3 (D454) on what os.path.realpath answered: model (noLinkOn, lstatP) vs the loop on the kernel
                e_ = real_nolink(a_)
                ctx.count(f"pathmax_nolink:{shape}=" + ("passes" if e_ else "refuses"))
                if m_ != e_:
                    ctx.disagree("prefix walk (noLinkOn) model != os.lstat / os.path.dirname loop on the kernel (pathmax)", {"shape": shape, "cwd_len": len(cwd), "p": a_.replace(R, "$R")[-80:]}, m_, e_)
            for (case, obs), o in zip(obs_l, mo["r"]):
                if o["r"] == "ok":  # hypothesis of C10_pathmax_safe on the cases where the check passes and the file is read
                    ctx.count("pathmax_linkfree=" + ("holds" if o.get("lf") else "FAILS"))
                if o.get("veq") is not True:
                    ctx.disagree("the general model over restricted system calls (readV), instantiated with PATH_MAX only (sysP), differs from readP", case, o, None)
                compare(ctx, {**case, "cwd": cwd}, {k_: v_ for k_, v_ in obs.items() if k_ != "own_opens"}, o, {}, R)
                if (o.get("opened") is None) != (obs["own_opens"] == 0):
                    ctx.disagree("open / no open of the tensor's path differs (pathmax)", case, o, {"r": obs["r"], "own_opens": obs["own_opens"]})
    finally:
        os.chdir(old)
        shutil.rmtree(top, ignore_errors=True)


# --------------------------------------------------------------------------- EACCES: directories the process may not search


def _unprivileged_ids():
    """(uid, gid) to drop to when the harness runs as root (root searches every directory: CAP_DAC_READ_SEARCH), else None"""
    if os.geteuid() != 0:
        return None
    import pwd

    for name in ("nobody", "daemon"):
        try:
            e = pwd.getpwnam(name)
            return (e.pw_uid, e.pw_gid)
        except KeyError:
            continue
    return (65534, 65534)


def _eacces_child(wfd: int, ids, cwd: str, base: str, cases: list, stats: list, scratch: str, R: str, key_of: dict) -> None:
    """runs in a forked child: chdir, drop privileges, the real reads and the system calls; one JSON document on the pipe"""
    import stat as _stat

    out = {"obs": [], "stats": [], "err": None}
    try:
        os.chdir(cwd)
        if ids is not None:
            os.setgroups([])
            os.setgid(ids[1])
            os.setuid(ids[0])
        out["uid"] = os.geteuid()
        for loc, ep in cases:
            t = make_tensor(base, loc)
            obs = real_read(t, ep, scratch, R)
            out["obs"].append({k: v for k, v in obs.items() if k in ("r", "layer", "exc", "bytes", "own_opens", "open_sites")})

        def show(p, follow):
            try:
                st = os.stat(p) if follow else os.lstat(p)
            except (OSError, ValueError):
                return "none"
            if _stat.S_ISLNK(st.st_mode):
                try:
                    return "l" + os.readlink(p)
                except OSError:
                    return "l?"
            if _stat.S_ISDIR(st.st_mode):
                return "d"
            return ("f" if _stat.S_ISREG(st.st_mode) else "o") + f"{key_of.get((st.st_dev, st.st_ino), '?')}"

        for p in stats:
            out["stats"].append([show(p, False), show(p, True), os.path.realpath(p), real_nolink(p)])
    except BaseException as e:  # noqa: BLE001
        out["err"] = f"{type(e).__name__}: {e}"[:300]
    try:
        with os.fdopen(wfd, "w") as f:
            json.dump(out, f)
    finally:
        os._exit(0)


def eacces_cases(ctx: Ctx) -> None:
    """EACCES makes os.path.realpath blind the way ENAMETOOLONG does: os.lstat of an entry in a directory the process may not search
    fails and the entry is taken for a non-link.  Trees with chmod 000 / 0o600 directories - inside the base directory, on the way to
    it, above the working directory, behind absolute and relative symbolic links, on the detour of a D454-like link - read by a
    process WITHOUT privileges (a forked child that drops to 'nobody' when the harness runs as root: root searches everything).
    Model: readV (sysA: PATH_MAX + search permissions; theorem C10_eacces_safe); the model's os.lstat / os.stat / realpath / prefix
    walk are compared with the child's system calls on the same strings.  Oracle: no byte of a file outside the base directory."""
    import numpy  # noqa: F401  (everything the child needs is imported BEFORE it drops privileges: it may not be able to read the
    import onnx_ir  # noqa: F401   interpreter's library directories afterwards)

    make_tensor("", "x")
    ids = _unprivileged_ids()
    top = os.path.realpath(tempfile.mkdtemp(prefix="irverif-c10-"))
    R = os.path.join(top, "r")
    old = os.getcwd()
    modes: dict = {}
    try:
        os.chmod(top, 0o755)
        os.mkdir(R)
        os.mkdir(top + "/scratch")
        os.chmod(top + "/scratch", 0o777)
        for d in ("outside", "base", "base/p", "base/q", "base/sub", "U", "U/w", "U/w/b", "U/w/b/sub", "base/p/deep"):
            os.mkdir(f"{R}/{d}")
        _w(R + "/outside/canary", b"CANARY_C")
        _w(R + "/outside/hc", b"CANARY_H")
        _w(R + "/outside/a", b"CANARY_A")
        canaries = {"CANARY_C", "CANARY_H", "CANARY_A"}
        for b_ in ("base", "U/w/b"):
            _w(f"{R}/{b_}/ok", b"INSIDEOK")
            _w(f"{R}/{b_}/sub/f", b"INSIDESF")
            os.symlink(R + "/outside/canary", f"{R}/{b_}/sym")
            os.symlink("ok", f"{R}/{b_}/sym_in")
            os.link(R + "/outside/hc", f"{R}/{b_}/hard")
        for d in ("p", "q"):
            _w(f"{R}/base/{d}/f", b"INSIDEPF" if d == "p" else b"INSIDEQF")
            os.symlink(R + "/outside/canary", f"{R}/base/{d}/s")      # a link to outside that nobody can see
            os.symlink("../ok", f"{R}/base/{d}/s_in")
        _w(R + "/base/p/deep/f", b"INSIDEDF")
        os.symlink("p", R + "/base/lp")                                # a link to an unsearchable directory
        os.symlink(R + "/U/w/b", R + "/base/A")                        # absolute link whose target lies behind an unsearchable directory
        os.symlink("p/deep/../../a2", R + "/base/a2")                  # D454-like detour through an unsearchable directory, back to itself
        os.symlink("p/s/../../ok", R + "/base/a3")                     # the detour passes a link nobody can see
        os.symlink("../../base", R + "/U/w/up")                        # from below the unsearchable directory back to the base
        nosearch = []
        for d, m in (("base/p", 0o000), ("base/q", 0o600), ("U", 0o600)):
            modes[f"{R}/{d}"] = m
            nosearch.append(f"{R}/{d}")
        desc = describe_tree(R)
        check_links(ctx, desc, "eacces tree")
        for d, m in modes.items():
            os.chmod(d, m)
        key_of = {k: info["id"] for k, info in desc["inodes"].items()}
        fsj = fs_json(desc)
        b = R + "/base"
        setups = [  # (shape, cwd, base, locs, strings to lstat / stat / realpath / walk)
            ("inside", R, b, ["ok", "sym", "hard", "p/f", "p/s", "p/s_in", "q/f", "q/s", "p", "p/../ok", "lp/f", "lp", "p/deep/f", "sub/f", "p/./f", "q/"],
             [b + "/p", b + "/p/f", b + "/p/s", b + "/q/f", b + "/lp", b + "/lp/f", b + "/p/..", b + "/p/.", b + "/p/", b + "//p//f", b + "/p/deep/../f"]),
            ("inside", R, "base", ["ok", "p/f", "q/s", "sym", "lp/../ok"], ["base/p/f", "base/q", "base/lp/f", "base/p/../ok"]),
            ("detour", R, b, ["a2", "a2/f", "a3", "sym_in"], [b + "/a2", b + "/a3", b + "/p/deep/../../a2", b + "/p/s/../../ok"]),
            ("abs-link-through", R, b, ["A/ok", "A/sym", "A", "A/sub/f"], [b + "/A", b + "/A/ok", R + "/U", R + "/U/w", R + "/U/w/b/ok"]),
            ("base-behind", R, R + "/U/w/b", ["ok", "sym", "hard", "sub/f"], [R + "/U/w/b", R + "/U/w/b/sym"]),
            ("cwd-below", R + "/U/w", "b", ["ok", "sym", "hard", "sub/f", "sym_in", "../b/ok"], ["b", "b/ok", "b/sym", "..", "../w", "../w/b/ok", ".", "up", "up/ok", R + "/U/w/b/ok"]),
            ("cwd-below", R + "/U/w", "up", ["ok", "sym", "p/f"], ["up/p/f", "up/sym"]),
            ("cwd-below", R + "/U/w/b", ".", ["ok", "sym", "hard"], ["ok", "./sym", "../b/ok"]),
        ]
        for shape, cwd, base, locs, stats in setups:
            cases = []
            for li, loc in enumerate(locs):
                for ep in (ENTRY_POINTS if loc in ("sym", "p/s", "a3") else [ENTRY_POINTS[li % len(ENTRY_POINTS)], ENTRY_POINTS[(li + 3) % len(ENTRY_POINTS)]]):
                    cases.append((loc, ep))
            stats = stats + [os.path.join(base, l_) for l_ in locs]
            rfd, wfd = os.pipe()
            pid = os.fork()
            if pid == 0:
                os.close(rfd)
                _eacces_child(wfd, ids, cwd, base, cases, stats, top + "/scratch", R, key_of)
            os.close(wfd)
            raw = None
            with _time_limit(120.0) as tl:
                with os.fdopen(rfd, "r") as f:
                    raw = f.read()
            if tl.expired:
                try:
                    os.kill(pid, 9)
                except OSError:
                    pass
            os.waitpid(pid, 0)
            if tl.expired or not raw:
                ctx.fail(f"nontermination:stream:eacces:{shape}", "the unprivileged child did not finish its reads within 120 s", {"shape": shape, "via": "eacces"})
                continue
            out = json.loads(raw)
            if out.get("err") or len(out["obs"]) != len(cases) or len(out["stats"]) != len(stats):
                ctx.disagree("the unprivileged child raised outside a guarded call of the real code", {"shape": shape, "via": "eacces"}, None, out.get("err"))
                continue
            if ids is not None and out.get("uid") == 0:
                raise Infra("eacces: the child could not drop privileges")
            ctx.count("eacces_child_uid=" + ("unprivileged" if out.get("uid") != 0 else "root"))
            mo = lean_batch([{"m": "path.readsA", "fs": fsj, "nosearch": nosearch, "cwd": cwd, "kfuel": KFUEL, "fuel": PFUEL,
                              "queries": [[base, loc, 0, NBYTES] for loc, _ in cases], "stats": stats}])[0]
            if "r" not in mo:
                ctx.disagree("model error (eacces)", {"shape": shape}, mo, None)
                continue
            for (loc, ep), obs, o in zip(cases, out["obs"], mo["r"]):
                case = {"cwd": cwd.replace(R, "$R"), "base": base.replace(R, "$R"), "loc": loc, "ep": ep, "via": "eacces", "shape": shape}
                ctx.case(["eacces", shape, cwd.replace(R, "$R"), base.replace(R, "$R"), loc, ep], nontrivial=True, eacces_shape=shape,
                         eacces_outcome=(obs["r"] if obs["r"] == "ok" else "raised-" + obs.get("layer", "?")))
                if obs["r"] == "ok" and obs.get("bytes") in canaries:
                    ctx.fail(f"eacces-escape:{ep}", "a read returned the bytes of a file outside the base directory / with several links: the containment check is "
                             "blind where os.lstat / os.stat fail with EACCES (a directory the process may not search)", {**case, "obs": {"r": "ok", "bytes": obs["bytes"]}})
                compare(ctx, case, {k_: v_ for k_, v_ in obs.items() if k_ != "own_opens"}, o, {}, R)
                if (o.get("opened") is None) != (obs["own_opens"] == 0):
                    ctx.disagree("open / no open of the tensor's path differs (eacces)", case, o, {"r": obs["r"], "own_opens": obs["own_opens"]})
            for i, (p_, st_) in enumerate(zip(stats, out["stats"])):
                ctx.case(["eacces-syscalls", shape, cwd.replace(R, "$R"), p_.replace(R, "$R")], nontrivial=True, fn="eacces-lstat/stat/realpath/walk",
                         eacces_lstat=("none" if st_[0] == "none" else "some"))
                for name, mine, real in (("lstat", mo["lstat"][i], st_[0]), ("stat", mo["stat"][i], st_[1]), ("realpath", mo["realpath"][i], st_[2]), ("prefix walk", mo["nolink"][i], st_[3])):
                    if mine != real:
                        ctx.disagree(f"{name} of the model with search permissions != the unprivileged process's", {"shape": shape, "cwd": cwd.replace(R, "$R"), "p": p_.replace(R, "$R")}, mine, real)
    finally:
        os.chdir(old)
        for d in modes:
            try:
                os.chmod(d, 0o755)
            except OSError:
                pass
        shutil.rmtree(top, ignore_errors=True)


def size_zero_cases(ctx: Ctx, tree: dict, desc: dict) -> None:
    """Zero-size tensors (model: bodyZ / callT, theorem C10_zero_size): numpy / __array__ / serialisation run the check and open
    nothing, tobytes touches nothing, tofile checks, opens and copies `length` bytes (which may be non-zero).  Compared with the
    model; oracle: no byte unless tofile copies from a singly-linked regular file inside the base; no open outside the base."""
    import pathlib

    import onnx_ir as ir

    R = tree["R"]
    b = R + "/base"
    inside = lambda info: info.get("kind") != "o" and info["nlink"] == 1 and all((l + "/").startswith(b + "/") for l in info["locs"])  # noqa: E731
    old = os.getcwd()
    try:
        os.chdir(R)
        k = 0
        queries, obs_l = [], []
        for loc in ["f", "link_out", "../outside/canary", R + "/outside/canary", "hard", "dlink_out/f", "fifo", "nothing", "d", "", "link_in", "deep",
                    "deepout", "f\0", "d/hard_in", "../basex/f"]:
            for ep in ENTRY_POINTS:
                for off, ln in ((0, 0), (None, None), (None, 0), (0, NBYTES), (9, 0), (2, 4), (4, NBYTES)):
                    k += 1
                    kind, bobj = [("str", b), ("pathlike", pathlib.PurePosixPath(b)), ("str", "base"), ("bytes", os.fsencode(b)), ("str", b + "/")][k % 5]
                    mbase = os.fspath(bobj) if kind != "bytes" else b
                    t = ir.ExternalTensor(loc, off, ln, ir.DataType.UINT8, shape=ir.Shape([0]), name="z", base_dir=bobj)
                    case = {"cwd": R, "base": mbase, "loc": loc, "ep": ep, "offset": off, "length": ln, "via": "size-zero", "base_type": kind}
                    obs = real_read(t, ep, tree["scratch"], R)
                    ctx.case(["size-zero", loc.replace(R, "$R"), ep, off, ln, kind], size_zero=(obs["r"] if obs["r"] == "ok" else "raised-" + obs.get("layer", "?")),
                             size_zero_ep=ep, size_zero_bytes=("some" if obs.get("bytes") else "none"))
                    if obs["r"] == "ok" and obs["bytes"] != "":
                        src = [info for info in desc["inodes"].values() if inside(info) and info["data"][(off or 0):(off or 0) + (ln or 0)] == obs["bytes"]]
                        if not ep.startswith("tofile") or not src:
                            ctx.fail(f"size-zero-bytes:{ep}", "a zero-size tensor returned bytes that are not a tofile() copy from a singly-linked regular file inside the base", {**case, "obs": obs})
                    for p_ in obs["opened"]:
                        key = true_location(p_, R)
                        info = desc["inodes"].get(key)
                        if info is not None and not inside(info):
                            ctx.fail(f"size-zero-outside-open:{ep}", "a zero-size read opened a file outside the base directory", {**case, "obs": obs})
                        if not ep.startswith("tofile"):
                            ctx.disagree("a zero-size read through an entry point other than tofile opened a file (model: bodyZ opens nothing)", case, None, obs)
                    queries.append([kind, mbase, loc, off or 0, ln or 0, True, ep])
                    obs_l.append((case, obs))
        mo = lean_batch([{"m": "path.readsT", "fs": fs_json(desc), "cwd": R, "kfuel": KFUEL, "fuel": PFUEL, "queries": queries}])[0]
        if "r" not in mo:
            ctx.disagree("model error", {"size-zero": True}, mo, None)
        else:
            for (case, obs), o in zip(obs_l, mo["r"]):
                compare(ctx, case, obs, o, desc["inodes"] if case["base_type"] != "bytes" and "\0" not in case["loc"] else {}, R)
    finally:
        os.chdir(old)


def random_trees(ctx: Ctx) -> None:
    """Random small trees: reads with a random real directory as base, and realpath/lstat/stat."""
    trees = []
    try:
        jobs, rp_jobs = [], []
        for _ in range(ctx.pick(24, 300)):
            tr = build_random_tree(ctx.rng)
            trees.append(tr)
            desc = describe_tree(tr["R"])
            check_links(ctx, desc, "random tree")
            R = tr["R"]
            for _ in range(2):
                bdir = ctx.rng.choice(tr["dirs"])
                cwd = ctx.rng.choice(tr["dirs"])
                spell = ctx.rng.random()
                if spell < 0.5:
                    base = bdir
                elif spell < 0.8:
                    base = os.path.relpath(bdir, cwd)
                else:
                    base = bdir + "/"
                sp = {"cwd": cwd, "base": base, "true": bdir, "kind": "random-tree"}
                cases = [(random_tree_path(ctx.rng, R), ctx.rng.choice(ENTRY_POINTS), 0, NBYTES) for _ in range(ctx.pick(60, 120))]
                jobs.append({"tree": tr, "desc": desc, "sp": sp, "cases": cases})
            cwd = ctx.rng.choice(tr["dirs"])
            paths = [p for p in (random_tree_path(ctx.rng, R) for _ in range(ctx.pick(80, 160))) if p != ""]
            rp_jobs.append({"desc": desc, "cwd": cwd, "paths": paths, "R": R})
        for p in pmap(_work, jobs):
            ctx.merge(p)
        for p in pmap(_realpath_work, rp_jobs):
            ctx.merge(p)
    finally:
        for tr in trees:
            shutil.rmtree(tr["top"], ignore_errors=True)


def replay(ctx: Ctx, obj: dict) -> None:
    """Re-run one recorded case (failing input or disagreement) on a fresh tree."""
    case = obj.get("case", obj)
    if case.get("via") == "stateful" and "steps" in case:
        part = Part()
        run_scenario(part, case["loc"], [tuple(x) for x in case["steps"]], case.get("sequence", "replay"))
        ctx.merge(part)
        return
    if str(case.get("via", "")).startswith("world") and "ops" in case:
        part = Part()
        run_world(part, [tuple(x) for x in case["ops"]], case.get("sequence", "replay"))
        ctx.merge(part)
        return
    if case.get("via") == "pathmax":
        pathmax_cases(ctx, only=case.get("shape"))
        return
    if case.get("via") == "eacces":
        eacces_cases(ctx)
        return
    tree = build_tree(chains=True)
    old = os.getcwd()
    try:
        desc = describe_tree(tree["R"])
        R = tree["R"]
        if case.get("path") is not None and "loc" not in case:
            import onnx_ir as ir  # load case: re-run the whole load stream
            load_cases(ctx, tree, desc)
            return
        oldR = case.get("R") or _guess_root(case)
        sub = (lambda s: s.replace(oldR, R)) if oldR else (lambda s: s)
        sp = {"cwd": sub(case["cwd"]), "base": sub(case["base"]), "true": None, "kind": case.get("base_kind", "?")}
        for s in base_spellings(R):
            if s["cwd"] == sp["cwd"] and s["base"] == sp["base"]:
                sp = s
        part = _work({"tree": tree, "desc": desc, "sp": sp, "cases": [(sub(case["loc"]), case["ep"], case.get("offset", 0), case.get("length", NBYTES))]})
        ctx.merge(part)
    finally:
        os.chdir(old)
        shutil.rmtree(tree["top"], ignore_errors=True)


def _guess_root(case: dict):
    import re

    m = re.search(r"(/[^ ]*?/irverif-c10-[^/]+/r)", json.dumps(case))
    return m.group(1) if m else None

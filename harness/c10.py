"""C10 — external tensor reads never escape the model directory (DESIGN.md section 5, C10).

Correspondence (model = lean/IrVerif/Model/Path.lean, driver commands path.*):
  * string functions (normpath, join, abspath, dirname, split) vs CPython posixpath; realpath / lstat / stat of the model
    vs os.path.realpath and the kernel, on a fixed tree and on random trees;
  * every real ExternalTensor read vs the model's read on a description of the same tree: accept/reject, bytes, which
    layer rejects, whether the tensor's own path was opened by the call and which inode that reached (audit hook);
    trees contain canaries outside the base, symlinks in/out, symlinked directories, hard links, a prefix sibling,
    a FIFO and a device node inside the base;
  * sequences on one tensor (calls of all entry points, changes of the tree, base_dir re-assignments incl. "" , release())
    vs the model's sessions;
  * ir.load with every model-path spelling (incl. "<symlinked dir>/.."), chdir between load and read, models whose
    external tensors sit in initializers / TENSOR / TENSORS attributes of the main graph, of nested graphs (depth 1-3) and
    of model-local functions; the walker behind set_base_dir vs the model's walker.

Oracle (independent of the model): returned bytes are those of a singly-linked REGULAR file whose true location (known by
construction of the tree) is below the true location of the base; a rejected read opened no file of the tree, an accepted
one only inside files (sys.addaudithook); after ir.load every external tensor anywhere in the model has a non-empty base
that is the directory the model file was opened from; in sequences, bytes come from the file opened by the call or mapped
by an earlier call under the SAME base directory.
"""
from __future__ import annotations

import io
import itertools
import json
import os
import posixpath
import shutil
import stat
import sys
import tempfile

from harness.common import Ctx, Part, lean_batch, lean_batch_parallel, load_corpus, pmap

THEOREMS = [
    "IrVerif.Path.C10_lexical",
    "IrVerif.Path.C10_real",
    "IrVerif.Path.C10_read_safe",
    "IrVerif.Path.C10_open_safe",
    "IrVerif.Path.C10_all_entry_points",
    "IrVerif.Path.C10_single_name",
    "IrVerif.Path.C10_base_resolves",
    "IrVerif.Path.C10_load_base_nonempty",
    "IrVerif.Path.C10_load_base_is_model_dir",
    "IrVerif.Path.C10_load_read_safe",
    "IrVerif.Path.C10_load_all_positions",
    "IrVerif.Path.C10_call_events",
    "IrVerif.Path.C10_call_open_safe",
    "IrVerif.Path.C10_call_result",
    "IrVerif.Path.C10_session_safe",
]
ASSUMPTIONS = [
    "POSIX only: os.path.normcase is the identity; Windows/ntpath behaviour is not modelled",
    "no concurrent modification of the tree between the check and the open of one call (TOCTOU is outside the model); changes "
    "BETWEEN calls are modelled (sessions)",
    "path strings contain no NUL character (NUL locations are exercised by the oracle only)",
    "CPython 3.12 posixpath semantics (join, normpath, abspath, split/dirname, realpath/_joinrealpath with its seen cache) "
    "as transcribed; the kernel's path resolution (path_resolution(7): lookup in directories, '..' at the root, symlink "
    "following, trailing separators, ENOTDIR/ENOENT, ELOOP modelled as a bound on the NESTING of symlink expansions rather than "
    "Linux's total of 40) is a hand-written model validated against os.lstat/os.stat/os.path.realpath on fixed and random trees",
    "os.getcwd() names a chain of real directories (true on POSIX); theorems about reads assume the Python recursion "
    "bound is at least the kernel's symlink bound",
    "an ABSOLUTE location that lies inside the base directory is accepted (join(base, abs) = abs, check 1 passes): the "
    "property's 'absolute paths raise' is read as 'absolute paths leading outside the base raise'",
    "an empty base directory disables the checks by design (programmatic construction); the theorems and the oracle are about "
    "calls made while the tensor has a non-empty base directory; re-assigning base_dir drops the mapping (D184) so that bytes "
    "always come from an open checked against the tensor's current base directory",
    "a tensor that is already mapped is served from its mapping (no new open, no new check) while its base directory is unchanged, "
    "even if the tree changes afterwards: it keeps returning the bytes of the inode it mapped through a checked open",
    "zero-size tensors (nothing is mapped or copied) are exercised by the oracle only; the models of the entry points are for size > 0",
    "st_nlink counts the names of an inode (LinkCountSound; checked on every described tree); file permissions, mount points and "
    "bind mounts are not modelled; FIFOs, sockets and device nodes are modelled as one kind of non-regular object",
]

NBYTES = 8
ENTRY_POINTS = ["numpy", "tobytes", "tofile_bytesio", "tofile_file", "array", "serialize_raw"]

# --------------------------------------------------------------------------- the tree


def _w(path: str, content: bytes) -> None:
    with open(path, "wb") as f:
        f.write(content)


def build_tree() -> dict:
    """Create the test tree; returns a description with ground-truth locations."""
    top = os.path.realpath(tempfile.mkdtemp(prefix="irverif-c10-"))
    R = os.path.join(top, "r")
    os.mkdir(R)
    for d in ("base", "base/d", "base/d/e", "basex", "outside", "outside/d"):
        os.mkdir(os.path.join(R, d))
    files = {
        "base/f": b"INSIDE_F",
        "base/d/f": b"INSIDEDF",
        "base/d/e/f": b"INSIDDEF",
        "base/g": b"INSIDE_G",
        "basex/f": b"CANARYXF",
        "outside/f": b"CANARYOF",
        "outside/canary": b"CANARY_C",
        "outside/d/f": b"CANARYDF",
        "outside/hcanary": b"CANARY_H",
        "f": b"CANARYRF",
    }
    for rel, content in files.items():
        _w(os.path.join(R, rel), content)
    links = {
        "base/link_in": "f",
        "base/link_in2": "d/../g",
        "base/link_out": "../outside/canary",
        "base/link_abs_out": os.path.join(R, "outside/canary"),
        "base/link_abs_in": os.path.join(R, "base/d/f"),
        "base/dlink_in": "d",
        "base/dlink_out": "../outside",
        "base/d/up": "..",
        "base/chain": "link_out",  # symlink to a symlink leading outside
        "base/chain_in": "link_in",
        "base/loop_a": "loop_b",
        "base/loop_b": "loop_a",
        "base/dangling": "nothing_here",
        "base/dangling_out": "../outside/nothing_here",
        "base/link_sib": "../basex/f",
        "blink": "base",  # the base directory through a symlink
        "outside/back": "../base",  # a way back in from outside
    }
    for rel, target in links.items():
        os.symlink(target, os.path.join(R, rel))
    os.link(os.path.join(R, "outside/hcanary"), os.path.join(R, "base/hard"))
    os.link(os.path.join(R, "base/g"), os.path.join(R, "base/d/hard_in"))
    # non-regular objects inside the base: a FIFO (kept open read-write by the harness so that an open() of it can
    # never block) holding 8 bytes, and, when permitted, a character device (a /dev/zero clone)
    special_fds = []
    os.mkfifo(os.path.join(R, "base/fifo"))
    fd = os.open(os.path.join(R, "base/fifo"), os.O_RDWR | os.O_NONBLOCK)
    os.write(fd, b"FIFODATA")
    special_fds.append(fd)
    try:
        os.mknod(os.path.join(R, "base/zero"), 0o666 | stat.S_IFCHR, os.makedev(1, 5))
    except OSError:
        pass
    scratch = os.path.join(top, "scratch")
    os.mkdir(scratch)
    return {"top": top, "R": R, "scratch": scratch, "special_fds": special_fds,
            "canaries": sorted(v.decode() for k, v in files.items() if v.startswith(b"CANARY")) + ["FIFODATA", "\0" * NBYTES]}


def describe_tree(R: str, idmap: dict | None = None) -> dict:
    """Walk R without following links -> entries for the model + ground truth for the oracle.
    `idmap` ((dev, ino) -> id) keeps inode ids stable across descriptions of a changing tree."""
    entries = []  # [path, kind, arg]  kind in d/f/l
    inodes: dict = {}  # (dev, ino) -> {"id", "nlink", "data", "locs"}
    anc = R
    ancs = []
    while anc != "/":
        anc = os.path.dirname(anc)
        ancs.append(anc)
    for a in reversed(ancs):
        if a != "/":
            entries.append([a, "d", os.stat(a).st_nlink])
    stack = [R]
    while stack:
        p = stack.pop()
        st = os.lstat(p)
        import stat as _stat

        if _stat.S_ISLNK(st.st_mode):
            entries.append([p, "l", os.readlink(p)])
        elif _stat.S_ISDIR(st.st_mode):
            entries.append([p, "d", st.st_nlink])
            for n in sorted(os.listdir(p), reverse=True):
                stack.append(os.path.join(p, n))
        elif not _stat.S_ISREG(st.st_mode):
            # FIFO, socket, device node: never read by the harness
            key = (st.st_dev, st.st_ino)
            if key not in inodes:
                iid = len(inodes) + 1 if idmap is None else idmap.setdefault(key, len(idmap) + 1)
                inodes[key] = {"id": iid, "nlink": st.st_nlink, "data": "", "locs": [], "kind": "o"}
            inodes[key]["locs"].append(p)
            entries.append([p, "o", inodes[key]["id"]])
        else:
            key = (st.st_dev, st.st_ino)
            if key not in inodes:
                with open(p, "rb") as f:
                    data = f.read()
                if idmap is None:
                    iid = len(inodes) + 1
                else:
                    iid = idmap.setdefault(key, len(idmap) + 1)
                inodes[key] = {"id": iid, "nlink": st.st_nlink, "data": data.decode("latin1"), "locs": []}
            inodes[key]["locs"].append(p)
            entries.append([p, "f", inodes[key]["id"]])
    return {"entries": entries, "inodes": inodes}


def build_random_tree(rng) -> dict:
    """A small random tree: directories, files, symlinks with random (relative / absolute / dangling /
    looping) targets, hard links.  File contents are unique."""
    top = os.path.realpath(tempfile.mkdtemp(prefix="irverif-c10-"))
    R = os.path.join(top, "r")
    os.mkdir(R)
    names = ["a", "b", "c", "x"]
    dirs = [R]
    files = []
    contents = []
    for _ in range(rng.randrange(4, 13)):
        parent = rng.choice(dirs)
        name = rng.choice(names)
        p = os.path.join(parent, name)
        if os.path.lexists(p):
            continue
        r = rng.random()
        if r < 0.3:
            os.mkdir(p)
            dirs.append(p)
        elif r < 0.55:
            c = ("F%07d" % len(contents)).encode()
            _w(p, c)
            contents.append(c.decode())
            files.append(p)
        elif r < 0.65 and files:
            os.link(rng.choice(files), p)
        else:
            k = rng.randrange(1, 4)
            t = "/".join(rng.choice(names + ["..", "..", ".", ""]) for _ in range(k))
            q = rng.random()
            if q < 0.15:
                t = R + "/" + t
            elif q < 0.2:
                t = "/" + t
            elif q < 0.3:
                t = t + "/"
            if t == "":
                t = "."
            os.symlink(t, p)
    scratch = os.path.join(top, "scratch")
    os.mkdir(scratch)
    return {"top": top, "R": R, "scratch": scratch, "canaries": contents, "dirs": dirs}


def random_tree_path(rng, R: str) -> str:
    k = rng.randrange(1, 6)
    body = "/".join(rng.choice(["a", "b", "c", "x", "a", "b", "..", ".", ""]) for _ in range(k))
    r = rng.random()
    if r < 0.75:
        return body
    if r < 0.8:
        return "/" + body
    return R + "/" + body


# --------------------------------------------------------------------------- real reads

_AUDIT = {"on": False, "events": [], "installed": False}


def _hook(event, args):
    if _AUDIT["on"] and event == "open":
        try:
            p = args[0]
            if isinstance(p, bytes):
                p = os.fsdecode(p)
            if isinstance(p, str):
                _AUDIT["events"].append(p)
        except Exception:
            pass


def _ensure_hook():
    if not _AUDIT["installed"]:
        sys.addaudithook(_hook)
        _AUDIT["installed"] = True


def _classify(e: BaseException) -> str:
    m = str(e)
    if isinstance(e, ValueError):
        if "path traversal attack." in m and "outside the base directory" in m and "via symlink" not in m:
            return "c1"
        if "resolves via symlink" in m:
            return "c2"
        if "multiple hard links" in m or "is not a regular file" in m:
            return "c3"
    if isinstance(e, OSError):
        return "open"
    return "other"


def make_tensor(base: str, loc: str, offset: int = 0, length: int = NBYTES):
    import onnx_ir as ir

    return ir.ExternalTensor(loc, offset, length, ir.DataType.UINT8, shape=ir.Shape([NBYTES if length is None else length]), name="t", base_dir=base)


def read_via(t, ep: str, scratch: str) -> bytes:
    import numpy as np

    if ep == "numpy":
        return t.numpy().tobytes()
    if ep == "tobytes":
        return bytes(t.tobytes())
    if ep == "tofile_bytesio":
        b = io.BytesIO()
        t.tofile(b)
        return b.getvalue()
    if ep == "tofile_file":
        dst = os.path.join(scratch, f"out-{os.getpid()}")
        with open(dst, "wb") as f:
            t.tofile(f)
        with open(dst, "rb") as f:
            return f.read()
    if ep == "array":
        return np.asarray(t).tobytes()
    if ep == "serialize_raw":
        import onnx_ir as ir

        (mem,) = ir.external_data.convert_tensors_from_external([t])
        return bytes(ir.serde.serialize_tensor(mem).raw_data)
    raise AssertionError(ep)


def real_read(t, ep: str, scratch: str, R: str, release: bool = True) -> dict:
    """Run one read under the audit hook; canonical observation."""
    _ensure_hook()
    _AUDIT["events"] = []
    _AUDIT["on"] = True
    try:
        try:
            data = read_via(t, ep, scratch)
            obs = {"r": "ok", "bytes": data.decode("latin1")}
        except Exception as e:  # noqa: BLE001
            obs = {"r": "raised", "layer": _classify(e), "exc": type(e).__name__}
    finally:
        _AUDIT["on"] = False
        if release:
            try:
                t.release()
            except Exception:
                pass
    try:
        own = os.path.join(os.fspath(t.base_dir), os.fspath(t.location))
    except Exception:  # noqa: BLE001
        own = None
    obs["own_opens"] = sum(1 for p in _AUDIT["events"] if p == own)
    cwd = os.getcwd()
    opened = []
    for p in _AUDIT["events"]:
        ap = p if os.path.isabs(p) else os.path.join(cwd, p)
        if ap.startswith(scratch):
            continue
        opened.append(ap)
    obs["opened"] = opened
    return obs


# --------------------------------------------------------------------------- oracle


def true_location(path: str, R: str):
    """Ground truth for where an opened path leads: (dev, ino) of what the kernel opens."""
    try:
        st = os.stat(path)
        return (st.st_dev, st.st_ino)
    except OSError:
        return None


def oracle(part, tree: dict, desc: dict, case: dict, obs: dict, true_base: str | None) -> None:
    """The property itself on the real objects.  `true_base` = true location of the base directory
    (by construction of the base spelling), None when the base does not exist."""
    R = tree["R"]
    sig_case = f"{case['ep']}:{case.get('via', 'direct')}"
    inos = desc["inodes"]

    def inside(key) -> bool:
        info = inos.get(key)
        if info is None or true_base is None or info.get("kind") == "o":
            return False
        if info["nlink"] != 1:
            return False
        tb = true_base.rstrip("/") + "/"
        return all((l + "/").startswith(tb) for l in info["locs"])

    in_tree = [p for p in obs["opened"] if (posixpath.normpath(p) + "/").startswith(tree["top"] + "/") or true_location(p, R) in inos]
    off, ln = case.get("offset", 0) or 0, case.get("length", NBYTES)
    ln = NBYTES if ln is None else ln
    if obs["r"] == "ok":
        ok_inside = [info for key, info in inos.items() if inside(key) and info["data"][off:off + (ln if ln is not None else NBYTES)] == obs["bytes"]]
        if not ok_inside:
            if any(c[off:off + ln] == obs["bytes"] for c in tree["canaries"]):
                part.fail(f"canary-read:{sig_case}", "a read returned the bytes of a file outside the base directory", {**case, "obs": obs})
            else:
                part.fail(f"not-inside-file:{sig_case}", "returned bytes are not those of a singly-linked regular file inside the resolved base directory", {**case, "obs": obs})
        for p in in_tree:
            key = true_location(p, R)
            if key is not None and key in inos and not inside(key):
                part.fail(f"outside-open:{sig_case}", "an accepted read opened a file outside the base directory / with several links", {**case, "obs": obs})
    else:
        for p in in_tree:
            key = true_location(p, R)
            if key is not None and key in inos and not inside(key):
                part.fail(f"open-before-reject:{sig_case}", "a rejected read opened a file outside the base directory", {**case, "obs": obs})


# --------------------------------------------------------------------------- generators

TOKENS = [".", "..", "d", "f", "link_in", "link_out", ""]
EXTRA_TOKENS = ["fifo", "zero", "dlink_out", "dlink_in", "hard", "up", "chain", "loop_a", "dangling", "link_abs_out", "link_abs_in",
                "hard_in", "link_sib", "g", "e", "nothing", "basex", "outside", "base", "canary", "back", "link_in2",
                "chain_in", "dangling_out", "blink"]


def base_spellings(R: str) -> list[dict]:
    """Each spelling: cwd to use, the base_dir string, the TRUE location of the base (ground truth)."""
    rname = os.path.basename(R)
    b = R + "/base"
    return [
        {"cwd": R, "base": b, "true": b, "kind": "abs"},
        {"cwd": R, "base": b + "/", "true": b, "kind": "abs-trailing"},
        {"cwd": R, "base": "base", "true": b, "kind": "rel"},
        {"cwd": R, "base": "./base/", "true": b, "kind": "rel-dot-trailing"},
        {"cwd": R + "/base", "base": ".", "true": b, "kind": "dot"},
        {"cwd": R + "/base/d", "base": "..", "true": b, "kind": "dotdot"},
        {"cwd": R, "base": f"../{rname}/base/.", "true": b, "kind": "rel-updown"},
        {"cwd": R, "base": R + "/blink", "true": b, "kind": "abs-symlink"},
        {"cwd": R, "base": "blink/", "true": b, "kind": "rel-symlink"},
        {"cwd": R, "base": R + "//base", "true": b, "kind": "abs-doubleslash"},
        {"cwd": R, "base": "/" + b, "true": b, "kind": "two-leading-slashes"},
        {"cwd": R, "base": "//" + b, "true": b, "kind": "three-leading-slashes"},
        {"cwd": R, "base": R + "/base/d/..", "true": b, "kind": "abs-dotdot"},
        {"cwd": R, "base": R + "/base/d/up", "true": b, "kind": "abs-symlink-up"},
        {"cwd": R, "base": R + "/base/d", "true": b + "/d", "kind": "abs-subdir"},
        {"cwd": R, "base": R + "/nonexistent", "true": None, "kind": "abs-missing"},
        {"cwd": R, "base": R + "/base/f", "true": b + "/f", "kind": "abs-is-file"},
        {"cwd": R + "/outside", "base": "../base", "true": b, "kind": "rel-from-sibling"},
        {"cwd": R, "base": R + "/base/dlink_out", "true": R + "/outside", "kind": "abs-symlink-to-outside-dir"},
        {"cwd": R + "/base", "base": "dlink_in/..", "true": b, "kind": "rel-symlink-dotdot"},
        {"cwd": R, "base": R + "/base/loop_a", "true": None, "kind": "abs-symlink-loop"},
        {"cwd": R, "base": "base/dangling", "true": None, "kind": "rel-dangling"},
        {"cwd": R, "base": "/", "true": "/", "kind": "root"},
        {"cwd": R + "/base", "base": "dlink_out/..", "true": R, "kind": "rel-lexical-differs-from-real"},
    ]


def locations_exhaustive(R: str, maxlen: int) -> list[str]:
    """All component sequences of length <= maxlen over TOKENS, relative and with absolute roots."""
    locs = []
    prefixes = ["", "/", R + "/base/", R + "/outside/", R + "/basex/"]
    for n in range(0, maxlen + 1):
        for seq in itertools.product(TOKENS, repeat=n):
            body = "/".join(seq)
            locs.append(body)
    out = []
    for pre in prefixes:
        for body in locs:
            if pre and len(body.split("/")) > max(1, maxlen - 1) and body:
                continue
            out.append(pre + body)
    # dedupe, keep order
    seen = set()
    res = []
    for l in out:
        if l not in seen:
            seen.add(l)
            res.append(l)
    return res


def random_location(rng, R: str) -> str:
    n = rng.randrange(1, 7)
    toks = TOKENS + EXTRA_TOKENS
    seq = [rng.choice(TOKENS) if rng.random() < 0.5 else rng.choice(toks) for _ in range(n)]
    body = "/".join(seq)
    r = rng.random()
    if r < 0.7:
        return body
    if r < 0.8:
        return "/" + body
    return rng.choice([R + "/base/", R + "/outside/", R + "/basex/", R + "/", R + "/base//", "/" + R + "/base/"]) + body


# --------------------------------------------------------------------------- workers


KFUEL = 40  # Linux MAXSYMLINKS
PFUEL = 200


def fs_json(desc: dict) -> dict:
    return {"entries": desc["entries"],
            "inodes": [[info["id"], info["nlink"], info["data"]] for info in desc["inodes"].values()]}


def _work(job: dict) -> dict:
    """One chunk: fixed base spelling, list of (loc, ep, offset, length)."""
    part = Part()
    tree, desc, sp = job["tree"], job["desc"], job["sp"]
    R = tree["R"]
    os.chdir(sp["cwd"])
    id_of = {info["id"]: info for info in desc["inodes"].values()}
    queries = []
    obs_list = []
    for loc, ep, off, ln in job["cases"]:
        case = {"cwd": sp["cwd"], "base": sp["base"], "loc": loc, "ep": ep, "offset": off, "length": ln, "base_kind": sp["kind"]}
        t = make_tensor(sp["base"], loc, off, ln)
        obs = real_read(t, ep, tree["scratch"], R)
        oracle(part, tree, desc, case, obs, sp["true"])
        obs_list.append((case, obs))
        queries.append([sp["base"], loc, off or 0, NBYTES if ln is None else ln, ep])
    outs = lean_batch([{"m": "path.reads", "fs": fs_json(desc), "cwd": sp["cwd"], "kfuel": KFUEL, "fuel": PFUEL, "queries": queries}])[0]
    if "r" not in outs:
        part.disagree("model error", {"sp": sp}, outs, None)
        return part
    for (case, obs), out in zip(obs_list, outs["r"]):
        layer = obs.get("layer", "ok" if obs["r"] == "ok" else "?")
        part.case([case["cwd"].replace(R, "$R"), case["base"].replace(R, "$R"), case["loc"].replace(R, "$R"), case["ep"], case["offset"], case["length"]],
                  nontrivial=True, sample=dict(case), base=case["base_kind"], ep=case["ep"],
                  outcome=(obs["r"] if obs["r"] == "ok" else "raised-" + layer), ncomp=min(len(case["loc"].split("/")), 6))
        compare(part, case, obs, out, desc["inodes"], R)
    return part


def compare(part, case: dict, obs: dict, out: dict, id_of: dict, R: str) -> None:
    """Model verdict vs the real read: accept/reject, bytes, which layer rejects, whether the tensor's path was
    opened by this call and which inode that reached."""
    if "own_opens" in obs:
        m_open = out.get("opened")
        if (m_open is None) != (obs["own_opens"] == 0):
            part.disagree("open / no open of the tensor's path differs", case, out, obs)
        elif obs["own_opens"] > 1:
            part.disagree("the tensor's path was opened more than once in one call", case, out, obs)
        elif m_open is not None and id_of:
            try:
                own_abs = os.path.join(case["cwd"], case["base"], case["loc"])
                st_ = os.stat(own_abs)
                info = id_of.get((st_.st_dev, st_.st_ino))
                real_id = info["id"] if info is not None else "fail"
            except (OSError, ValueError):
                real_id = "fail"
            if real_id != m_open and not (real_id != "fail" and m_open == "fail" and os.path.isdir(own_abs)):
                part.disagree("opened inode differs", case, out, {**obs, "real_opened": real_id})
    if out["r"] != obs["r"]:
        part.disagree("accept/reject differs", case, out, obs)
        return
    if obs["r"] == "ok":
        if out.get("bytes") != obs["bytes"]:
            part.disagree("bytes differ", case, out, obs)
        return
    layer = obs.get("layer")
    mlayer = {"c1": "c1", "c2": "c2", "c3": "c3"}.get(out["v"], "open")
    if layer in ("c1", "c2", "c3", "open"):
        if mlayer != layer:
            part.disagree("rejecting layer differs", case, out, obs)
    elif layer == "other" and mlayer in ("c1", "c2", "c3"):
        # e.g. numpy's ValueError for a short file: the model must have reached the open
        part.disagree("rejecting layer differs (implementation raised after the check)", case, out, obs)


def _realpath_work(job: dict) -> dict:
    """os.path.realpath / os.lstat / os.stat vs the model on the same tree."""
    import stat as _stat

    part = Part()
    desc, cwd, paths, R = job["desc"], job["cwd"], job["paths"], job["R"]
    os.chdir(cwd)
    key_of = {k: info["id"] for k, info in desc["inodes"].items()}

    def show(p, follow):
        try:
            st = os.stat(p) if follow else os.lstat(p)
        except (OSError, ValueError):
            return "none"
        if _stat.S_ISLNK(st.st_mode):
            return "l" + os.readlink(p)
        if _stat.S_ISDIR(st.st_mode):
            return "d"
        return ("f" if _stat.S_ISREG(st.st_mode) else "o") + f"{key_of.get((st.st_dev, st.st_ino), '?')}"

    fsj = fs_json(desc)
    outs = lean_batch([
        {"m": "path.realpaths", "fs": fsj, "cwd": cwd, "kfuel": KFUEL, "fuel": PFUEL, "paths": paths},
        {"m": "path.lstats", "fs": fsj, "cwd": cwd, "kfuel": KFUEL, "follow": False, "paths": paths},
        {"m": "path.lstats", "fs": fsj, "cwd": cwd, "kfuel": KFUEL, "follow": True, "paths": paths},
    ])
    for o in outs:
        if "r" not in o:
            part.disagree("model error", {"cwd": cwd}, o, None)
            return part
    for i, p in enumerate(paths):
        part.case(["realpath", cwd.replace(R, "$R"), p.replace(R, "$R")], nontrivial=True, fn="realpath/lstat/stat")
        e = os.path.realpath(p)
        if outs[0]["r"][i] != e:
            part.disagree("realpath model != os.path.realpath", {"cwd": cwd, "p": p}, outs[0]["r"][i], e)
        for k, follow in ((1, False), (2, True)):
            e = show(p, follow)
            if outs[k]["r"][i] != e:
                part.disagree(("stat" if follow else "lstat") + " model != kernel", {"cwd": cwd, "p": p}, outs[k]["r"][i], e)
    return part


# --------------------------------------------------------------------------- string functions


def _remove_stale_trees(max_age_s: int = 2 * 3600) -> None:
    """Trees of runs that were killed (a finished run removes its own)."""
    import time

    tmp = tempfile.gettempdir()
    try:
        names = os.listdir(tmp)
    except OSError:
        return
    for n in names:
        if n.startswith("irverif-c10-"):
            p = os.path.join(tmp, n)
            try:
                if time.time() - os.lstat(p).st_mtime > max_age_s:
                    shutil.rmtree(p, ignore_errors=True) if os.path.isdir(p) and not os.path.islink(p) else os.remove(p)
            except OSError:
                pass


def check_links(part, desc: dict, what: str) -> None:
    """Link counts of the described tree are sound (hypothesis LinkCountSound of C10_single_name): an inode has
    at most st_nlink names in the tree."""
    for info in desc["inodes"].values():
        if len(info["locs"]) > info["nlink"]:
            part.disagree("described tree violates link-count soundness", {"tree": what, "locs": info["locs"]}, info["nlink"], len(info["locs"]))


def string_functions(ctx: Ctx) -> None:
    alpha = ["/", ".", "a", "b"]
    n = ctx.pick(6, 7)
    strs = ["".join(t) for k in range(0, n + 1) for t in itertools.product(alpha, repeat=k)]
    for _ in range(ctx.pick(2000, 20000)):
        k = ctx.rng.randrange(1, 14)
        strs.append("".join(ctx.rng.choice(["/", "/", ".", "..", "a", "bc", "a.b", " ", "é"]) for _ in range(k)))
    reqs, exp, cases = [], [], []
    for s in strs:
        reqs.append({"m": "path.normpath", "p": s}); exp.append(posixpath.normpath(s)); cases.append(("normpath", s))
        reqs.append({"m": "path.dirname", "p": s}); exp.append(posixpath.dirname(s)); cases.append(("dirname", s))
        reqs.append({"m": "path.split", "p": s}); exp.append(list(posixpath.split(s))); cases.append(("split", s))
    nex = sum(len(alpha) ** k for k in range(0, n + 1))
    short = [s for s in strs[:nex] if len(s) <= 3]
    pairs = [(a, b) for a in short for b in short]
    pairs += [(ctx.rng.choice(strs), ctx.rng.choice(strs)) for _ in range(ctx.pick(5000, 50000))]
    for a, b in pairs:
        reqs.append({"m": "path.join", "a": a, "b": b}); exp.append(posixpath.join(a, b)); cases.append(("join", [a, b]))
    old = os.getcwd()
    try:
        for cwd in ("/", os.path.realpath(tempfile.gettempdir())):
            os.chdir(cwd)
            for a in short + strs[-500:]:
                reqs.append({"m": "path.abspath", "cwd": cwd, "p": a}); exp.append(posixpath.abspath(a)); cases.append(("abspath", [cwd, a]))
    finally:
        os.chdir(old)
    ctx.exhaustive_scopes.append(f"normpath/dirname/split: all strings over {{'/','.','a','b'}} of length <= {n}; join: all pairs of such strings of length <= 3")
    outs = lean_batch_parallel(reqs)
    for (fn, arg), e, o in zip(cases, exp, outs):
        ctx.case([fn, arg], nontrivial=bool(arg), fn=fn)
        if o.get("r") != e:
            ctx.disagree(f"{fn} model != posixpath", {"fn": fn, "arg": arg}, o, e)


# --------------------------------------------------------------------------- load()


def load_cases(ctx: Ctx, tree: dict, desc: dict) -> None:
    """ir.load with absolute / relative / bare model paths: base_dir derivation + reads through it."""
    import numpy as np
    import onnx_ir as ir

    R = tree["R"]
    locs = ["f", "d/f", "link_in", "link_out", "../outside/canary", "../basex/f", R + "/outside/canary", "hard",
            "dlink_out/f", "d/../f", "./f", "d//f", "../base/f", "dlink_in/f", "chain", "d/up/f", "d/hard_in", "nothing"]
    # one model file with one external initializer per location
    vals = []
    for i, loc in enumerate(locs):
        t = ir.ExternalTensor(loc, 0, NBYTES, ir.DataType.UINT8, shape=ir.Shape([NBYTES]), name=f"t{i}")
        v = ir.Value(name=f"t{i}", const_value=t, shape=ir.Shape([NBYTES]), type=ir.TensorType(ir.DataType.UINT8))
        vals.append(v)
    graph = ir.Graph([], [], nodes=[], initializers=vals, name="g", opset_imports={"": 20})
    model = ir.Model(graph, ir_version=10)
    mpath = os.path.join(R, "base", "m.onnx")
    ir.save(model, mpath)
    mpath_up = os.path.join(R, "m.onnx")  # the same model one level up: opened through "<symlinked dir>/.."
    ir.save(model, mpath_up)
    desc_m = describe_tree(R)  # the tree including the model files
    rname = os.path.basename(R)
    b = R + "/base"
    spellings = [
        {"cwd": b, "path": "dlink_out/../m.onnx", "true": R, "kind": "symlink-dotdot"},
        {"cwd": R, "path": "base/dlink_in/up/../m.onnx", "true": R, "kind": "symlink-up-dotdot"},
        {"cwd": R, "path": mpath, "true": b, "kind": "abs"},
        {"cwd": R, "path": "base/m.onnx", "true": b, "kind": "rel"},
        {"cwd": R, "path": "./base/m.onnx", "true": b, "kind": "rel-dot"},
        {"cwd": b, "path": "m.onnx", "true": b, "kind": "bare"},
        {"cwd": b, "path": "./m.onnx", "true": b, "kind": "dot-bare"},
        {"cwd": R, "path": "base//m.onnx", "true": b, "kind": "double-sep"},
        {"cwd": R, "path": "blink/m.onnx", "true": b, "kind": "via-symlink"},
        {"cwd": R, "path": f"../{rname}/base/m.onnx", "true": b, "kind": "updown"},
        {"cwd": b + "/d", "path": "../m.onnx", "true": b, "kind": "dotdot"},
        {"cwd": R, "path": R + "//base///m.onnx", "true": b, "kind": "abs-multi-sep"},
    ]
    old = os.getcwd()
    try:
        for sp in spellings:
            os.chdir(sp["cwd"])
            out = lean_batch([{"m": "path.loadbase", "cwd": sp["cwd"], "p": sp["path"]}, {"m": "path.loadbase_unfixed", "p": sp["path"]}])
            m = ir.load(sp["path"])
            tensors = [v.const_value for v in m.graph.initializers.values()]
            got_base = os.fspath(tensors[0].base_dir)
            ctx.case(["load", sp["kind"], sp["path"].replace(R, "$R")], sample={"load": sp["path"], "cwd": sp["cwd"]}, load=sp["kind"])
            if got_base == "":
                ctx.fail(f"load-empty-base:{sp['kind']}", "ir.load assigned an empty base directory: containment checks are disabled",
                         {"cwd": sp["cwd"], "path": sp["path"], "base_dir": got_base})
            try:
                same = os.path.samefile(got_base, sp["true"])
            except OSError:
                same = False
            if got_base != "" and not same:
                ctx.fail(f"load-wrong-base:{sp['kind']}", "the base directory assigned by ir.load is not the directory the model file was opened from",
                         {"cwd": sp["cwd"], "path": sp["path"], "base_dir": got_base, "model_dir": sp["true"]})
            if got_base != out[0].get("r"):
                if got_base == out[1].get("r") and got_base == "":
                    ctx.count("load-base-matches-unfixed-model(D23)")
                else:
                    ctx.disagree("load base_dir derivation differs from model", {"cwd": sp["cwd"], "path": sp["path"]}, out, got_base)
            # reads are made from the load-time directory and, after a chdir, from two other directories
            read_cwds = [sp["cwd"], R + "/outside", R]
            groups: dict = {c: ([], []) for c in read_cwds}
            for k, t in enumerate(tensors):
                ep = ENTRY_POINTS[(k + spellings.index(sp)) % len(ENTRY_POINTS)]
                rc = read_cwds[(k + spellings.index(sp)) % len(read_cwds)]
                os.chdir(rc)
                case = {"cwd": rc, "load_cwd": sp["cwd"], "base": got_base, "loc": os.fspath(t.location), "ep": ep, "via": "load-" + sp["kind"], "model_path": sp["path"]}
                obs = real_read(t, ep, tree["scratch"], R)
                oracle(ctx, tree, desc, case, obs, sp["true"])
                ctx.case(["load-read", sp["kind"], case["loc"].replace(R, "$R"), ep, rc.replace(R, "$R")], load_read=sp["kind"], chdir=("same" if rc == sp["cwd"] else "changed"),
                         outcome=(obs["r"] if obs["r"] == "ok" else "raised-" + obs.get("layer", "?")))
                # the model reads with the base directory the MODEL derives from the model path
                groups[rc][0].append([out[0].get("r", ""), case["loc"], 0, NBYTES, ep])
                groups[rc][1].append((case, obs))
            for rc, (queries, obs_l) in groups.items():
                if not queries:
                    continue
                mo = lean_batch([{"m": "path.reads", "fs": fs_json(desc_m), "cwd": rc, "kfuel": KFUEL, "fuel": PFUEL, "queries": queries}])[0]
                if "r" not in mo:
                    ctx.disagree("model error", {"load": sp}, mo, None)
                else:
                    for (case, obs), o in zip(obs_l, mo["r"]):
                        compare(ctx, case, obs, o, desc_m["inodes"], R)
    finally:
        os.chdir(old)
        os.remove(mpath)
        os.remove(mpath_up)


# --------------------------------------------------------------------------- load(): nested models

NEST_LOCS = ["f", "d/f", "link_in", "../outside/canary", "$R/outside/canary", "link_out", "hard", "dlink_out/f", "../basex/f"]


def build_nested_model(R: str):
    """A model whose external tensors sit at every kind of position: main-graph initializers, TENSOR and
    TENSORS attributes of main-graph nodes, initializers and node attributes of subgraphs (GRAPH attributes
    of If/Loop nodes and a GRAPHS attribute) at depth 1, 2 and 3.  Returns (model, description tree for the
    Lean walker model, list of tensor names)."""
    import onnx_ir as ir

    names: list[str] = []

    def ext(pos: str, k: int):
        loc = NEST_LOCS[k].replace("$R", R)
        name = f"{pos}#{k}"
        names.append(name)
        return ir.ExternalTensor(loc, 0, NBYTES, ir.DataType.UINT8, shape=ir.Shape([NBYTES]), name=name)

    def inits(pos: str):
        vals = []
        for k in range(len(NEST_LOCS)):
            t = ext(pos, k)
            vals.append(ir.Value(name=t.name, const_value=t, shape=ir.Shape([NBYTES]), type=ir.TensorType(ir.DataType.UINT8)))
        return vals

    def tensor_nodes(pos: str):
        """one Constant-like node per location (TENSOR attribute) + one node with a TENSORS attribute"""
        nodes, desc = [], []
        for k in range(len(NEST_LOCS)):
            t = ext(pos + ".tattr", k)
            nodes.append(ir.Node("", "Constant", [], [ir.AttrTensor("value", t)], num_outputs=1, name=f"{pos}.c{k}"))
            desc.append({"t": [t.name], "g": []})
        ts = [ext(pos + ".tsattr", k) for k in range(len(NEST_LOCS))]
        nodes.append(ir.Node("test", "ManyTensors", [], [ir.AttrTensors("values", ts)], num_outputs=1, name=f"{pos}.many"))
        desc.append({"t": [t.name for t in ts], "g": []})
        return nodes, desc

    def graph(pos: str, depth: int, maxdepth: int):
        iv = inits(pos + ".init")
        nodes, ndesc = tensor_nodes(pos)
        if depth < maxdepth:
            then_g, then_d = graph(pos + ".then", depth + 1, maxdepth)
            else_g, else_d = graph(pos + ".else", depth + 1, depth + 1)  # the else branch does not nest further
            nodes.append(ir.Node("", "If", [], [ir.AttrGraph("then_branch", then_g), ir.AttrGraph("else_branch", else_g)], num_outputs=1, name=f"{pos}.if"))
            ndesc.append({"t": [], "g": [then_d, else_d]})
            if depth == 0:
                g1, d1 = graph(pos + ".gs0", depth + 1, depth + 1)
                g2, d2 = graph(pos + ".gs1", depth + 1, depth + 2)
                nodes.append(ir.Node("test", "ManyGraphs", [], [ir.AttrGraphs("bodies", [g1, g2])], num_outputs=1, name=f"{pos}.graphs"))
                ndesc.append({"t": [], "g": [d1, d2]})
                body, bd = graph(pos + ".loop", depth + 1, depth + 1)
                nodes.append(ir.Node("", "Loop", [], [ir.AttrGraph("body", body)], num_outputs=1, name=f"{pos}.loop"))
                ndesc.append({"t": [], "g": [bd]})
        g = ir.Graph([], [], nodes=nodes, initializers=iv, name=pos, opset_imports={"": 20, "test": 1} if depth == 0 else None)
        return g, {"i": [v.name for v in iv], "n": ndesc}

    g, d = graph("main", 0, 3)
    # model-local functions: no initializers at the top of a function body (FunctionProto has none), but tensor
    # attributes of its nodes and initializers / attributes of graphs nested in it
    funcs, fdescs = [], []
    for fi, maxdepth in enumerate((1, 2)):
        pos = f"func{fi}"
        nodes, ndesc = tensor_nodes(pos)
        then_g, then_d = graph(pos + ".then", 1, maxdepth)
        nodes.append(ir.Node("", "If", [], [ir.AttrGraph("then_branch", then_g)], num_outputs=1, name=f"{pos}.if"))
        ndesc.append({"t": [], "g": [then_d]})
        fg = ir.Graph([], [], nodes=nodes, name=pos, opset_imports={"": 20, "test": 1})
        funcs.append(ir.Function("test", f"F{fi}", graph=fg, attributes=[]))
        fdescs.append({"i": [], "n": ndesc})
    return ir.Model(g, ir_version=10, functions=funcs), {"main": d, "funcs": fdescs}, names


def every_external_tensor(model) -> dict:
    """Independent of onnx_ir's own walkers: every ExternalTensor reachable anywhere in the model (main graph,
    bodies of model-local functions, and every graph nested in them)."""
    import onnx_ir as ir

    found: dict = {}
    stack = [model.graph] + [f.graph for f in model.functions.values()]
    while stack:
        g = stack.pop()
        for v in g.initializers.values():
            if isinstance(v.const_value, ir.ExternalTensor):
                found[v.const_value.name] = v.const_value
        for node in g:
            for a in node.attributes.values():
                if a.type == ir.AttributeType.TENSOR and isinstance(a.value, ir.ExternalTensor):
                    found[a.value.name] = a.value
                elif a.type == ir.AttributeType.TENSORS:
                    for t in a.value:
                        if isinstance(t, ir.ExternalTensor):
                            found[t.name] = t
                elif a.type == ir.AttributeType.GRAPH:
                    stack.append(a.value)
                elif a.type == ir.AttributeType.GRAPHS:
                    stack.extend(a.value)
    return found


def nested_load_cases(ctx: Ctx, tree: dict, desc: dict) -> None:
    """ir.load of a model with external tensors at every nesting position: EVERY reachable external tensor must
    get the non-empty model-directory base and must then accept/reject like the model."""
    import onnx_ir as ir

    R = tree["R"]
    b = R + "/base"
    model, wdesc, names = build_nested_model(R)
    mpath = os.path.join(b, "nested.onnx")
    ir.save(model, mpath)
    desc_m = describe_tree(R)
    rname = os.path.basename(R)
    spellings = [
        {"cwd": R, "path": mpath, "kind": "abs"},
        {"cwd": R, "path": "base/nested.onnx", "kind": "rel"},
        {"cwd": b, "path": "nested.onnx", "kind": "bare"},
        {"cwd": b, "path": "./nested.onnx", "kind": "dot-bare"},
        {"cwd": R, "path": "blink//nested.onnx", "kind": "via-symlink"},
        {"cwd": b + "/d", "path": "../nested.onnx", "kind": "dotdot"},
        {"cwd": R + "/outside", "path": f"../../{rname}/base/nested.onnx", "kind": "from-outside"},
    ]
    # the walker of the Lean model on the same nesting tree: which tensors does set_base_dir reach?
    wout = lean_batch([{"m": "path.walker", "tree": wdesc}])[0]
    model_reached = set(wout.get("walker", []))
    model_all = set(wout.get("reach", []))
    if "walker" not in wout:
        ctx.disagree("model error (walker)", {"nested": True}, wout, None)
    old = os.getcwd()
    try:
        for si, sp in enumerate(spellings):
            os.chdir(sp["cwd"])
            lb = lean_batch([{"m": "path.loadbase", "cwd": sp["cwd"], "p": sp["path"]}])[0].get("r")
            m = ir.load(sp["path"])
            tensors = every_external_tensor(m)
            if set(tensors) != set(names):
                ctx.disagree("nested model: tensors found after load differ from those saved", {"load": sp}, sorted(set(names) ^ set(tensors))[:5], None)
            if si == 0:
                # the real walker vs the model walker vs full reachability
                real_reached = {t.name for g_ in [m.graph] + [f.graph for f in m.functions.values()]
                                for t in ir.external_data._all_tensors(g_, include_attributes=True) if isinstance(t, ir.ExternalTensor)}
                if real_reached != model_reached:
                    ctx.disagree("_all_tensors reaches other tensors than the model walker", {"load": sp}, sorted(model_reached ^ real_reached)[:8], None)
                if model_all != set(names):
                    ctx.disagree("model reach differs from the tensors of the model", {"load": sp}, sorted(model_all ^ set(names))[:8], None)
            read_cwds = [sp["cwd"], R + "/outside", R + "/basex"]
            groups: dict = {c: ([], []) for c in read_cwds}
            for k, name in enumerate(sorted(tensors)):
                t = tensors[name]
                pos = name.split("#")[0]
                poskind = (("func-" if pos.startswith("func") else "") + ("init" if ".init" in pos else "tensors-attr" if pos.endswith(".tsattr") else "tensor-attr")
                           + f"-depth{pos.count('.then') + pos.count('.else') + pos.count('.gs') + pos.count('.loop')}")
                got_base = os.fspath(t.base_dir)
                ep = ENTRY_POINTS[(k + si) % len(ENTRY_POINTS)]
                rc = read_cwds[(k // len(NEST_LOCS) + si) % len(read_cwds)]
                os.chdir(rc)
                case = {"cwd": rc, "load_cwd": sp["cwd"], "base": got_base, "loc": os.fspath(t.location), "ep": ep, "via": "nested-load-" + sp["kind"],
                        "model_path": sp["path"], "position": pos}
                if got_base == "":
                    ctx.fail(f"load-empty-base:{poskind}", "after ir.load an external tensor of the model still has an empty base directory: "
                             "its containment checks are disabled and its location resolves against the cwd", case)
                elif got_base != lb:
                    ctx.disagree("nested load: base_dir differs from the model's derivation", case, lb, got_base)
                if got_base != "" and not os.path.samefile(got_base, b):
                    ctx.fail(f"load-wrong-base:nested-{sp['kind']}", "the base directory assigned by ir.load is not the directory the model file was opened from", case)
                obs = real_read(t, ep, tree["scratch"], R)
                oracle(ctx, tree, desc, case, obs, b)
                ctx.case(["nested-load", sp["kind"], name, ep], nested_position=poskind, nested_chdir=("same" if rc == sp["cwd"] else "changed"),
                         nested_outcome=(obs["r"] if obs["r"] == "ok" else "raised-" + obs.get("layer", "?")))
                groups[rc][0].append([lb or "", case["loc"], 0, NBYTES, ep])
                groups[rc][1].append((case, obs))
            for rc, (queries, obs_l) in groups.items():
                if not queries:
                    continue
                mo = lean_batch([{"m": "path.reads", "fs": fs_json(desc_m), "cwd": rc, "kfuel": KFUEL, "fuel": PFUEL, "queries": queries}])[0]
                if "r" not in mo:
                    ctx.disagree("model error", {"load": sp}, mo, None)
                else:
                    for (case, obs), o in zip(obs_l, mo["r"]):
                        compare(ctx, case, obs, o, desc_m["inodes"], R)
    finally:
        os.chdir(old)
        os.remove(mpath)


# --------------------------------------------------------------------------- run


SLICES = [(0, NBYTES), (2, 4), (0, 3), (4, NBYTES), (None, None), (None, NBYTES), (3, None)]  # (4, 8) and (3, None) exceed the file


def run(ctx: Ctx) -> None:
    ctx.rule = ("one case = (cwd, base spelling, location string, entry point, offset, length) read on the real tree; distinct by "
                "that tuple with the temp root abstracted; all are non-trivial (a real ExternalTensor read is attempted); "
                "string-function / realpath cases are distinct by (function, argument)")
    if isinstance(getattr(ctx, "proof", None), dict):
        ctx.proof.setdefault("extra_trusted", []).append(
            "model of the kernel's path resolution and of CPython posixpath (join/normpath/abspath/dirname/realpath): "
            "validated differentially on every run, not verified against the kernel or CPython sources")
    _remove_stale_trees()
    string_functions(ctx)
    tree = build_tree()
    old = os.getcwd()
    try:
        desc = describe_tree(tree["R"])
        check_links(ctx, desc, "fixed tree")
        R = tree["R"]
        sps = base_spellings(R)
        maxlen = ctx.pick(3, 4)
        ex_locs = locations_exhaustive(R, maxlen)
        ctx.exhaustive_scopes.append(
            f"locations: all component sequences of length <= {maxlen} over {TOKENS} (relative), and of length <= "
            f"{max(1, maxlen - 1)} after the absolute roots '/', $R/base/, $R/outside/, $R/basex/ x {len(sps)} base spellings "
            "(entry points round-robin; all entry points for relative locations of length <= 2)")
        jobs = []
        corpus = load_corpus("C10")
        for si, sp in enumerate(sps):
            cases = []
            for c in corpus:
                if "loc" in c:
                    cases.append((c["loc"].replace("$R", R), c.get("ep", "numpy"), c.get("offset", 0), c.get("length", NBYTES)))
            for li, loc in enumerate(ex_locs):
                if len(loc.split("/")) <= 2 and not loc.startswith("/"):
                    for ep in ENTRY_POINTS:
                        cases.append((loc, ep, 0, NBYTES))
                else:
                    cases.append((loc, ENTRY_POINTS[(li + si) % len(ENTRY_POINTS)], 0, NBYTES))
            for _ in range(ctx.pick(300, 6000)):
                off, ln = SLICES[0] if ctx.rng.random() < 0.6 else ctx.rng.choice(SLICES)
                cases.append((random_location(ctx.rng, R), ctx.rng.choice(ENTRY_POINTS), off, ln))
            nchunks = ctx.pick(4, 8)
            k = max(1, (len(cases) + nchunks - 1) // nchunks)
            for i in range(0, len(cases), k):
                jobs.append({"tree": tree, "desc": desc, "sp": sp, "cases": cases[i:i + k]})
        for p in pmap(_work, jobs):
            ctx.merge(p)
        # realpath / lstat / stat of the model vs os.path.realpath and the kernel
        rp_jobs = []
        rlocs = locations_exhaustive(R, ctx.pick(3, 4))
        for cwd, pre in ((R, ""), (R + "/base", ""), (R + "/base/d", ""), (R, R + "/base/"), (R, R + "/"), (R + "/outside", "")):
            paths = [pre + l for l in rlocs if not l.startswith("/")] if pre else list(rlocs)
            paths = [p for p in paths if p != ""]
            for _ in range(ctx.pick(300, 3000)):
                paths.append(pre + random_location(ctx.rng, R))
            k = max(1, (len(paths) + 3) // 4)
            for i in range(0, len(paths), k):
                rp_jobs.append({"desc": desc, "cwd": cwd, "paths": paths[i:i + k], "R": R})
        ctx.exhaustive_scopes.append("realpath/lstat/stat: the same location sequences as paths, from 4 working directories and 2 absolute prefixes")
        for p in pmap(_realpath_work, rp_jobs):
            ctx.merge(p)
        load_cases(ctx, tree, desc)
        nested_load_cases(ctx, tree, desc)
        odd_cases(ctx, tree, desc)
        size_zero_cases(ctx, tree, desc)
        stateful_sequences(ctx)
        random_trees(ctx)
    finally:
        os.chdir(old)
        shutil.rmtree(tree["top"], ignore_errors=True)


def odd_cases(ctx: Ctx, tree: dict, desc: dict) -> None:
    """Unusual strings and os.PathLike arguments: NUL, very long names, unicode, backslashes,
    pathlib objects, base_dir assigned after construction.  Oracle on all; model compared unless the
    string contains NUL (outside the model's alphabet)."""
    import pathlib

    R = tree["R"]
    b = R + "/base"
    locs = ["f\0", "\0", "../outside/canary\0", "f\0/../../outside/canary", "link_out\0", "x" * 300, "d/" + "y" * 5000,
            "é/f", "ｆ", "f ", " f", "f\n", "..\\outside\\canary", "~/canary", "$HOME/x", "%2e%2e/outside/canary",
            "..%2foutside%2fcanary", "....//outside/canary", ".../outside/canary", "..../f", ". /f", ".. /outside/canary",
            "d/..\\..\\outside/canary", "\\..\\outside", "f/", "f/.", "f/..", "f/../f", "link_in/", "link_in/.",
            "link_out/", "dlink_out", "dlink_out/", "dlink_out/.", "dlink_out/..", "dlink_out/../base/f", "dlink_in/../f",
            "dlink_in/../../outside/canary", "d/up/../outside/canary", "d/up/../base/f", "back", "../outside/back/f",
            "hard/", "dangling/..", "dangling_out/../f", "loop_a/../f", "loop_a/f", "chain_in", "link_abs_in",
            "link_abs_out", "link_sib", "d/e/../../f", "d/e/../../../outside/f", "//", "/", "///" + R.lstrip("/") + "/base/f",
            "//" + R.lstrip("/") + "/base/f", "//" + R.lstrip("/") + "/outside/canary"]
    old = os.getcwd()
    try:
        os.chdir(R)
        queries, obs_l = [], []
        k = 0
        for base in (b, "base", "./base//", R + "/blink"):
            for loc in locs:
                k += 1
                ep = ENTRY_POINTS[k % len(ENTRY_POINTS)]
                variant = k % 4
                case = {"cwd": R, "base": base, "loc": loc, "ep": ep, "offset": 0, "length": NBYTES, "via": ["str", "pathlike-loc", "pathlike-base", "base-assigned-later"][variant]}
                bobj, lobj = base, loc
                if variant == 1 and "\0" not in loc and str(pathlib.PurePosixPath(loc)) == loc:
                    lobj = pathlib.PurePosixPath(loc)
                if variant == 2 and str(pathlib.PurePosixPath(base)) == base:
                    bobj = pathlib.PurePosixPath(base)
                try:
                    if variant == 3:
                        t = make_tensor("", lobj)
                        t.base_dir = bobj
                    else:
                        t = make_tensor(bobj, lobj)
                except Exception as e:  # noqa: BLE001  constructing never reads
                    ctx.count("odd-construct-raised")
                    continue
                obs = real_read(t, ep, tree["scratch"], R)
                oracle(ctx, tree, desc, case, obs, b)
                ctx.case(["odd", base.replace(R, "$R"), loc.replace(R, "$R"), ep, variant], odd=case["via"],
                         outcome=(obs["r"] if obs["r"] == "ok" else "raised-" + obs.get("layer", "?")))
                if "\0" not in loc:
                    queries.append([base, loc, 0, NBYTES, ep])
                    obs_l.append((case, obs))
        mo = lean_batch([{"m": "path.reads", "fs": fs_json(desc), "cwd": R, "kfuel": KFUEL, "fuel": PFUEL, "queries": queries}])[0]
        if "r" not in mo:
            ctx.disagree("model error", {"odd": True}, mo, None)
        else:
            for (case, obs), o in zip(obs_l, mo["r"]):
                compare(ctx, case, obs, o, desc["inodes"], R)
    finally:
        os.chdir(old)


# --------------------------------------------------------------------------- stateful sequences

MAPPING_EPS = ("numpy", "tobytes", "array", "serialize_raw")


def build_state_tree() -> dict:
    top = os.path.realpath(tempfile.mkdtemp(prefix="irverif-c10-"))
    R = os.path.join(top, "r")
    os.mkdir(R)
    for d in ("base", "base/s", "base/d", "outside", "outside/s", "other"):
        os.mkdir(os.path.join(R, d))
    files = {
        "base/w": b"INSIDE_W", "base/f": b"INSIDE_F", "base/s/w": b"INSIDESW", "base/d/w": b"INSIDEDW",
        "outside/canary": b"CANARY_C", "outside/hc": b"CANARY_H", "outside/s/w": b"CANARYSW",
    }
    for rel, c in files.items():
        _w(os.path.join(R, rel), c)
    os.symlink("../outside/canary", os.path.join(R, "other/w"))
    os.symlink("../outside/canary", os.path.join(R, "base/wlink"))
    scratch = os.path.join(top, "scratch")
    os.mkdir(scratch)
    return {"top": top, "R": R, "scratch": scratch, "canaries": sorted(v.decode() for v in files.values() if v.startswith(b"CANARY"))}


def _mut_none(R, t, loc):
    return None


def _mut_symlink_out(R, t, loc):
    p = os.path.join(R, "base", loc)
    os.remove(p)
    os.symlink(os.path.join(R, "outside/canary"), p)


def _mut_hardlink_out(R, t, loc):
    p = os.path.join(R, "base", loc)
    os.remove(p)
    os.link(os.path.join(R, "outside/hc"), p)


def _mut_symlink_in(R, t, loc):
    p = os.path.join(R, "base", loc)
    os.remove(p)
    os.symlink(os.path.join(R, "base/f"), p)


def _mut_replace_in(R, t, loc):
    p = os.path.join(R, "base", loc)
    os.remove(p)
    _w(p, b"INSIDE_N")


def _mut_rewrite_in_place(R, t, loc):
    with open(os.path.join(R, "base", loc), "r+b") as f:
        f.write(b"INSIDE_M")


def _mut_add_hardlink(R, t, loc):
    os.link(os.path.join(R, "base", loc), os.path.join(R, "outside/extra"))


def _mut_delete(R, t, loc):
    os.remove(os.path.join(R, "base", loc))


def _mut_dir_swap(R, t, loc):
    shutil.rmtree(os.path.join(R, "base/s"))
    os.symlink("../outside/s", os.path.join(R, "base/s"))


def _mut_base_other(R, t, loc):
    t.base_dir = R + "/other"
    return (R + "/other", R + "/other")


def _mut_base_sub(R, t, loc):
    t.base_dir = R + "/base/d"
    return (R + "/base/d", R + "/base/d")


def _mut_base_rel(R, t, loc):
    t.base_dir = "base"
    return ("base", R + "/base")


def _mut_base_outside(R, t, loc):
    t.base_dir = R + "/outside"
    return (R + "/outside", R + "/outside")


def _mut_base_empty(R, t, loc):
    t.base_dir = ""
    return ("", None)


def _mut_base_main(R, t, loc):
    t.base_dir = R + "/base"
    return (R + "/base", R + "/base")


def _mut_release(R, t, loc):
    t.release()
    return "release"


MUTATIONS = {
    "none": _mut_none, "symlink_out": _mut_symlink_out, "hardlink_out": _mut_hardlink_out, "symlink_in": _mut_symlink_in,
    "replace_in": _mut_replace_in, "rewrite_in_place": _mut_rewrite_in_place, "add_hardlink": _mut_add_hardlink,
    "delete": _mut_delete, "dir_swap": _mut_dir_swap, "base_other": _mut_base_other, "base_sub": _mut_base_sub,
    "base_rel": _mut_base_rel, "base_outside": _mut_base_outside, "base_empty": _mut_base_empty, "base_main": _mut_base_main,
    "release": _mut_release,
}


def run_scenario(part, loc: str, steps: list, label: str) -> None:
    """steps: list of ("call", ep) | ("mut", name).  One tensor, one fresh tree; oracle after every
    call; the whole sequence is then given to the model (path.session) and compared call by call.
    A label starting with "empty-start" constructs the tensor with base_dir "" (checks skipped by design)."""
    tree = build_state_tree()
    R = tree["R"]
    loc = loc.replace("$R", R)
    old = os.getcwd()
    try:
        os.chdir(R)
        idmap: dict = {}
        known: dict = {}  # id -> latest content (also of inodes that were unlinked meanwhile)

        def snapshot():
            d = describe_tree(R, idmap)
            for info in d["inodes"].values():
                known[info["id"]] = info["data"]
            ghosts = [[i, 0, c] for i, c in known.items() if i not in {x["id"] for x in d["inodes"].values()}]
            return d, {"entries": d["entries"], "inodes": [[x["id"], x["nlink"], x["data"]] for x in d["inodes"].values()] + ghosts}

        base, true_base = R + "/base", R + "/base"
        if label.startswith("empty-start"):
            base, true_base = "", None
        t = make_tensor(base, loc)
        desc, fsj = snapshot()
        msteps = [{"op": "fs", "fs": fsj}, {"op": "base", "base": base}]
        observed = []
        mapped_id = None  # inode the tensor legitimately mapped earlier (oracle's own bookkeeping)
        for kind, arg in steps:
            if kind == "mut":
                r = MUTATIONS[arg](R, t, loc)
                if r == "release":
                    msteps.append({"op": "release"})
                    mapped_id = None
                elif isinstance(r, tuple):
                    if r[0] != base:
                        mapped_id = None  # a mapping made under another base directory does not count for this one
                    base, true_base = r
                    msteps.append({"op": "base", "base": base})
                else:
                    desc, fsj = snapshot()
                    msteps.append({"op": "fs", "fs": fsj})
                continue
            ep = arg
            case = {"cwd": R, "base": base, "loc": loc, "ep": ep, "offset": 0, "length": NBYTES, "via": "stateful", "sequence": label, "steps": steps}
            obs = real_read(t, ep, tree["scratch"], R, release=False)
            # ---- oracle (independent of the model); an empty base directory disables the checks by design
            inos = desc["inodes"]
            tb = (true_base.rstrip("/") + "/") if true_base is not None else None

            def inside(key):
                info = inos.get(key)
                return tb is None or (info is not None and info.get("kind") != "o" and info["nlink"] == 1 and all((l + "/").startswith(tb) for l in info["locs"]))

            opened_keys = []
            for p in obs["opened"]:
                key = true_location(p, R)
                if key is not None and key in inos:
                    opened_keys.append(key)
                    if not inside(key):
                        part.fail(f"stateful-outside-open:{ep}", "a call opened a file outside the base directory / with several links "
                                  "(the containment check must be made on every call that opens the path)", {**case, "obs": obs})
            if obs["r"] == "ok":
                if opened_keys:
                    good = any(inside(k) and inos[k]["data"][:NBYTES] == obs["bytes"] for k in opened_keys)
                else:
                    good = mapped_id is not None and known.get(mapped_id, "")[:NBYTES] == obs["bytes"]
                if tb is None:
                    good = True
                if not good:
                    kind_ = "canary-read" if obs["bytes"] in tree["canaries"] else "not-inside-file"
                    part.fail(f"stateful-{kind_}:{ep}", "a call returned bytes that are not those of a singly-linked regular file inside "
                              "the base directory (opened by this call, or mapped by an earlier checked call)", {**case, "obs": obs})
            if ep in MAPPING_EPS and opened_keys and obs["r"] == "ok" and tb is not None:
                mapped_id = inos[opened_keys[-1]]["id"]
            if ep == "serialize_raw" and obs["r"] == "ok":
                mapped_id = None
            msteps.append({"op": "call", "ep": ep})
            observed.append((case, obs))
            part.case(["stateful", label, len(observed)], nontrivial=True, sample={"sequence": label, "loc": loc}, stateful_ep=ep,
                      stateful_outcome=(obs["r"] if obs["r"] == "ok" else "raised-" + obs.get("layer", "?")) + ("" if obs["opened"] else "-noopen"))
        out = lean_batch([{"m": "path.session", "cwd": R, "kfuel": KFUEL, "fuel": PFUEL, "loc": loc, "offset": 0, "length": NBYTES, "steps": msteps}])[0]
        if "r" not in out or len(out["r"]) != len(observed):
            part.disagree("model error (session)", {"sequence": label}, out, None)
        else:
            for (case, obs), o in zip(observed, out["r"]):
                compare(part, case, obs, o, {}, R)
        try:
            t.release()
        except Exception:
            pass
    finally:
        os.chdir(old)
        shutil.rmtree(tree["top"], ignore_errors=True)


def _stateful_work(job: list) -> dict:
    part = Part()
    for loc, steps, label in job:
        run_scenario(part, loc, steps, label)
    return part


def stateful_sequences(ctx: Ctx) -> None:
    """(entry point, change of the tree | base_dir re-assignment | release(), entry point, tofile, release, entry point)
    exhaustively over entry points x mutations, plus random longer sequences."""
    scen = []
    for ep1 in ENTRY_POINTS:
        for mut in MUTATIONS:
            loc = "s/w" if mut == "dir_swap" else "w"
            for ep2 in ENTRY_POINTS:
                steps = [("call", ep1), ("mut", mut), ("call", ep2), ("call", "tofile_bytesio"), ("mut", "release"), ("call", ep2)]
                scen.append((loc, steps, f"{ep1}>{mut}>{ep2}"))
    for ep1 in ENTRY_POINTS:
        for ep2 in ENTRY_POINTS:
            for loc0 in ("$R/base/wlink", "$R/base/w", "$R/outside/canary"):
                steps = [("call", ep1), ("mut", "base_main"), ("call", ep2), ("call", "tofile_file"), ("mut", "base_empty"), ("call", ep2),
                         ("mut", "base_main"), ("call", ep2)]
                scen.append((loc0, steps, f"empty-start:{ep1}>rebase>{ep2}:{loc0.split('/')[-1]}"))
    ctx.exhaustive_scopes.append(f"stateful: call ep1, mutation, call ep2, tofile, release, call ep2 for all {len(ENTRY_POINTS)}x{len(MUTATIONS)}x{len(ENTRY_POINTS)} (ep1, mutation, ep2)")
    path_muts = {"file": ["symlink_out", "hardlink_out", "symlink_in", "replace_in", "delete", "rewrite_in_place", "add_hardlink"],
                 "link": ["symlink_out", "hardlink_out", "symlink_in", "replace_in", "delete"],
                 "gone": []}
    other_muts = ["none", "base_other", "base_sub", "base_rel", "base_outside", "base_empty", "base_main", "release"]
    for _ in range(ctx.pick(150, 2000)):
        steps = [("call", ctx.rng.choice(ENTRY_POINTS))]
        kind, extra = "file", False
        for _ in range(ctx.rng.randrange(3, 9)):
            if ctx.rng.random() < 0.45:
                m = ctx.rng.choice(path_muts[kind] + other_muts)
                if m == "add_hardlink":
                    if extra:
                        continue
                    extra = True
                if m in ("symlink_out", "symlink_in"):
                    kind = "link"
                elif m in ("hardlink_out", "replace_in"):
                    kind = "file" if m == "replace_in" else "link"  # after hardlink_out never write through it
                elif m == "delete":
                    kind = "gone"
                steps.append(("mut", m))
            else:
                steps.append(("call", ctx.rng.choice(ENTRY_POINTS)))
        scen.append(("w", steps, "random:" + ">".join(a for _, a in steps)))
    k = max(1, (len(scen) + 31) // 32)
    for p in pmap(_stateful_work, [scen[i:i + k] for i in range(0, len(scen), k)]):
        ctx.merge(p)


def size_zero_cases(ctx: Ctx, tree: dict, desc: dict) -> None:
    """Zero-size tensors (nothing is mapped or copied) and tensors without offset/length: oracle only.  A zero-size
    read must not open any file outside the base directory and returns no byte."""
    import onnx_ir as ir

    R = tree["R"]
    b = R + "/base"
    old = os.getcwd()
    try:
        os.chdir(R)
        k = 0
        for loc in ["f", "link_out", "../outside/canary", R + "/outside/canary", "hard", "dlink_out/f", "fifo", "nothing", "d"]:
            for ep in ENTRY_POINTS:
                for off, ln in ((0, 0), (None, None), (None, 0)):
                    k += 1
                    t = ir.ExternalTensor(loc, off, ln, ir.DataType.UINT8, shape=ir.Shape([0]), name="z", base_dir=b)
                    case = {"cwd": R, "base": b, "loc": loc, "ep": ep, "offset": off, "length": ln, "via": "size-zero"}
                    obs = real_read(t, ep, tree["scratch"], R)
                    ctx.case(["size-zero", loc.replace(R, "$R"), ep, off, ln], size_zero=(obs["r"] if obs["r"] == "ok" else "raised-" + obs.get("layer", "?")))
                    if obs["r"] == "ok" and obs["bytes"] != "":
                        ctx.fail(f"size-zero-bytes:{ep}", "a zero-size tensor returned bytes", {**case, "obs": obs})
                    for p_ in obs["opened"]:
                        key = true_location(p_, R)
                        info = desc["inodes"].get(key)
                        if info is not None and not (info.get("kind") != "o" and info["nlink"] == 1 and all((l + "/").startswith(b + "/") for l in info["locs"])):
                            ctx.fail(f"size-zero-outside-open:{ep}", "a zero-size read opened a file outside the base directory", {**case, "obs": obs})
    finally:
        os.chdir(old)


def random_trees(ctx: Ctx) -> None:
    """Random small trees: reads with a random real directory as base, and realpath/lstat/stat."""
    trees = []
    try:
        jobs, rp_jobs = [], []
        for _ in range(ctx.pick(24, 300)):
            tr = build_random_tree(ctx.rng)
            trees.append(tr)
            desc = describe_tree(tr["R"])
            check_links(ctx, desc, "random tree")
            R = tr["R"]
            for _ in range(2):
                bdir = ctx.rng.choice(tr["dirs"])
                cwd = ctx.rng.choice(tr["dirs"])
                spell = ctx.rng.random()
                if spell < 0.5:
                    base = bdir
                elif spell < 0.8:
                    base = os.path.relpath(bdir, cwd)
                else:
                    base = bdir + "/"
                sp = {"cwd": cwd, "base": base, "true": bdir, "kind": "random-tree"}
                cases = [(random_tree_path(ctx.rng, R), ctx.rng.choice(ENTRY_POINTS), 0, NBYTES) for _ in range(ctx.pick(60, 120))]
                jobs.append({"tree": tr, "desc": desc, "sp": sp, "cases": cases})
            cwd = ctx.rng.choice(tr["dirs"])
            paths = [p for p in (random_tree_path(ctx.rng, R) for _ in range(ctx.pick(80, 160))) if p != ""]
            rp_jobs.append({"desc": desc, "cwd": cwd, "paths": paths, "R": R})
        for p in pmap(_work, jobs):
            ctx.merge(p)
        for p in pmap(_realpath_work, rp_jobs):
            ctx.merge(p)
    finally:
        for tr in trees:
            shutil.rmtree(tr["top"], ignore_errors=True)


def replay(ctx: Ctx, obj: dict) -> None:
    """Re-run one recorded case (failing input or disagreement) on a fresh tree."""
    case = obj.get("case", obj)
    if case.get("via") == "stateful" and "steps" in case:
        part = Part()
        run_scenario(part, case["loc"], [tuple(x) for x in case["steps"]], case.get("sequence", "replay"))
        ctx.merge(part)
        return
    tree = build_tree()
    old = os.getcwd()
    try:
        desc = describe_tree(tree["R"])
        R = tree["R"]
        if case.get("path") is not None and "loc" not in case:
            import onnx_ir as ir  # load case: re-run the whole load stream
            load_cases(ctx, tree, desc)
            return
        oldR = case.get("R") or _guess_root(case)
        sub = (lambda s: s.replace(oldR, R)) if oldR else (lambda s: s)
        sp = {"cwd": sub(case["cwd"]), "base": sub(case["base"]), "true": None, "kind": case.get("base_kind", "?")}
        for s in base_spellings(R):
            if s["cwd"] == sp["cwd"] and s["base"] == sp["base"]:
                sp = s
        part = _work({"tree": tree, "desc": desc, "sp": sp, "cases": [(sub(case["loc"]), case["ep"], case.get("offset", 0), case.get("length", NBYTES))]})
        ctx.merge(part)
    finally:
        os.chdir(old)
        shutil.rmtree(tree["top"], ignore_errors=True)


def _guess_root(case: dict):
    import re

    m = re.search(r"(/[^ ]*?/irverif-c10-[^/]+/r)", json.dumps(case))
    return m.group(1) if m else None

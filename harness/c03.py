"""C03 — IR -> proto -> IR preserves the model; serialization has no side effects (DESIGN.md 5/C03).

Cases: IR models built through the public API (ir.Value / ir.Node / ir.Graph / ir.Function / ir.Model,
several tensor implementations, nested graphs capturing outer values, functions, IR >= 11 device
configurations) and then edited by a random history of public editing calls (append / insert / remove
nodes, rename values, replace uses, edit graph inputs / outputs / initializers, drop types and shapes,
empty-named trailing outputs, unsorted node order).

Correspondence: the main graph is dumped as the Lean model's `World` (`scope.ser`): the model's proto
(names, connectivity, value-info placement, initializer list), its one side effect (initializer
tensor names), the second serialization and `deserialize (serialize w)` are diffed against
`serde.serialize_model` / `serde.deserialize_model`.

Oracle (independent, on the real objects): deep snapshot of the model before/after `to_proto()`
(equal except `tensor.name == value.name` for initializer tensors); two serializations bytewise
equal; for models that are serializable (`serde_common.serializable_reason`) the re-loaded model is
isomorphic (`serde_common.IsoChecker`) and consistent.
"""
from __future__ import annotations

import copy
import logging
import random

import numpy as np
import onnx

from harness import serde_common as sc
from harness import serde_meta as sm
from harness import scope_ext9 as sx9
from harness import scope_bridge as sb
from harness import scope_attr as sa
from harness.common import Ctx, Part, lean_batch, load_corpus, pmap

THEOREMS = [
    "IrVerif.Scope.C03_roundtrip",
    "IrVerif.Scope.C03_roundtrip_reloadable",
    "IrVerif.Scope.C03_roundtrip_model",
    "IrVerif.Scope.C03_twice",
    "IrVerif.Scope.C03_pure",
    "IrVerif.Scope.C03_meta_roundtrip",
    "IrVerif.Scope.C03_roundtrip_decorated",
    "IrVerif.Scope.C03_pure_decorated",
    "IrVerif.Scope.C03_pure_ext",
    "IrVerif.Scope.C03_pure_sites",
    "IrVerif.Scope.C03_pure_frame",
    "IrVerif.Scope.C03_roundtrip_ext_graph",
    "IrVerif.Scope.C03_roundtrip_ext_devices",
    "IrVerif.Scope.C03_roundtrip_ext_model",
    "IrVerif.Scope.C03_roundtrip_ext",
    "IrVerif.Scope.C03_attr_roundtrip",
    "IrVerif.Scope.C03_attr_subs",
    "IrVerif.Scope.C03_roundtrip_attrs",
    "IrVerif.Scope.C03_ext_certificate_decidable",
    "IrVerif.Scope.C03_roundtrip_ext_ir9_partial",
    "IrVerif.Scope.C03_ext_ir9_not_roundtrip",
    "IrVerif.Scope.C03_bridge_deserialize_partial",
    "IrVerif.Scope.C03_bridge_serialize_partial",
    "IrVerif.Scope.C03_bridge_roundtrip_partial",
    "IrVerif.Scope.C03_bridge_gok",
    "IrVerif.Scope.C03_bridge_serde_partial",
    "IrVerif.Scope.C03_bridge_deserialize",
    "IrVerif.Scope.C03_bridge_serialize",
    "IrVerif.Scope.C03_bridge_roundtrip",
    "IrVerif.Scope.C03_bridge_gok_full",
    "IrVerif.Scope.C03_bridge_serde",
    "IrVerif.Scope.C03_bridge_deserialize_function",
    "IrVerif.Scope.C03_bridge_deserialize_model",
    "IrVerif.Scope.C03_bridge_serialize_model",
    "IrVerif.Scope.C03_bridge_gok_model",
    "IrVerif.Scope.C03_bridge_serde_model",
    "IrVerif.Scope.C03_bridge_deserialize_model9",
    "IrVerif.Scope.C03_bridge_serialize_model9",
    "IrVerif.Scope.C03_bridge_gok_model9",
    "IrVerif.Scope.C03_bridge_serde_model9",
]
ASSUMPTIONS = [
    "C02 bridge (Model/ScopeSerdeBridge*.lean, Lemmas/ScopeSerdeBridge*.lean, op bridge.graph): C03_bridge_* identify the Scope "
    "model with C02's field-level model of serde.py on the decidable fragment sharedFull = C02's wfGraph (nested graphs "
    "included; sharedSFull for serialization: also no value-level metadata_props and initializer tensors in canonical form, "
    "in every nested graph): absIRFull (C02's deserialized IR) is the world the Scope model deserializes from absGFull (proto), "
    "minus the derived links, and the Scope model serializes it to absGFull of C02's normal form normGraph. The _partial "
    "theorems are the same for graphs without nested graphs (older, kept). On every case the main graph written by to_proto is "
    "rendered in C02's proto JSON; the driver evaluates the fragments (counters hyp_bridge_shared / hyp_bridge_sharedS), GOKFull "
    "and the conclusions (bridge_des_agree / bridge_ser_agree / bridge_norm_agree, also outside the fragments); absGFull is "
    "compared with this harness's own abstraction of the same proto up to a bijection of the opaque tokens "
    "(bridge_abstractions_agree), and C02's model of to_proto(from_proto(p)) with the real one (bridge_c02_model_vs_real): the "
    "C02 model runs on the C03 generator. The same for whole models with functions at IR version >= 10 (op bridge.model, theorems C03_bridge_*_model, fragment "
    "sharedM = C02's wfModel; counters hyp_bridge_model_shared / bridge_model_*) and at IR version < 10 in the experimental "
    "function value-info format (deserializeM9 / serializeM9 true, theorems C03_bridge_*_model9, fragment sharedM9 = wfModel + no "
    "experimental entry with an empty value name: there C02's model skips the anonymous node outputs the code visits)",
    "value-info content and tensor payloads are opaque tokens in the model; non-graph node attributes are compared by "
    "the oracle only; functions are part of the core model (C03_roundtrip_model, scope.mser) for IR version >= 10",
    "decoration layer (Model/ScopeMeta.lean, scope.dser): metadata_props of model / graph / node / function, opset "
    "imports, doc strings / names / producer fields, model and node device configurations, function attributes: "
    "C03_meta_roundtrip (hypothesis wfModelDB = the dicts read from the IR have distinct keys; counter deco_wf) and "
    "the real to_proto / from_proto are compared with serModelD / deserModelD on every case; that to_proto leaves "
    "the decorations of the real objects alone rests on the deep-snapshot oracle (C03_pure_decorated holds by "
    "construction of the model)",
    "extended model (Model/ScopeExt.lean, scope.eser / scope.meser): merged value metadata, quantization annotations, "
    "sharding values. Its IR -> proto -> IR round trip is a theorem since round 5: C03_roundtrip_ext_graph / "
    "C03_roundtrip_ext_devices (graphs; sharding values by identity) and C03_roundtrip_ext_model / C03_roundtrip_ext "
    "(models with functions) under the certificates ReloadableE / ReloadableME (+ DevCertG / DevCertM for identity), "
    "which every deserialized model satisfies (C17 side). ReloadableE has a decision procedure "
    "(C03_ext_certificate_decidable, Model/ScopeCert.lean) that the driver evaluates on every generated IR model "
    "(counter hyp_reloadable_ext; when it holds, the model's own reloaded-and-reserialized proto must equal the first: "
    "counter ext_reload_fixpoint); ReloadableME / DevCert* are not evaluated by the driver. Serialized proto, second "
    "serialization and reloaded IR incl. the extension state are compared with the real ones on every case; the IR < 10 "
    "experimental function value-info format is modelled on the C17 side (scope.mdeser9) and oracle-only here",
    "graphs nest as a tree (a Graph object shared between two attributes is outside the model)",
    "OUTSIDE the property as checked (hypotheses of the theorems and gate of the isomorphism oracle): a graph that "
    "lists as output a value it does not define (e.g. sub = Graph([], [y_outer]) with y_outer produced in the "
    "enclosing graph): the reloaded subgraph gets a fresh producer-less output, sharing is lost; valid ONNX "
    "requires a subgraph output to be produced in the subgraph. These cases are generated, run through purity / "
    "determinism / model comparison, and counted as serializable=graph output not defined in its graph",
    "C03_pure: the model's only effect is the tensor-name write; that the real to_proto mutates nothing else "
    "rests on the deep-snapshot oracle, not on the theorem",
    "C03_pure_sites / C03_pure_frame (Model/ScopeEff.lean): to_proto as a log of generic attribute writes on IR "
    "objects; writeSites = the (object kind, attribute) pairs at which serde.py's serialize_* functions assign. The "
    "tie to the code is an AST scan of the IMPORTED onnx_ir.serde on every run (call-graph closure from the "
    "serialize* / to_proto entry points; assignments, augmented assignments, del, setattr and calls of mutating "
    "container methods on objects that are neither protobuf messages nor containers created in the function): a "
    "site the model does not list is a correspondence disagreement. Effects through calls into other modules "
    "(_core accessors that cache, tensor.tobytes()) are invisible to the scan and rest on the deep-snapshot oracle",
    "the oracle's gate (serializable_reason) also admits a nested graph that shadows a name of an enclosing "
    "graph when every reference still resolves innermost-first to the referenced value; the hypothesis of "
    "C03_roundtrip (names unique per scope chain) excludes shadowing, C03_roundtrip_reloadable (hypothesis: "
    "the resolution certificate replG) covers it",
    "accepted normalisations of the round trip: '' == None for doc/model strings, trailing empty-named "
    "outputs, Node.version / meta / nested opset_imports / function graph names are IR-only, a "
    "non-input initializer without type/shape receives them from its tensor, a shape without a type "
    "is not serializable, FLOAT attributes are float32",
    "attribute layer (Model/ScopeAttr.lean; harness/scope_attr.py): the payload of a non-graph attribute is ONE opaque token = deterministic bytes of an AttributeProto holding only the payload field of the attribute's type; stray payload fields of other types are not in the abstraction; TENSOR(S) / TYPE_PROTO(S) payloads are normalised through their leaf codec and the leaf decoders are the identity on tokens (leafOk = the leaf decoder alone accepts the payload; STRINGS: UTF-8 checked by the harness); the placement of the attribute trees against the core trees (NodeP.subs = subsOfP of the survivors, NodeT.subs = subsOfS) is compared on every case (shape of the tree of graphs), not proved against the core model; AErr.unknownType is unreachable from python-protobuf (a number outside the closed enum reads as 0)",
]


def _quiet() -> None:
    import warnings

    logging.disable(logging.CRITICAL)
    warnings.simplefilter("ignore")


# --------------------------------------------------------------------------- IR generator


class IRGen:
    def __init__(self, rng: random.Random, p_odd: float):
        import onnx_ir as ir

        self.ir = ir
        self.rng = rng
        self.p_odd = p_odd
        self.k = 0
        self.hist: dict[str, int] = {}
        self.graphs: list = []  # (graph, outer_pool)

    def note(self, k, n=1):
        self.hist[k] = self.hist.get(k, 0) + n

    def odd(self, scale=1.0):
        return self.rng.random() < self.p_odd * scale

    def fresh(self, p="v"):
        self.k += 1
        return f"{p}{self.k}"

    # ---- pieces
    def type_shape(self):
        ir, rng = self.ir, self.rng
        r = rng.random()
        if r < 0.25:
            self.note("value_without_type_and_shape")
            return None, None
        dt = rng.choice([ir.DataType.FLOAT, ir.DataType.INT64, ir.DataType.BOOL, ir.DataType.FLOAT16, ir.DataType.STRING])
        t = ir.TensorType(dt)
        k = rng.random()
        if k < 0.1:
            t = ir.SequenceType(t)
        elif k < 0.18:
            t = ir.OptionalType(ir.SequenceType(t))
        elif k < 0.22:
            t = ir.SparseTensorType(dt)
        if rng.random() < 0.25:
            self.note("value_without_shape")
            return t, None
        dims = [rng.choice([1, 2, 3, "N", "batch", None]) for _ in range(rng.randrange(0, 4))]
        den = [rng.choice([None, None, "DATA_BATCH"]) for _ in dims] if rng.random() < 0.15 else None
        s = ir.Shape(dims, denotations=den)
        if self.odd(0.2):
            self.note("shape_without_type")
            return None, s
        return t, s

    def tensor(self, name):
        ir, rng = self.ir, self.rng
        kind = rng.choice(["np", "np", "np64", "string", "external", "lazy", "packed", "proto", "bool"])
        self.note("tensor=" + kind)
        shape = [rng.randrange(0, 4) for _ in range(rng.randrange(0, 3))]
        n = int(np.prod(shape)) if shape else 1
        doc = rng.choice([None, None, "tdoc"])
        meta = {"tk": "tv"} if rng.random() < 0.15 else None
        # separate stream (recorded gen_seeds unchanged): a rank-2 tensor backed by a transposed view
        # (Fortran-contiguous, not C-contiguous)
        rng2 = random.Random(f"tr-{self.k}-{name}")
        transposed = len(shape) == 2 and min(shape) >= 2 and rng2.random() < 0.5

        def layout(a):
            if transposed:
                self.note("tensor_non_c_contiguous")
                return np.ascontiguousarray(a.reshape(shape).T).T
            return a.reshape(shape)

        if kind == "np":
            return ir.Tensor(layout(np.array([rng.randrange(-9, 9) for _ in range(n)], dtype=np.float32)),
                             name=name, doc_string=doc, metadata_props=meta)
        if kind == "np64":
            return ir.Tensor(layout(np.array([rng.randrange(-9, 9) for _ in range(n)], dtype=np.int64)), name=name)
        if kind == "bool":
            return ir.Tensor(np.array([rng.random() < 0.5 for _ in range(n)], dtype=np.bool_).reshape(shape), name=name)
        if kind == "string":
            return ir.StringTensor([rng.choice([b"a", b"bc", b""]) for _ in range(n)], shape=ir.Shape(shape), name=name,
                                   doc_string=doc)
        if kind == "external":
            return ir.ExternalTensor("weights.bin", rng.choice([None, 0, 64]), rng.choice([None, 4 * n]),
                                     ir.DataType.FLOAT, shape=ir.Shape(shape), name=name or "ext", base_dir="/nonexistent")
        if kind == "lazy":
            arr = layout(np.array([rng.randrange(-9, 9) for _ in range(n)], dtype=np.float32))
            return ir.LazyTensor(lambda arr=arr: ir.Tensor(arr), dtype=ir.DataType.FLOAT, shape=ir.Shape(shape), name=name)
        if kind == "packed":
            m = rng.randrange(0, 6)
            packed = np.array([rng.randrange(256) for _ in range((m + 1) // 2)], dtype=np.uint8)
            return ir.PackedTensor(packed, ir.DataType.UINT4, shape=ir.Shape([m]), name=name)
        from onnx_ir import serde

        p = onnx.TensorProto()
        sc.gen_tensor_proto(rng, p, name or "", kinds="rfi")
        return serde.TensorProtoTensor(p)

    def attrs(self):
        ir, rng = self.ir, self.rng
        res = []
        if rng.random() < 0.4:
            res.append(ir.AttrInt64("axis", rng.randrange(-2, 3)))
        if rng.random() < 0.2:
            res.append(ir.AttrFloat32("alpha", rng.choice([0.5, 1.0, -2.25, 0.0])))
        if rng.random() < 0.15:
            res.append(ir.AttrString("mode", rng.choice(["a", "", "ünï"]), doc_string=rng.choice([None, "adoc"])))
        if rng.random() < 0.15:
            res.append(ir.AttrInt64s("perm", [rng.randrange(4) for _ in range(rng.randrange(0, 4))]))
        if rng.random() < 0.1:
            res.append(ir.AttrTensor("value", self.tensor(rng.choice(["", "cst"]))))
        if rng.random() < 0.05:
            res.append(ir.AttrStrings("names", ["x", "yy"]))
        if rng.random() < 0.05:
            t, s = self.type_shape()
            if t is not None:
                res.append(ir.AttrTypeProto("tp", ir.TypeAndShape(t, s)))
        return res

    def pick_inputs(self, pool, k):
        rng = self.rng
        res = []
        for _ in range(k):
            if rng.random() < 0.1:
                res.append(None)
                self.note("optional_input_none")
            elif pool:
                res.append(rng.choice(pool))
        return res

    def new_node(self, pool, depth, in_function=False, anonymous_ok=True):
        ir, rng = self.ir, self.rng
        attrs = self.attrs()
        if in_function and rng.random() < 0.3:
            attrs.append(ir.RefAttr("axis2", "fa", ir.AttributeType.INT))
        if depth < 2 and rng.random() < (0.3 if depth == 0 else 0.15):
            if rng.random() < 0.75:
                attrs.append(ir.AttrGraph("body", self.graph(depth + 1, pool)))
            else:
                attrs.append(ir.AttrGraphs("branches", [self.graph(depth + 1, pool) for _ in range(rng.randrange(1, 3))]))
            self.note("subgraph")
        nout = rng.choice([1, 1, 1, 2, 3, 0])
        inputs = self.pick_inputs(pool, rng.randrange(0, 4))
        kwargs = {}
        if rng.random() < 0.6 or not anonymous_ok:
            outs = []
            for _ in range(nout):
                t, s = self.type_shape()
                outs.append(ir.Value(name=self.fresh("t") if rng.random() < 0.8 or not anonymous_ok else None, type=t, shape=s,
                                     doc_string=rng.choice([None, None, "vdoc", ""])))
            kwargs["outputs"] = outs
        else:
            kwargs["num_outputs"] = nout
        node = ir.Node(
            rng.choice(["", "", "", "custom", "ai.onnx"]), rng.choice(["Add", "Relu", "If", "Loop", "Split", "Op"]),
            inputs, attrs, overload=rng.choice(["", "", "ov"]) if rng.random() < 0.1 else "",
            name=self.fresh("n") if rng.random() < 0.6 else None,
            doc_string=rng.choice([None, None, "ndoc"]), version=rng.choice([None, None, 18]),
            metadata_props={"nk": "nv"} if rng.random() < 0.1 else None, **kwargs,
        )
        return node

    def graph(self, depth, outer_pool, function=False):
        ir, rng = self.ir, self.rng
        inputs = []
        for _ in range(rng.randrange(0, 3) if depth else rng.randrange(1, 4)):
            t, s = (None, None) if function and rng.random() < 0.5 else self.type_shape()
            inputs.append(ir.Value(name=self.fresh("in"), type=t, shape=s, doc_string=rng.choice([None, None, "idoc"]),
                                   metadata_props={"vk": "vv"} if rng.random() < 0.1 else None))
        inits = []
        if not function:
            for _ in range(rng.randrange(0, 3)):
                name = self.fresh("w")
                tensor = self.tensor(rng.choice([name, name, None, "other"]))
                r = rng.random()
                if r < 0.7:
                    t, s = ir.TensorType(tensor.dtype), ir.Shape(list(tensor.shape.numpy()))
                    # separate stream (recorded gen_seeds unchanged): an entry that restates the tensor's dtype and
                    # dims but carries a type denotation / dimension denotations (seeded C03-r1: TensorType.__eq__ and
                    # Shape.__eq__ ignore denotations, so a "redundant entry" test on == drops them)
                    rng3 = random.Random(f"den-{self.k}-{name}")
                    if rng3.random() < 0.3:
                        if rng3.random() < 0.6:
                            t = ir.TensorType(tensor.dtype, denotation=rng3.choice(["IMAGE", "TENSOR"]))
                            self.note("initializer_type_denotation")
                        if len(s) and rng3.random() < 0.7:
                            s = ir.Shape(list(s.numpy()), denotations=[rng3.choice([None, "FILTER_OUT_CHANNEL"]) for _ in range(len(s))])
                            self.note("initializer_dim_denotations")
                elif r < 0.85:
                    t, s = self.type_shape()
                else:
                    t, s = None, None
                    self.note("initializer_without_type")
                v = ir.Value(name=name, type=t, shape=s, const_value=tensor)
                inits.append(v)
            if inputs and rng.random() < 0.15:
                v = rng.choice(inputs)  # an input that is also an initializer
                v.const_value = self.tensor(v.name)
                inits.append(v)
                self.note("initializer_is_input")
        pool = list(outer_pool) + inputs + inits
        nodes = []
        for _ in range(rng.randrange(0, 4) if depth else rng.randrange(1, 7)):
            # each Graph has its own name authority: anonymous values of nested graphs would all be val_0, val_1, ...
            n = self.new_node(pool, depth, in_function=function, anonymous_ok=(depth == 0 and not function) or self.odd(0.3))
            nodes.append(n)
            pool.extend(n.outputs)
        produced = [o for n in nodes for o in n.outputs]
        outputs = []
        for _ in range(rng.randrange(0, 3) if produced else 0):
            o = rng.choice(produced)
            if o not in outputs or self.odd(0.3):
                outputs.append(o)
        if self.odd(0.3) and inputs:
            outputs.append(rng.choice(inputs))
            self.note("input_as_output")
        if rng.random() < 0.25 and len(nodes) > 1:
            rng.shuffle(nodes)
            self.note("unsorted_construction")
        g = ir.Graph(inputs, outputs, nodes=nodes, initializers=inits,
                     doc_string=rng.choice([None, None, "gdoc"]), name=self.fresh("g") if rng.random() < 0.8 else None,
                     opset_imports={"": 18} if depth == 0 or function else None,
                     metadata_props={"gk": "gv"} if rng.random() < 0.1 else None)
        self.graphs.append((g, list(outer_pool)))
        return g

    # ---- edits
    def visible(self, g, outer):
        vals = list(outer) + list(g.inputs) + list(g.initializers.values())
        for n in g:
            vals.extend(n.outputs)
        return vals

    def edit(self, model):
        ir, rng = self.ir, self.rng
        g, outer = rng.choice(self.graphs)
        nodes = list(g)
        vis = self.visible(g, outer)
        op = rng.choice([
            "append", "append", "insert_before", "insert_after", "remove_safe", "remove_unsafe", "rename", "rename",
            "rename_dup", "rename_empty", "rauw", "replace_input", "add_output", "pop_output", "add_input",
            "pop_input", "register_init", "pop_init", "drop_type", "set_shape", "doc", "meta", "sort",
            "trailing_empty", "resize_outputs", "resize_inputs", "free_value_input", "name_none", "node_rename",
        ])
        odd_ops = {"remove_unsafe", "rename_dup", "rename_empty", "free_value_input", "name_none", "pop_input"}
        if op in odd_ops and not self.odd(1.5):
            return
        self.note("edit=" + op)
        try:
            if op == "append":
                g.append(self.new_node(vis, 2, anonymous_ok=g is model.graph))
            elif op == "insert_before" and nodes:
                g.insert_before(rng.choice(nodes), self.new_node(vis, 2, anonymous_ok=g is model.graph))
            elif op == "insert_after" and nodes:
                g.insert_after(rng.choice(nodes), self.new_node(vis, 2, anonymous_ok=g is model.graph))
            elif op == "remove_safe" and nodes:
                g.remove(rng.choice(nodes), safe=True)
            elif op == "remove_unsafe" and nodes:
                g.remove(rng.choice(nodes))
            elif op == "rename" and vis:
                rng.choice(vis).name = self.fresh("r")
            elif op == "rename_dup" and len(vis) > 1:
                a, b = rng.sample(vis, 2)
                a.name = b.name
            elif op == "rename_empty" and vis:
                rng.choice(vis).name = ""
            elif op == "name_none" and vis:
                rng.choice(vis).name = None
            elif op == "rauw" and len(vis) > 1:
                a, b = rng.sample(vis, 2)
                ir.convenience.replace_all_uses_with(a, b)
            elif op == "replace_input" and nodes:
                n = rng.choice(nodes)
                if n.inputs:
                    n.replace_input_with(rng.randrange(len(n.inputs)), rng.choice(vis + [None]))
            elif op == "add_output" and vis:
                g.outputs.append(rng.choice(vis))
            elif op == "pop_output" and len(g.outputs):
                g.outputs.pop(rng.randrange(len(g.outputs)))
            elif op == "add_input":
                t, s = self.type_shape()
                g.inputs.append(ir.Value(name=self.fresh("in"), type=t, shape=s))
            elif op == "pop_input" and len(g.inputs):
                g.inputs.pop(rng.randrange(len(g.inputs)))
            elif op == "register_init":
                name = self.fresh("w")
                tensor = self.tensor(name)
                if rng.random() < 0.7:
                    g.register_initializer(ir.Value(name=name, const_value=tensor, type=ir.TensorType(tensor.dtype),
                                                    shape=ir.Shape(list(tensor.shape.numpy()))))
                else:
                    g.register_initializer(ir.Value(name=name, const_value=tensor))
            elif op == "pop_init" and len(g.initializers):
                g.initializers.pop(rng.choice(list(g.initializers)))
            elif op == "drop_type" and vis:
                v = rng.choice(vis)
                v.type = None
                if rng.random() < 0.8:
                    v.shape = None
            elif op == "set_shape" and vis:
                v = rng.choice(vis)
                t, s = self.type_shape()
                v.type, v.shape = t, s
            elif op == "doc" and vis:
                rng.choice(vis).doc_string = rng.choice(["", "newdoc", None])
            elif op == "meta" and vis:
                rng.choice(vis).metadata_props["mk"] = "mv"
            elif op == "sort":
                g.sort()
            elif op == "trailing_empty" and nodes:
                n = rng.choice(nodes)
                if len(n.outputs) >= 2 and not n.outputs[-1].uses() and not n.outputs[-1].is_graph_output():
                    o = n.outputs[-1]
                    o.name = ""
                    o.type, o.shape, o.doc_string = None, None, None
                    o.metadata_props.clear()
                    self.note("trailing_empty_output")
            elif op == "resize_outputs" and nodes:
                n = rng.choice(nodes)
                n.resize_outputs(rng.randrange(0, 4))
            elif op == "resize_inputs" and nodes:
                n = rng.choice(nodes)
                n.resize_inputs(rng.randrange(0, 4))
            elif op == "free_value_input" and nodes:
                n = rng.choice(nodes)
                if n.inputs:
                    n.replace_input_with(0, ir.Value(name=self.fresh("free")))
            elif op == "node_rename" and nodes:
                rng.choice(nodes).name = rng.choice([self.fresh("n"), "", "dupname"])
        except (ValueError, TypeError, RuntimeError, KeyError, IndexError):
            self.note("edit_rejected")

    def model(self):
        ir, rng = self.ir, self.rng
        main = self.graph(0, [])
        functions = []
        for _ in range(rng.choice([0, 0, 1, 2])):
            saved = self.graphs
            self.graphs = []
            fg = self.graph(0, [], function=True)
            sub = self.graphs
            self.graphs = saved + sub
            f = ir.Function(rng.choice(["custom", "f.dom"]), self.fresh("fn"), rng.choice(["", "", "ov1"]), graph=fg,
                            attributes=[ir.AttrInt64("fa", 1), ir.Attr("fb", ir.AttributeType.INT, None)])
            # names containing the separators of the IR<10 "domain::name/value" value-info names (D106);
            # a separate generator so that the main stream (and the recorded gen_seed cases) is unchanged
            rng2 = random.Random(f"sep-{self.k}-{len(functions)}")
            if rng2.random() < 0.2:
                for v in list(fg.inputs) + [o for n in fg for o in n.outputs]:
                    if v.name and rng2.random() < 0.5:
                        v.name = rng2.choice(["/blk/", "s::", "/"]) + v.name
                self.note("function_value_names_with_separators")
            if rng2.random() < 0.1:
                f.domain = rng2.choice(["a/b", "a::b", "a:"])
                self.note("function_domain_with_separators")
            if rng2.random() < 0.05:
                f.name = rng2.choice(["x/", "x::"]) + f.name
                self.note("function_name_with_separators")
            functions.append(f)
            main.append(ir.Node(f.domain, f.name, self.pick_inputs(self.visible(main, []), len(fg.inputs)),
                                overload=f.overload, num_outputs=max(1, len(fg.outputs)), name=self.fresh("call")))
            self.note("function")
        version = rng.choice([8, 9, 10, 10, 11, 12, 13])
        m = ir.Model(main, ir_version=version, producer_name=rng.choice([None, "verif", ""]),
                     producer_version=rng.choice([None, "1.0"]), domain=rng.choice([None, "dom"]),
                     model_version=rng.choice([None, 0, 3]), doc_string=rng.choice([None, "mdoc", ""]),
                     functions=functions, metadata_props={"mk": "mv"} if rng.random() < 0.2 else None)
        if rng.random() < (0.5 if version >= 11 else 0.1):
            self.device_configs(m)
        for _ in range(rng.choice([0, 1, 2, 4, 8, 16])):
            self.edit(m)
        self.shadow(m)
        self.quantization_annotations(m)
        return self.reload_and_edit_tensor_metadata(m)

    def quantization_annotations(self, m):
        """quantization annotations (Value.meta['quant_parameter_tensor_names']) on some named values of the main
        graph tree.  Separate stream: recorded gen_seeds unchanged."""
        rng2 = random.Random(f"quant-{self.k}")
        if rng2.random() >= 0.2:
            return
        n = 0
        for g in sc.iter_graph_tree(m.graph):
            vals = list(g.inputs) + list(g.initializers.values()) + [o for nd in g for o in nd.outputs]
            for v in vals:
                if v.name and rng2.random() < 0.25:
                    v.meta["quant_parameter_tensor_names"] = rng2.choice([
                        {"SCALE_TENSOR": "s_" + v.name}, {"SCALE_TENSOR": "s", "ZERO_POINT_TENSOR": "z"}, {"k": ""}])
                    n += 1
        if n:
            self.note("quantization_annotations", n)
        # an EMPTY annotation dict (falsy: to_proto writes nothing for it).  Separate stream again.
        rng3 = random.Random(f"quant-empty-{self.k}")
        if rng3.random() < 0.3:
            k = 0
            for g in sc.iter_graph_tree(m.graph):
                for v in list(g.inputs) + [o for nd in g for o in nd.outputs]:
                    if v.name and "quant_parameter_tensor_names" not in v.meta and rng3.random() < 0.3:
                        v.meta["quant_parameter_tensor_names"] = {}
                        k += 1
            if k:
                self.note("quantization_annotations_empty", k)

    def reload_and_edit_tensor_metadata(self, m):
        """sometimes: give tensors metadata, take the model through the proto once (its tensors are then backed
        by TensorProtos that carry the metadata) and edit tensor.metadata_props (delete / change / add) on the
        loaded model, which becomes the model under test.  Separate stream: recorded gen_seeds unchanged."""
        from onnx_ir import serde

        rng2 = random.Random(f"tmeta-{self.k}")
        if rng2.random() >= 0.12:
            return m
        try:
            for t in sc.tensors_of_model(m):
                if rng2.random() < 0.8:
                    t.metadata_props.update({"ka": "1", "kb": "2", "kc": "3"})
            m2 = serde.deserialize_model(serde.serialize_model(m))
        except Exception:  # noqa: BLE001 - not serializable: keep the API-built model
            self.note("reload_skipped")
            return m
        edited = 0
        for t in sc.tensors_of_model(m2):
            try:
                keys = sorted(t.metadata_props)
                r = rng2.random()
                if keys and r < 0.5:
                    del t.metadata_props[rng2.choice(keys)]
                    edited += 1
                elif keys and r < 0.7:
                    t.metadata_props[rng2.choice(keys)] = "changed"
                    edited += 1
                elif r < 0.85:
                    t.metadata_props["knew"] = "n"
                    edited += 1
            except Exception:  # noqa: BLE001
                pass
        self.note("reloaded_model_tensor_metadata_edits", edited)
        return m2

    def shadow(self, m):
        """a nested graph re-defines a name of an enclosing graph (separate stream: recorded gen_seeds
        unchanged); references keep pointing to the objects, so the model stays serializable exactly when
        no reference to the outer value sits below the shadowing definition"""
        rng2 = random.Random(f"shadow-{self.k}")
        if rng2.random() >= 0.25:
            return
        nested = [(g, outer) for g, outer in self.graphs if outer]
        for g, outer in rng2.sample(nested, k=min(len(nested), rng2.randrange(1, 3))):
            inner = list(g.inputs) + [o for n in g for o in n.outputs if o.name]
            used = [v for v in inner if v.uses()]
            targets = [v for v in outer if v.name]
            if not inner or not targets:
                continue
            below = {id(v) for n in g.all_nodes() for v in n.inputs if v is not None}
            free = [v for v in targets if id(v) not in below]
            b = rng2.choice(free if free and rng2.random() < 0.8 else targets)
            a = rng2.choice(used if used and rng2.random() < 0.8 else inner)
            if a is b:
                continue
            try:
                a.name = b.name
                self.note("shadowing")
            except (ValueError, TypeError):
                self.note("edit_rejected")

    def device_configs(self, m):
        rng = self.rng
        try:
            cfg = m.add_device_configuration("cfg0", num_devices=2, device_names=["d0", "d1"])
            nodes = [n for n in m.graph if len(n.outputs) or len(n.inputs)]
            for n in rng.sample(nodes, k=min(len(nodes), rng.randrange(0, 3))):
                if rng.random() < 0.5:
                    n.set_pipeline_stage(cfg, rng.randrange(3))
                vals = [v for v in list(n.inputs) + list(n.outputs) if v is not None]
                if vals and rng.random() < 0.7:
                    n.shard(rng.choice(vals), configuration=cfg, axis=0, num_shards=2, device_indices=[0, 1])
            # nodes of nested graphs and of functions as well (separate stream: recorded gen_seeds unchanged)
            rng2 = random.Random(f"dc-{self.k}")
            nested = [n for n in m.graph.all_nodes() if n.graph is not m.graph]
            for f in m.functions.values():
                nested.extend(f.all_nodes())
            nested = [n for n in nested if len(n.outputs) or len(n.inputs)]
            for n in rng2.sample(nested, k=min(len(nested), rng2.randrange(0, 3))):
                if rng2.random() < 0.6:
                    n.set_pipeline_stage(cfg, rng2.randrange(3))
                vals = [v for v in list(n.inputs) + list(n.outputs) if v is not None]
                if vals and rng2.random() < 0.6:
                    n.shard(rng2.choice(vals), configuration=cfg, axis=0, num_shards=2, device_indices=[0, 1])
                self.note("device_configuration_nested")
            self.note("device_configuration")
        except (ValueError, TypeError, IndexError):
            self.note("device_configuration_rejected")


# --------------------------------------------------------------------------- one case


def _det(p) -> bytes:
    return p.SerializeToString(deterministic=True)


def _strip_experimental(gp: dict) -> dict:
    gp = dict(gp)
    gp["vinfo"] = [v for v in gp["vinfo"] if not ("::" in v[0] and "/" in v[0])]
    return gp


def _metadata_merge_names(g: onnx.GraphProto) -> set:
    """names that have, in one graph of the tree, an entry with metadata_props and another entry
    (input / output / value_info) for the same name"""
    res: set = set()
    entries = list(g.input) + list(g.output) + list(g.value_info)
    with_meta = {e.name for e in entries if len(e.metadata_props)}
    for name in with_meta:
        if sum(1 for e in entries if e.name == name) > 1:
            res.add(name)
    for n in g.node:
        for a in n.attribute:
            if a.HasField("g"):
                res |= _metadata_merge_names(a.g)
            for s in a.graphs:
                res |= _metadata_merge_names(s)
    return res


def _d107_trigger(model) -> bool:
    """a tensor backed by a TensorProto that carries metadata_props, all of which were deleted in the IR"""
    from onnx_ir import serde

    for t in sc.tensors_of_model(model):
        if isinstance(t, serde.TensorProtoTensor) and not t.metadata_props and len(t.raw.metadata_props):
            return True
    return False


def run_case(part, gen_seed: int, p_odd: float, lean_reqs: list, pending: list) -> None:
    from onnx_ir import serde

    rng = random.Random(gen_seed)
    gen = IRGen(rng, p_odd)
    model = gen.model()
    case = {"gen_seed": gen_seed, "p_odd": p_odd}
    for k, v in gen.hist.items():
        part.count(k, v)
    decorate_ir(random.Random(gen_seed ^ 0x5EED), model, part)
    sx9.decorate_ir9(random.Random(gen_seed ^ 0x9E9), model, part)
    attr_reason = sa.decorate_attrs_ir(random.Random(gen_seed ^ 0xA77), model, part)  # attribute layer: more kinds
    # ---- decoration layer (Model/ScopeMeta.lean): pre-state of the decorations
    deco0 = None
    try:
        deco0 = sm.ir_model_to_deco(model)
    except sc.OutsideModel as e:
        part.count(f"deco_outside_model={e.args[0][:30]}")
    except RecursionError:
        part.count("deco_outside_model=recursion")
    # ---- extended model (Model/ScopeExt.lean): value metadata, quantization annotations, sharding values
    we0 = None
    ext_wf = bool(len(model.functions)) and model.ir_version >= 10
    try:
        we0 = sm.ir_model_to_world_ext(model, {}) if ext_wf else sm.ir_graph_to_world_ext(model.graph, {})
    except sc.OutsideModel as e:
        part.count(f"ext_outside_model={e.args[0][:30]}")
    except Exception as e:  # noqa: BLE001 - e.g. a tensor that cannot produce bytes
        part.count(f"ext_outside_model=dump:{type(e).__name__}")
    reason = sc.serializable_reason(model)
    reason = reason or attr_reason
    at0 = sa.c03_request(part, model, case)  # attribute layer (Model/ScopeAttr.lean): pre-state
    # ---- model request (pre-state)
    world0 = None
    flags: dict = {}
    tobjs = None
    try:
        num_before = sc._Numbering  # noqa: F841
        world0 = sc.ir_graph_to_world(model.graph, flags)
    except sc.OutsideModel as e:
        part.count(f"outside_model={e.args[0][:30]}")
    except Exception as e:  # noqa: BLE001 - e.g. a tensor that cannot produce bytes
        part.count(f"outside_model=dump:{type(e).__name__}")
    worldM = None
    if world0 is not None and len(model.functions) and model.ir_version >= 10:
        # the function-aware model (IR version >= 10: value_info inside the FunctionProto)
        try:
            worldM = sc.ir_model_to_world(model, {})
        except sc.OutsideModel as e:
            part.count(f"outside_model_functions={e.args[0][:30]}")
        except Exception as e:  # noqa: BLE001
            part.count(f"outside_model_functions=dump:{type(e).__name__}")
    # ---- purity / determinism oracle
    snap0 = sc.snapshot_model(model)
    p1 = None
    err = None
    try:
        p1 = serde.serialize_model(model)
    except Exception as e:  # noqa: BLE001
        err = e
    snap1 = sc.snapshot_model(model)
    if snap0["body"] != snap1["body"]:
        diff = [k for k in snap0["body"] if snap0["body"][k] != snap1["body"][k]]
        part.fail("purity:to_proto-changed-model:" + ",".join(diff)[:40], f"to_proto changed the IR model: fields {diff}", case)
    for i, (a, b) in enumerate(zip(snap0["tensor_names"], snap1["tensor_names"])):
        want = snap1["init_tensor"].get(i)
        if i in snap1["init_tensor"]:
            if b != want and not (err is not None and b == a):
                part.fail("purity:initializer-tensor-name-not-aligned", f"tensor {i}: name {b!r}, value name {want!r}", case)
        elif a != b:
            part.fail("purity:tensor-renamed", f"tensor {i} (not an initializer tensor) renamed {a!r} -> {b!r}", case)
    n_nodes = sum(1 for g0 in sc.model_graphs(model) for g in sc.iter_graph_tree(g0) for _ in g)
    part.case(
        [gen_seed, p_odd], nontrivial=n_nodes > 0,
        sample={"gen_seed": gen_seed, "nodes": n_nodes, "serializable": reason is None, "ir_version": model.ir_version,
                "to_proto": "ok" if err is None else "raised:" + type(sc.root_cause(err)).__name__},
        serializable=reason or "yes", to_proto="ok" if err is None else "raised", nodes=min(n_nodes, 12),
        ir_version=model.ir_version, functions=len(model.functions),
    )
    m2 = None
    if p1 is not None:
        try:
            p2 = serde.serialize_model(model)
            if _det(p1) != _det(p2):
                part.fail("twice:protos-differ", "two serializations of the same model differ", case)
        except Exception as e:  # noqa: BLE001
            part.fail("twice:second-raises", f"second to_proto raised {type(e).__name__}", case)
        err2 = None
        try:
            m2 = serde.deserialize_model(p1)
        except Exception as e:  # noqa: BLE001
            err2 = e
        if reason is None:
            if m2 is None:
                part.fail("roundtrip:from_proto-raises:" + type(sc.root_cause(err2)).__name__,
                          f"from_proto(to_proto(m)) raised: {sc.root_cause(err2)!s:.200}", case)
            else:
                mm = sc.iso_mismatch(model, m2)
                if mm:
                    where = mm.split(":")[0]
                    import re

                    where = re.sub(r"\[[^\]]*\]", "", where)
                    where = re.sub(r"value '.*", "value", where)
                    if "metadata" not in where and _d107_trigger(model) and ("const_value" in mm or ".attr[" in mm):
                        where = "tensor-metadata-all-keys-deleted"  # D107
                    elif where.startswith("function") and sx9.leak_trigger(model):
                        where = "ir9-main-graph-value-info-leaks-onto-function-value"  # D321
                    elif model.ir_version < 10 and where.startswith("function") and any(
                        "/" in ident or "::" in ident
                        for f in model.functions.values()
                        for ident in [f.domain, f.name] + [v.name or "" for v in list(f.inputs) + [o for n in f for o in n.outputs]]
                    ):
                        where = "ir9-function-value-info-unparseable-name"  # D106
                    part.fail("roundtrip:not-isomorphic:" + where[-60:], mm[:300], case)
                bad = sc.check_consistency(sc.model_graphs(m2))
                if bad:
                    part.fail("roundtrip:inconsistent", "; ".join(bad[:3]), case)
    elif reason is None:
        part.fail("roundtrip:to_proto-raises:" + type(sc.root_cause(err)).__name__,
                  f"to_proto raised on a serializable model: {sc.root_cause(err)!s:.200}", case)
    if we0 is not None:
        lean_reqs.append({"m": "scope.meser" if ext_wf else "scope.eser", "w": we0["world"], "ext": we0["ext"],
                          "ver": int(model.ir_version)})
        pending.append(("E", case, model, p1, err, m2, ext_wf))
    sx9.queue_c03(part, case, model, p1, err, m2, lean_reqs, pending)
    sx9.collision_case(IRGen, part, case, model, lean_reqs, pending)
    if at0 is not None:
        lean_reqs.append({"m": "scope.aser", "w": at0[0]})
        pending.append(("A", case, at0[0], at0[1], model, p1, err, m2))
    if deco0 is not None:
        lean_reqs.append({"m": "scope.dser", "w": deco0})
        pending.append(("D", case, deco0, model, p1, err, m2))
    if world0 is not None:
        lean_reqs.append({"m": "scope.ser", "w": world0})
        pending.append((case, flags, world0, model, p1, err, m2))
    if p1 is not None:
        # ---- C02 bridge (Model/ScopeSerdeBridge.lean): the written main graph in C02's proto JSON
        breq = sb.bridge_request(p1.graph, int(model.ir_version))
        p3 = None
        if m2 is not None:
            # to_proto(from_proto(p1)): what C02's model (serModel . desModel) is compared with on this generator
            try:
                p3 = serde.serialize_model(m2)
            except Exception:  # noqa: BLE001 - a raise is reported by the C17-side fix-point oracle
                part.count("bridge_reserialization_raised")
        if breq is None:
            part.count("bridge_outside_c02_encoding")
        else:
            lean_reqs.append(breq)
            # graph level: below IR version 10 the real main graph also carries the functions' experimental entries
            pending.append(("B", case, p1, p3 if (model.ir_version >= 10 or not len(model.functions)) else None))
        mreq = sb.model_request(p1)
        if mreq is None:
            part.count("bridge_model_outside_c02_encoding")
        else:
            lean_reqs.append(mreq)
            pending.append(("BM", case, p1, p3))
    if worldM is not None:
        part.count("model_with_functions")
        lean_reqs.append({"m": "scope.mser", "w": worldM})
        pending.append(("M", case, model, p1, err, m2))


def decorate_ir(rng, model, part) -> None:
    """several metadata keys in non-sorted insertion order on model / graphs / nodes / functions, more opset
    imports: what the decoration layer's dict rules are about (a third of the cases)"""
    if rng.random() > 0.35:
        return
    part.count("decorated")
    keys = ["zz", "b", "a", "é", "A", ""]

    def fill(d):
        for k in rng.sample(keys, k=rng.randrange(1, 4)):
            d[k] = rng.choice(["1", "", "v"])

    if rng.random() < 0.6:
        fill(model.metadata_props)
    graphs = [g for g0 in sc.model_graphs(model) for g in sc.iter_graph_tree(g0)]
    for g in rng.sample(graphs, k=min(len(graphs), 2)):
        if rng.random() < 0.5:
            fill(g.metadata_props)
        if rng.random() < 0.3:
            g.doc_string = rng.choice(["", "gdoc2"])
        nodes = list(g)
        if nodes and rng.random() < 0.7:
            fill(rng.choice(nodes).metadata_props)
    if rng.random() < 0.4:
        model.graph.opset_imports[rng.choice(["custom", "z.dom", "a.dom"])] = rng.choice([1, 2])
    for f in model.functions.values():
        if rng.random() < 0.5:
            fill(f.metadata_props)
        if rng.random() < 0.3:
            f.opset_imports[rng.choice(["custom", "z.dom"])] = 1


def diff_deco(part, out: dict, case, deco0, model, p1, err, m2) -> None:
    """decorations (metadata, opset imports, doc / name / producer fields, device configurations, function
    attributes): `serModelD` / `deserModelD` of the Lean model against to_proto / from_proto"""
    if "err" in out and "wf" not in out:
        part.disagree("driver error (scope.dser): " + str(out["err"])[:200], case, out, None)
        return
    part.count("deco_cases")
    part.count(f"deco_wf={out.get('wf')}")  # hypothesis of C03_meta_roundtrip (share published)
    if out.get("wf") is not True:
        part.disagree("decorations read from the real IR have a repeated dict key", case, out.get("wf"), True)
        return
    if out.get("ser_ok"):
        if out.get("ser2_ok") is not True or out.get("q2") != out.get("q") or out.get("reload") != out.get("canon"):
            part.count("model_deco_roundtrip_broken")
            part.disagree("model: C03_meta_roundtrip contradicted by the driver", case, out.get("reload"), out.get("canon"))
    if p1 is None:
        r = sc.root_cause(err)
        if any(k in str(r) for k in sm.DEVICE_ERRORS):
            if out.get("ser_ok"):
                part.disagree("to_proto raises on a device configuration, the model serializes the decorations",
                              case, "ok", str(r)[:100])
            else:
                part.count("deco_both_raise")
        return
    if not out.get("ser_ok"):
        part.disagree("model: serializing the decorations raises, to_proto returns", case, out.get("ser_err"), "ok")
        return
    try:
        real_q = sm.model_proto_to_deco(p1)
    except (sc.OutsideModel, RecursionError) as e:
        part.count(f"deco_proto_outside_model={str(e)[:30]}")
        return
    if real_q != out["q"]:
        d = sm.first_difference(real_q, out["q"])
        part.disagree(f"decorations of the serialized proto differ at {d}", case, out["q"], real_q)
        return
    part.count("deco_proto_agrees")
    if m2 is None:
        return
    try:
        real2 = sm.ir_model_to_deco(m2)
    except (sc.OutsideModel, RecursionError):
        return
    if real2 != out["reload"]:
        d = sm.first_difference(real2, out["reload"])
        part.disagree(f"decorations of from_proto(to_proto(m)) differ at {d}", case, out["reload"], real2)
        return
    part.count("deco_reload_agrees")


def diff_ext(part, out: dict, case, model, p1, err, m2, wf=False) -> None:
    """extended model (merged value metadata, quantization annotations, sharding values): `serializeE` /
    `deserializeE` of the Lean model against to_proto / from_proto on the main graph"""
    if "err" in out and "ser_ok" not in out:
        part.disagree("driver error (scope.eser): " + str(out["err"])[:200], case, out, None)
        return
    part.count("ext_cases")
    if wf:
        part.count("ext_cases_with_functions")
    if "reloadable_ext" in out:
        # hypothesis ReloadableE of C03_roundtrip_ext_partial (core part = hypothesis Reloadable of
        # C03_roundtrip_reloadable), evaluated by the decision procedure of Model/ScopeCert.lean on the IR model
        part.count(f"hyp_reloadable_ext={bool(out['reloadable_ext'])}")
        if out["reloadable_ext"] and out.get("ser_ok") and "reload_fixpoint" in out:
            part.count(f"ext_reload_fixpoint={bool(out['reload_fixpoint'])}")
            if not out["reload_fixpoint"]:
                part.disagree("extended model: hypothesis ReloadableE holds but the reloaded model does not serialize to "
                              "the same proto (contradicts C03_roundtrip_ext_partial: driver / checker defect)",
                              case, out.get("p"), None)
    func_devs = (not wf) and any(n.device_configurations for f in model.functions.values() for n in f.graph.all_nodes())
    if p1 is None:
        r = sc.root_cause(err)
        if any(k in str(r) for k in sm.DEVICE_ERRORS):
            if out.get("ser_ok") and not func_devs:
                part.disagree("to_proto raises on a device configuration, the extended model serializes", case,
                              "ok", str(r)[:100])
            elif not out.get("ser_ok"):
                part.count("ext_both_raise")
        return
    if not out.get("ser_ok"):
        part.disagree("extended model: serialization raises, to_proto returns", case, out.get("ser_err"), "ok")
        return
    if _d107_trigger(model):
        part.count("d107_stale_tensor_metadata")
        return
    try:
        real_p = sm.model_proto_to_ext(p1, {}) if wf else sm.graph_proto_to_ext(p1.graph, {})
    except (sc.OutsideModel, RecursionError) as e:
        part.count(f"ext_proto_outside_model={str(e)[:30]}")
        return
    if not wf and len(p1.functions) and p1.ir_version < 10:
        real_p["vinfo"] = [v for v in real_p["vinfo"] if not ("::" in v[0] and "/" in v[0])]
    if real_p != out["p"]:
        d = sm.first_difference(real_p, out["p"])
        part.disagree(f"extended model: serialized {'model' if wf else 'main graph'} differs at {d}", case, out["p"], real_p)
        return
    part.count("ext_proto_agrees")
    if not wf:
        _diff_effects(part, out, case, model)
    if any(len(q[1]) for q in (real_p["p"] if wf else real_p)["quant"]):
        part.count("ext_with_quant_annotation")
    if out.get("ser2_ok") is not True or out.get("p2") != out["p"]:
        part.disagree("extended model: second serialization differs from the first", case, out.get("p2"), out["p"])
    if m2 is None:
        return
    if not out.get("deser_ok"):
        part.disagree("extended model: deserializeE(serializeE w) raises, from_proto returns", case, out.get("err"), "ok")
        return
    if len(p1.functions) and p1.ir_version < 10:
        return  # the reloaded main graph was built with the experimental entries of the functions in its value_info
    try:
        real2 = sm.canon_world_ext(sm.ir_model_to_world_ext(m2, {}) if wf else sm.ir_graph_to_world_ext(m2.graph, {}))
    except (sc.OutsideModel, RecursionError):
        return
    mod2 = sm.canon_world_ext({"world": out["world2"], "ext": out["ext2"]})
    if real2 != mod2:
        d = sm.first_difference(real2, mod2)
        part.disagree(f"extended model: deserializeE(serializeE w) differs at {d}", case, mod2, real2)
        return
    part.count("ext_reload_agrees")


def _diff_effects(part, out: dict, case, model) -> None:
    """the effect log of `serializeEff` (Model/ScopeEff.lean; C03_pure_sites / C03_pure_frame) against what to_proto
    did to the real tensors: every logged effect is at a write site of the model (hypothesis of C03_pure_frame,
    share published), replaying the log gives the heap the model's serializer returns, the tensor names of the
    real model after to_proto are the ones after the replay, and a tensor that no effect names kept its name"""
    if not out.get("eff_ok"):
        part.disagree("extended model: serializeEff raises although serializeE returned", case, out.get("eff_ok"), True)
        return
    part.count(f"effects_at_sites={out.get('effects_at_sites')}")
    part.count("effects_logged", len(out.get("effects", [])))
    if out.get("effects_at_sites") is not True or out.get("replay_agrees") is not True:
        part.disagree("model: C03_pure_sites contradicted by the driver", case,
                      [out.get("effects_at_sites"), out.get("replay_agrees")], [True, True])
        return
    try:
        after = sm.ir_graph_to_world_ext(model.graph, {})["world"]["tens"]
    except Exception:  # noqa: BLE001
        return
    names_model = [t[0] for t in out.get("tens_after", [])]
    names_real = [t[0] for t in after]
    if names_real != names_model:
        part.disagree("tensor names after to_proto differ from the replay of the model's effect log", case,
                      names_model, names_real)
        return
    written = {e[1] for e in out["effects"]}
    last = {}
    for e in out["effects"]:
        last[e[1]] = e[3]
    for t, nm in last.items():
        if t < len(names_real) and names_real[t] != nm:
            part.disagree(f"tensor {t}: the last logged write assigns {nm!r}, the real tensor is named {names_real[t]!r}",
                          case, nm, names_real[t])
            return
    part.count("effects_agree")
    part.count("tensors_not_written", len(names_real) - len(written))


def check_write_sites(ctx) -> None:
    """the write sites of to_proto: every assignment / deletion / mutating call on an IR object in the functions
    reachable from serde.py's serialize* entry points (AST of the imported module) against `writeSites` of
    Model/ScopeEff.lean.  A site the model does not have is a broken correspondence (C03_pure_sites / C03_pure_frame
    are about the model's list); a site of the model that the code no longer has is reported too."""
    case = {"scan": "onnx_ir.serde serialize* write sites"}
    try:
        real = sm.serde_write_sites()
    except Exception as e:  # noqa: BLE001
        ctx.disagree(f"write-site scan of serde.py failed: {type(e).__name__}: {e!s:.120}", case, None, None)
        return
    out = lean_batch([{"m": "scope.sites"}])[0]
    model_sites = sorted(tuple(x) for x in out.get("sites", []))
    real_sites = sorted({tuple(k) for _, _, k in real})
    ctx.count("write_sites_found_in_serde", len(real))
    ctx.count("write_sites_of_model", len(model_sites))
    ctx.exhaustive_scopes.append("every function reachable from serde.py's serialize*/to_proto entry points: all "
                                 "assignments, deletions and mutating container calls on non-proto, non-local objects")
    if real_sites != model_sites:
        extra = [f"{f}: {t}" for f, t, k in real if tuple(k) not in model_sites]
        gone = [list(k) for k in model_sites if k not in real_sites]
        what = "to_proto write sites differ from Model/ScopeEff.lean"
        if extra:
            what += ": new write site " + "; ".join(extra)[:160]
        if gone:
            what += f": site of the model not found in serde.py {gone}"
        ctx.disagree(what, dict(case, found=[[f, t] for f, t, _ in real]), [list(k) for k in model_sites],
                     [list(k) for k in real_sites])
    else:
        ctx.count("write_sites_agree")


def diff_case_model(part, out: dict, case, model, p1, err, m2) -> None:
    """main graph AND functions against `serializeM` / `deserializeM` of the Lean model"""
    if "err" in out and "ser_ok" not in out:
        part.disagree("driver error (scope.mser): " + str(out["err"])[:200], case, out, None)
        return
    if p1 is None:
        if out.get("ser_ok"):
            r = sc.root_cause(err)
            if isinstance(r, TypeError) and ("NoneType" in str(r) or "bad argument type" in str(r)):
                part.disagree("to_proto raises on a None name, model (with functions) serializes", case, True,
                              f"raised {r!s:.80}")
            elif "Cannot serialize a ShardingSpec" in str(r) or "Unsupported attribute type: UNDEFINED" in str(r):
                part.count("to_proto_raised_outside_model=" + str(r)[:40])
            else:
                part.disagree("to_proto raises for an unexplained reason, model (with functions) serializes", case,
                              True, f"{type(r).__name__}: {r!s:.100}")
        return
    if not out.get("ser_ok"):
        part.disagree("model (with functions) serialization raises (None name), to_proto returns", case, False, True)
        return
    if _d107_trigger(model):
        part.count("d107_stale_tensor_metadata")
        return
    try:
        real_p = sc.model_proto_to_model(p1)
    except sc.OutsideModel as e:
        part.count(f"proto_outside_model={e.args[0][:30]}")
        return
    mod_p = out["p"]
    if real_p != mod_p:
        what = "serialized model proto differs"
        if real_p["p"] != mod_p["p"]:
            what += " (main graph)"
        else:
            for i, (a, b) in enumerate(zip(real_p["funcs"], mod_p["funcs"])):
                if a != b:
                    what += f" (function {i}: {[k for k in a if a[k] != b.get(k)]})"
                    break
            else:
                what += " (number of functions)"
        part.disagree(what, case, mod_p, real_p)
        return
    if out.get("ser2_ok") is not True or out.get("p2") != mod_p:
        part.disagree("model (with functions): second serialization differs from the first", case, out.get("p2"), mod_p)
    if m2 is not None:
        if not out.get("deser_ok"):
            part.disagree("model: deserializeM(serializeM w) raises, from_proto returns", case, out.get("err"), "ok")
            return
        try:
            real2 = sc.canon_world(sc.ir_model_to_world(m2))
        except sc.OutsideModel:
            return
        mod2 = sc.canon_world(out["world2"])
        risky = _metadata_merge_names(p1.graph)
        for f in p1.functions:
            with_meta = {e.name for e in f.value_info if len(e.metadata_props)}
            risky |= with_meta
        if risky:
            part.count("lenient_metadata_merge")
            for w in (real2, mod2):
                for c in w["vals"]:
                    if c["name"] in risky:
                        c["info"] = [c["info"][0], c["info"][1], None]
        if real2 != mod2:
            what = "deserializeM(serializeM w) differs"
            for k in ("root", "funcs", "tens", "vals"):
                if real2.get(k) != mod2.get(k):
                    what += f" ({k})"
            part.disagree(what, case, mod2, real2)
    elif out.get("deser_ok"):
        part.disagree("from_proto(to_proto(m)) raises, the model (with functions) deserializes its own serialization",
                      case, "ok", _reload_error(p1))


def _reload_error(p1) -> str:
    """why from_proto raised on the serialized model: wrapper chain + root cause"""
    from onnx_ir import serde

    try:
        serde.deserialize_model(p1)
    except Exception as e:  # noqa: BLE001
        r = sc.root_cause(e)
        where = "deserialize_function" if sc.error_chain_mentions(e, "Error calling deserialize_function") else sc.innermost_wrapper(e)
        return f"{where}: {type(r).__name__}: {r!s:.100}"
    return "did not raise on replay"


def diff_case(part, out: dict, case, flags, world0, model, p1, err, m2) -> None:
    if "err" in out and "ser_ok" not in out:
        part.disagree("driver error: " + str(out["err"])[:200], case, out, None)
        return
    lenient = False
    try:
        core = sc.serializable_core(model.graph)
    except RecursionError:
        core = None
    if core is not None and bool(out.get("serializable")) != core:
        part.disagree("Serializable: Lean predicate and harness predicate differ", case, out.get("serializable"), core)
    notes: list = []
    if (sc.serializable_reason(model, notes) is None and not notes and sc.info_core(model.graph)
            and not out.get("serializable")):
        part.disagree("oracle gate accepts a model outside the hypothesis of C03_roundtrip", case,
                      out.get("serializable"), "serializable_reason=None")
    part.count(f"lean_serializable={out.get('serializable')}")
    if p1 is None:
        if out.get("ser_ok"):
            r = sc.root_cause(err)
            none_name = isinstance(r, TypeError) and ("NoneType" in str(r) or "bad argument type" in str(r))
            if sc.error_chain_mentions(err, "serialize_function_into"):
                part.count("to_proto_raised_in_function")  # functions are not part of THIS request (scope.mser covers them)
            elif none_name:
                part.disagree("to_proto raises on a None name, model serializes", case, True, f"raised {r!s:.80}")
            elif "Cannot serialize a ShardingSpec" in str(r) or "Unsupported attribute type: UNDEFINED" in str(r):
                part.count("to_proto_raised_outside_model=" + str(r)[:40])  # device configurations / attribute payloads
            else:
                part.disagree("to_proto raises for an unexplained reason, model serializes", case, True,
                              f"{type(r).__name__}: {r!s:.100}")
        return
    if not out.get("ser_ok"):
        part.disagree("model serialization raises (None name), to_proto returns", case, False, True)
        return
    try:
        real_p = _strip_experimental(sc.graph_proto_to_model(p1.graph))
    except sc.OutsideModel as e:
        part.count(f"proto_outside_model={e.args[0][:30]}")
        return
    mod_p = out["p"]
    if lenient:
        part.count("lenient_shape_only")
    elif real_p != mod_p and _d107_trigger(model):
        # D107: to_proto resurrects the metadata of a proto-backed tensor whose keys were all deleted; the
        # tensor tokens of the written proto then differ from the IR's (reported by the oracle as a failing input)
        part.count("d107_stale_tensor_metadata")
        return
    elif real_p != mod_p:
        what = "serialized proto differs"
        for k in ("inputs", "inits", "vinfo", "outputs", "nodes"):
            if real_p[k] != mod_p[k]:
                what += f" ({k})"
                break
        part.disagree(what, case, mod_p, real_p)
        return
    if out.get("ser2_ok") is not True or out.get("p2") != mod_p:
        part.disagree("model: second serialization differs from the first", case, out.get("p2"), mod_p)
    # the side effect: tensor names afterwards (numbering of world0 = first encounter, recomputed)
    after = sc.ir_graph_to_world(model.graph)
    if [t[0] for t in after["tens"]] != [t[0] for t in out["tens_after"]]:
        part.disagree("tensor names after serialization differ", case, [t[0] for t in out["tens_after"]],
                      [t[0] for t in after["tens"]])
    # deserialize(serialize w)
    if m2 is not None and not lenient:
        if not out.get("deser_ok"):
            part.disagree("model: deserialize(serialize w) raises, from_proto returns", case, out.get("err"), "ok")
            return
        try:
            real2 = sc.canon_world(sc.ir_graph_to_world(m2.graph))
        except sc.OutsideModel:
            return
        mod2 = sc.canon_world(out["world2"])
        risky = _metadata_merge_names(p1.graph)
        if risky:
            # the real code merges the metadata of several entries for one name (value_info + output, ...),
            # the model's documentation token is replaced as a whole: not comparable for these names
            part.count("lenient_metadata_merge")
            for w in (real2, mod2):
                for c in w["vals"]:
                    if c["name"] in risky:
                        c["info"] = [c["info"][0], c["info"][1], None]
        if real2 != mod2:
            what = "deserialize(serialize w) differs"
            for k in ("root", "tens", "vals"):
                if real2[k] != mod2[k]:
                    what += f" ({k})"
            part.disagree(what, case, mod2, real2)
    elif m2 is None and out.get("deser_ok"):
        why = _reload_error(p1)
        if "deserialize_function" in why:
            part.count("from_proto_raised_in_function")  # functions are not part of THIS request (scope.mser covers them)
        else:
            part.disagree("from_proto(to_proto(m)) raises, the model deserializes its own serialization", case,
                          "ok", why)


# --------------------------------------------------------------------------- worker / run


def _flush(part, reqs: list, pending: list) -> None:
    """answer the queued model requests and diff them; the queues are emptied (bounded memory in the thorough tier)"""
    for out, p in zip(lean_batch(reqs), pending):
        if p[0] == "M":
            diff_case_model(part, out, *p[1:])
        elif p[0] == "A":
            sa.c03_diff(part, out, *p[1:])
        elif p[0] == "D":
            diff_deco(part, out, *p[1:])
        elif p[0] == "E":
            diff_ext(part, out, *p[1:])
        elif p[0] == "E9":
            sx9.diff_c03(part, out, *p[1:], d107=_d107_trigger)
        elif p[0] == "B":
            sb.diff_bridge(part, out, *p[1:])
        elif p[0] == "BM":
            sb.diff_bridge_model(part, out, *p[1:])
        else:
            diff_case(part, out, *p)
    reqs.clear()
    pending.clear()


def _worker(args) -> Part:
    seed, n = args
    _quiet()
    rng = random.Random(seed)
    part = Part()
    reqs: list = []
    pending: list = []
    for _ in range(n):
        run_case(part, rng.randrange(2**62), rng.choice([0.0, 0.0, 0.05, 0.15, 0.4]), reqs, pending)
        if len(reqs) >= 1500:
            _flush(part, reqs, pending)
    _flush(part, reqs, pending)
    return part


def run(ctx: Ctx) -> None:
    _quiet()
    ctx.rule = (
        "a case = one generated IR model (generator seed, irregularity rate); non-trivial = at least one "
        "node; the isomorphism oracle applies to serializable models, purity/determinism to all"
    )
    for obj in load_corpus("C03"):
        replay(ctx, obj)
    check_write_sites(ctx)
    sa.c03_odd_stream(ctx, ctx.pick(150, 3000))  # attribute layer: the attributes on which serialization raises
    shards = 16
    n = ctx.pick(2400, 60000) // shards
    seeds = [ctx.rng.randrange(2**62) for _ in range(shards)]
    for part in pmap(_worker, [(s, n) for s in seeds]):
        ctx.merge(part)


def _replay_cases(obj: dict) -> list:
    """the case of a corpus line / failing-input replay, or the cases of the recorded correspondence
    disagreements of an unchecked-obligation replay"""
    if obj.get("case"):
        return [obj["case"]]
    ds = [d["case"] for d in obj.get("correspondence_disagreements") or [] if isinstance(d, dict) and d.get("case")]
    return ds or [obj]


def replay(ctx: Ctx, obj: dict) -> None:
    _quiet()
    part = Part()
    reqs: list = []
    pending: list = []
    for case in _replay_cases(obj):
        if "attr_stream" in case:
            sa.c03_odd_case(part, case, reqs, pending)
            continue
        run_case(part, case["gen_seed"], case["p_odd"], reqs, pending)
    for out, p in zip(lean_batch(reqs), pending):
        if p[0] == "M":
            diff_case_model(part, out, *p[1:])
        elif p[0] == "A":
            sa.c03_diff(part, out, *p[1:])
        elif p[0] == "D":
            diff_deco(part, out, *p[1:])
        elif p[0] == "E":
            diff_ext(part, out, *p[1:])
        elif p[0] == "E9":
            sx9.diff_c03(part, out, *p[1:], d107=_d107_trigger)
        elif p[0] == "B":
            sb.diff_bridge(part, out, *p[1:])
        elif p[0] == "BM":
            sb.diff_bridge_model(part, out, *p[1:])
        else:
            diff_case(part, out, *p)
    ctx.merge(part)

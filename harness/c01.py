"""C01 — use-def and ownership links stay consistent under every edit history (DESIGN.md 5/C01).

Theorems: `WF` (the invariant) is preserved by every operation of the kernel model for every argument and
outcome, hence after every history.  Correspondence: random histories over the public mutation alphabet run
on the real objects and on the Lean model (`kernel.run`), outcome and state delta compared after every call.
Oracle: `kernel_ops.wf_oracle` — the invariant itself on the real objects through public accessors.
"""
from __future__ import annotations

from harness import kernel_ops as K
from harness.common import Ctx, load_corpus

PROP = "C01"
THEOREMS = [
    "IrVerif.Kernel.C01_init",
    "IrVerif.Kernel.C01_step",
    "IrVerif.Kernel.C01_step_conv",
    "IrVerif.Kernel.C01_step_any",
    "IrVerif.Kernel.C01_history",
    "IrVerif.Kernel.C01_history_from",
]
ASSUMPTIONS = [
    "arguments are existing objects of the right class (the model is typed); Value(producer=...), the raw "
    "Node.graph setter and underscore attributes are outside the alphabet",
    "the node sequence is modelled as a duplicate-free list (its pointer-level refinement is C11's)",
    "Python asserts used as internal consistency checks are not error points of the model",
]


def run(ctx: Ctx) -> None:
    ctx.rule = (
        "a case is one history (list of calls with concrete arguments); non-trivial when it contains a call "
        "other than object construction of values; distinct by the canonical op list"
    )
    for obj in load_corpus(PROP):
        K.replay_ops(ctx, PROP, obj["ops"])
    scope = K.run_exhaustive(ctx, PROP, depth=ctx.pick(2, 3), reduced=not ctx.quick)
    ctx.exhaustive_scopes.append(scope)
    K.run_random(ctx, PROP, ctx.pick(2000, 40000), ctx.pick(40, 60))


def replay(ctx: Ctx, obj: dict) -> None:
    ops = obj.get("case", obj).get("ops")
    K.replay_ops(ctx, PROP, ops)

"""C01 — use-def and ownership links stay consistent under every edit history (DESIGN.md 5/C01).

Theorems (lean/IrVerif/Props/C01.lean): the invariant `WF` = I_use, I_prod, I_root, I_own, I_key, I_node is
preserved by every call of the kernel model (`Model/Kernel.lean`) for every argument and outcome — single
calls (`C01_step`) and the composite convenience calls (`C01_step_conv`) — hence after every history.
Correspondence: exhaustive small-scope histories + random histories over the public mutation alphabet are
run on the real objects and on the Lean model (`kernel.run`); outcome and state delta (every record that
changed, objects as creation indices) are compared after every call.
Oracle: `kernel_ops.wf_oracle` — the invariant itself on the real objects through public accessors only.
"""
from __future__ import annotations

from harness import kernel_ops as K
from harness.common import Ctx, load_corpus

PROP = "C01"
THEOREMS = [
    "IrVerif.Kernel.C01_init",
    "IrVerif.Kernel.C01_step",
    "IrVerif.Kernel.C01_step_conv",
    "IrVerif.Kernel.C01_step_any",
    "IrVerif.Kernel.C01_history",
    "IrVerif.Kernel.C01_history_from",
    "IrVerif.Kernel.C01_node_sequence_refined",
    "IrVerif.Kernel.C01_node_sequence_history",
    "IrVerif.Kernel.C01_graph_calls_use_seq",
]
ASSUMPTIONS = [
    "alphabet: Value(...), const_value=, Node(...) (inputs, num_outputs / outputs, graph=, name), Graph(...), "
    "replace_input_with, resize_inputs/outputs, Value.replace_all_uses_with, every mutator of the tracked "
    "input/output lists (append extend insert pop remove clear [i]= [a:b:c]= del[i] del[a:b:c] reverse += *=) and of "
    "the initializer mapping (d[k]= del d[k] add pop popitem clear update |= setdefault register_initializer), "
    "Value.name=, Graph/Function.append extend insert_before insert_after remove(safe) sort, Node.append/prepend, "
    "convenience.replace_all_uses_with / rename_values / replace_nodes_and_values",
    "arguments are existing objects of the right class (the model is typed); Value(producer=...), the raw "
    "Node.graph setter, underscore attributes, `.data` and list.sort()/copy() are outside the alphabet",
    "the node sequence is modelled as a duplicate-free list with the documented move semantics; "
    "C01_node_sequence_refined instantiates it with C11's pointer-level LinkedSet model (toList after each operation = "
    "the kernel's list function, raise flags agree); Graph.sort enters the model as 'some permutation of each "
    "involved graph' (C12 decides which)",
    "const tensors accept renaming, except where a refusing tensor (read-only name) is generated: only on values that "
    "already have a non-empty name, so that Value.name= / rename_values meet it but the implicit naming paths (name "
    "authority, initializers[key] = unnamed value) never do",
    "Python asserts used as internal consistency checks are not error points of the model; inside the mutation "
    "phase of one call the model may order primitive effects differently from the statements (no error point in between)",
    "the name authority's generated names use a bounded loop (|seen|+1 iterations suffice: C15)",
]


def run(ctx: Ctx) -> None:
    ctx.rule = (
        "a case is one history (list of calls with concrete arguments, objects as creation indices); non-trivial "
        "when it contains a call other than value / tensor construction; distinct by the canonical call list"
    )
    for obj in load_corpus(PROP):
        K.replay_ops(ctx, PROP, obj["ops"])
    scope = K.run_exhaustive(ctx, PROP, depth=ctx.pick(2, 3), reduced=not ctx.quick)
    ctx.exhaustive_scopes.append(scope)
    ctx.exhaustive_scopes.append(K.run_after_reject(ctx, PROP, depth=ctx.pick(3, 4)))
    ctx.notes.append("directed: " + K.run_sort_scenarios(ctx, PROP))
    ctx.notes.append("directed: " + K.run_position_scenarios(ctx, PROP))
    K.run_random(ctx, PROP, ctx.pick(2000, 40000), ctx.pick(40, 60))


def replay(ctx: Ctx, obj: dict) -> None:
    ops = obj.get("case", obj).get("ops")
    K.replay_ops(ctx, PROP, ops)

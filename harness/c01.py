"""C01 — use-def and ownership links stay consistent under every edit history (DESIGN.md 5/C01).

Theorems (lean/IrVerif/Props/C01.lean): the invariant `WF` = I_use, I_prod, I_root, I_own, I_key, I_node is
preserved by every call of the kernel model (`Model/Kernel.lean`) for every argument and outcome — single
calls (`C01_step`) and the composite convenience calls (`C01_step_conv`) — hence after every history.
Correspondence: exhaustive small-scope histories + random histories over the public mutation alphabet are
run on the real objects and on the Lean model (`kernel.run`); outcome and state delta (every record that
changed, objects as creation indices) are compared after every call.
Oracle: `kernel_ops.wf_oracle` — the invariant itself on the real objects through public accessors only.
Round 4: `C01_sort_exact` (an accepted sort leaves every graph of the nest with exactly the entry C12's sort model
returned), GraphView in the model (`Model/KernelView.lean`; `C01_view_frame`, `C01_views_erasable`, `C01_history_views`)
and compared with the real class (content of every view after every call; deep snapshot of all IR objects across every
view operation).
Alphabet tie (round 3): `kernel_ops.check_alphabet` introspects the real classes (Graph, Function, GraphView, Node,
Value, the tracked lists, GraphInitializers, Attributes, Tape, Builder, onnx_ir.convenience, onnx_ir.tape) and
compares every public member with `kernel_ops.API_TABLE` (mapped to a model operation and exercised >= 100 times
per run / outside the alphabet with a reason / query); an unclassified member is a broken correspondence.
"""
from __future__ import annotations

from harness import kernel_ops as K
from harness.common import Ctx, load_corpus

PROP = "C01"
THEOREMS = [
    "IrVerif.Kernel.C01_init",
    "IrVerif.Kernel.C01_step",
    "IrVerif.Kernel.C01_mutation_faithful",
    "IrVerif.Kernel.C01_rename_faithful",
    "IrVerif.Kernel.C01_step_conv",
    "IrVerif.Kernel.C01_step_any",
    "IrVerif.Kernel.C01_history",
    "IrVerif.Kernel.C01_history_from",
    "IrVerif.Kernel.C01_use_iff",
    "IrVerif.Kernel.C01_uses_nodup",
    "IrVerif.Kernel.C01_producer_iff",
    "IrVerif.Kernel.C01_node_iff",
    "IrVerif.Kernel.C01_nodes_nodup",
    "IrVerif.Kernel.C01_input_iff",
    "IrVerif.Kernel.C01_output_iff",
    "IrVerif.Kernel.C01_initializer_iff",
    "IrVerif.Kernel.C01_initializer_key",
    "IrVerif.Kernel.C01_roots",
    "IrVerif.Kernel.C01_counters",
    "IrVerif.Kernel.C01_node_sequence_refined",
    "IrVerif.Kernel.C01_node_sequence_history",
    "IrVerif.Kernel.C01_graph_calls_use_seq",
    "IrVerif.Kernel.C01_attr_frame",
    "IrVerif.Kernel.C01_sort_step",
    "IrVerif.Kernel.C01_sort_exact",
    "IrVerif.Kernel.C01_sort_accepted_iff",
    "IrVerif.Kernel.C01_view_frame",
    "IrVerif.Kernel.C01_views_erasable",
    "IrVerif.Kernel.C01_history_views",
]
ASSUMPTIONS = [
    "alphabet: Value(...), const_value= (also a tensor whose name cannot be assigned), Node(...) (inputs, num_outputs / "
    "outputs, graph=, name, GRAPH / GRAPHS attributes, a non-Attr attribute), Graph(...), replace_input_with, "
    "resize_inputs/outputs, Value.replace_all_uses_with, every mutator of the tracked input/output lists (append extend "
    "insert pop remove clear [i]= [a:b:c]= del[i] del[a:b:c] reverse += *=) and of the initializer mapping (d[k]= del d[k] "
    "add pop popitem clear update |= setdefault register_initializer), Value.name=, Graph/Function.append extend "
    "insert_before insert_after remove(safe) sort, Node.append/prepend, Node.name=, Node.op_type=, Value.const_value=None, "
    "list.sort(key=, reverse=) of the tracked lists, every mutator of node.attributes ([k]= add update |= setdefault del "
    "pop popitem clear; GRAPH / GRAPHS / plain attributes), Tape.op / op_multi_out / initializer, Builder.<Op>(...), "
    "convenience.replace_all_uses_with / rename_values / replace_nodes_and_values; one-shot iterator arguments and the "
    "same node listed twice for extend / insert_* / remove; GraphView(...) (any values / nodes, owned or not, repeated; an "
    "unnamed initializer), assignment of its inputs / outputs / initializers slots, edits of its plain initializer dict, "
    "dropping it (round 4: the views live next to the kernel world, Model/KernelView.lean). The complete member-by-member table is "
    "kernel_ops.API_TABLE (published under coverage.alphabet, with the number of times each mapped member was exercised)",
    "OUTSIDE the alphabet (public, listed with its reason in API_TABLE): the raw `Node.graph = x` setter, fields that are "
    "not kernel state (domain / version / overload / doc_string / meta / metadata_props / type / shape / device "
    "configurations), the GraphView members that are not kernel state (name / doc_string / opset_imports / meta / "
    "metadata_props and the never-read slot `nodes`: each exercised by the per-member probe `graphview-members`, none can "
    "mutate IR state), underscore attributes and `.data`, sort() on a nest in which a graph contains itself (the library's "
    "traversal does not terminate); the copies of the tracked containers are plain dict / list since fixes D420-D422 (the "
    "failing inputs are re-run on every run); "
    "`Value(producer=n, index=i)` is generated and recorded as known finding D87",
    "arguments are existing objects of the right class (the model is typed)",
    "the node sequence is a duplicate-free list with the documented move semantics; C01_node_sequence_refined instantiates it "
    "with C11's pointer-level LinkedSet model; Graph.sort is computed by the model itself: C12's `sortModel` on the object "
    "tree read off the model state (`treeOf`: node sequences, producers, graph-valued attributes in dict order); "
    "C01_sort_step (hypothesis: C12's well-formedness of that tree - no Graph object reachable through two attributes - "
    "evaluated by the driver on every sort call, share published as hyp:C01_sort_step.SortWF) shows that the result is a "
    "permutation per graph, so the 'refuse a non-permutation' totalisation never decides; C01_sort_exact (same hypotheses + "
    "the call is accepted; its conclusion is evaluated by the driver on every accepted sort and published as "
    "concl:C01_sort_exact) shows that every graph of the nest is left with exactly the entry the sort model returned; node "
    "attributes are model state",
    "model = validation, then a mutation phase of guarded primitives whose failing check makes the call raise with the "
    "partial state (ghost counter `late`); C01_mutation_faithful proves that no check fails after a passed validation; "
    "inside one mutation phase the model may order primitive effects differently from the Python statements; Python "
    "asserts are not error points",
    "slice positions are clamped / filtered / de-duplicated in the model (identity on the positions Python computes); "
    "initializers.update is validated by a dry run of the per-entry checks (the code keeps a pending-names table)",
    "values whose const tensor refuses renaming meet the implicit naming paths; model and code (fix D85, repo da95b1f) "
    "probe the tensor in the validation phase",
    "the name authority's generated names use a bounded loop (|seen|+1 iterations suffice: C15)",
    "every call on the real objects and every oracle / snapshot read runs under a per-step timer (20 s): real code that "
    "does not return is a failure `nontermination:<call>` (after 3 of them no further history is started); an accessor "
    "that raises while an oracle reads the state is a violated clause / a changed snapshot, never a harness crash",
]


def run(ctx: Ctx) -> None:
    ctx.rule = (
        "a case is one history (list of calls with concrete arguments, objects as creation indices); non-trivial "
        "when it contains a call other than value / tensor construction; distinct by the canonical call list"
    )
    K.reset_nonterm()
    for obj in load_corpus(PROP):
        K.replay_ops(ctx, PROP, obj["ops"])
    scope = K.run_exhaustive(ctx, PROP, depth=ctx.pick(2, 3), reduced=not ctx.quick)
    ctx.exhaustive_scopes.append(scope)
    ctx.exhaustive_scopes.append(K.run_after_reject(ctx, PROP, depth=ctx.pick(3, 4)))
    ctx.notes.append("directed: " + K.run_sort_scenarios(ctx, PROP))
    ctx.notes.append("directed: " + K.run_position_scenarios(ctx, PROP))
    ctx.notes.append("directed: " + K.run_view_scenarios(ctx, PROP))
    ctx.notes.append("directed: " + K.run_multiplicity_scenarios(ctx, PROP))
    K.run_random(ctx, PROP, ctx.pick(2000, 40000), ctx.pick(40, 60))
    K.check_alphabet(ctx, PROP)


def replay(ctx: Ctx, obj: dict) -> None:
    ops = obj.get("case", obj).get("ops")
    K.replay_ops(ctx, PROP, ops)

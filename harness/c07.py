"""C07 — external-data save/load preserves every initializer; layout well formed (DESIGN.md 5/C07).

Correspondence (model = lean/IrVerif/Model/Layout.lean through the `layout.*` driver commands):
  A. the pure layout functions of onnx_ir.external_data / _safetensors / _shard_filename
     (`_align_offset`, `_compute_external_data_info` loop, both `_shard_tensors`,
     `get_shard_filename`) on generated arguments;
  B. whole saves through the real `ir.save(..., external_data=...)` / `ir.save_safetensors`:
     the state of every initializer that serialization sees (same object / in-memory copy /
     new ExternalTensor with location, offset, length), the bytes of every data file, and the
     value -> tensor map after the call (also when the save raises), against the model.
  C. (deepening rounds) whole safetensors file images and saves on initializer positions (`layout.st_file`,
     `layout.st_save`, `layout.st_unload`), the restore loop through the setter in DEBUG mode and under an
     asynchronous exception (`layout.save_run_checked`, `layout.save_run_async`), generated call sequences
     mixing both backends (`layout.seq`), COMPLEX128 on the safetensors backend (KeyError, nothing changes).
Every call of real code runs under a CPU/wall guard (`alarm_guard`): a timeout is the failure
`nontermination:*`, an exception of real code called on stubs a disagreement, never a hung or crashed check.
Oracle (independent of the model, on the real objects and files): ranges follow declaration order,
are disjoint, inside the file and aligned; threshold respected; shard limit; shard file names
distinct; reload with `ir.load` gives name/dtype/shape/bytes of the originals; the model object
holds the same tensor objects afterwards.
"""
from __future__ import annotations

import contextlib
import itertools
import os
import random
import re
import signal
import tempfile
import threading
import time
import types

import numpy as np

from harness.common import Ctx, Part, lean_batch_parallel, load_corpus, pmap

NS = "IrVerif.Layout."
THEOREMS = [NS + n for n in (
    "C07_disjoint",
    "C07_monotone",
    "C07_lengths",
    "C07_within",
    "C07_aligned",
    "C07_first_at_zero",
    "C07_shards_partition",
    "C07_shard_limit",
    "C07_readback",
    "C07_readback_layout",
    "C07_shards_partition_st",
    "C07_shard_limit_st",
    "C07_model_restored",
    "C07_image_order_independent",
    "C07_roundtrip",
    "C07_dataFiles_schedule",
    "C07_filename_dir",
    "C07_filename_inj",
    "C07_filename_ne_base",
    "C07_filename_parts",
    "C07_threshold",
    "C07_threshold_st",
    "C07_roundtrip_value",
    "C07_serialize_sees_unloaded",
    "C07_placement_shard",
    "C07_st_cover",
    "C07_st_disjoint",
    "C07_st_within",
    "C07_st_order",
    "C07_st_readback",
    "C07_st_roundtrip",
    "C07_st_dtype_roundtrip",
    "C07_model_restored_checked",
    "C07_setter_nodebug",
    "C07_restore_stops",
    "C07_roundtrip_value_c04",
    "C07_readback_shared",
    "C07_rawBackend_ok",
    "C07_sequence_preserves",
    "C07_sequence_init",
    "C07_sequence_save_load",
    "C07_st_unload_values",
    "C07_st_roundtrip_values",
    "C07_stBackend_ok",
    "C07_sequence_mixed",
    "C07_sequence_mixed_save_load",
    "C07_restore_async",
    "C07_st_keyerror_iff",
)]
ASSUMPTIONS = [
    "tensor.nbytes == len(tensor.tobytes()): imported from C04 for tensors given by element width + elements "
    "(C07_roundtrip_value_c04 uses C04_nbytes); for an arbitrary TensorProtocol object (LazyTensor whose function returns "
    "another size, third-party tensors) it remains the hypothesis hlen of C07_roundtrip_value",
    "initializer names: the raw backend is positional (names play no role; same name in main graph and subgraph, shared "
    "tensor objects: C07_readback_shared, generated); the safetensors backend re-points BY NAME (stReplace) and the theorem "
    "C07_st_roundtrip has the hypothesis 'names pairwise different', which is the check save_safetensors performs up front "
    "(stNamesOk: duplicates and the reserved name __metadata__ are rejected before anything is written; both generated)",
    "external_data paths: os.path.normpath of the recorded location is Python's (the model works on the path as "
    "given and the harness normalises the model's answer); un-normalised relative paths and the rejection of an "
    "absolute path are generated; the path algebra itself is C10's model",
    "name, dtype and shape of an initializer survive the proto round trip: checked on every case (differential), "
    "proved in C02/C03, not here",
    "safetensors container: the writer (ordering by descending dtype then name, contiguous data_offsets, JSON header "
    "padded with spaces to 8 bytes, the binding's dtype names, F4's doubled last dimension) is the safetensors library's; "
    "it is MODELLED (Model/LayoutSt.lean) and compared with the real library byte for byte on every run (whole file images "
    "of generated shards and of every generated save), not verified; JSON parse(print(x)) = x for the header is assumed "
    "(the model's reader works on the entries, _read_safetensors' arithmetic begin+N+8 / end-begin is modelled)",
    "file system: seek past EOF leaves a hole that reads as zeros; os.replace is atomic (C08); thread schedules "
    "of the parallel writer are modelled as an arbitrary order of the writes (the protocol itself is C09)",
    "the restore loop is modelled step by step through the const_value setter (restoreLoop): it cannot raise when every "
    "original const_value passes the setter's check, which is always so outside onnx_ir.DEBUG mode (C07_setter_nodebug); "
    "in DEBUG mode with a duck-typed tensor it raises and stops (C07_restore_stops; observation D430, counted, outside the "
    "C07 statement); an ASYNCHRONOUS exception delivered inside the loop (KeyboardInterrupt, a raising signal handler) ends "
    "it after n completed assignments: modelled (restoreLoopCut / saveRunAsync), C07_restore_async says exactly what is "
    "restored (the first n remembered values; the others keep what the save put there: observation D435, counted, outside "
    "the C07 statement - no Python finally loop can keep the clause under asynchronous exceptions); tied to the code by "
    "raising KeyboardInterrupt from a trace function on entry of the const_value setter for the (n+1)-th restoring "
    "assignment (the setter's only effect is one attribute store, so this covers every delivery point inside the loop; "
    "delivery inside the try block is the ordinary failure-point family)",
    "call sequences: references into a data file that a later save replaced are 'stale' and nothing is claimed about them "
    "(the raw writer invalidates the large ones; small ones and the safetensors backend do not: observations D431/D433, "
    "counted); a call handed a stale tensor is outside the sequence theorem; Backend.Ok is proved for BOTH backends "
    "(C07_rawBackend_ok; C07_stBackend_ok under the name check of save_safetensors, with the shards staged and moved into "
    "place after the last one was written, so that the files are a function of the values read beforehand); every "
    "generated sequence, mixed ones included, is compared with the sequence model step by step; the safetensors instance "
    "describes saves that get past the dtype table (no COMPLEX128 at/above the threshold: sequences use UINT8)",
    "safetensors on initializer positions (C07_st_unload_values, C07_st_roundtrip_values): hypotheses = the up-front name "
    "check (stNamesOk over the values holding a non-string tensor) and, for the loaded view, stSaveOk (every saved dtype "
    "has a table entry); both evaluated on every generated safetensors case independently of the model and published "
    "(hyp_st_names_ok, hyp_st_dtypes_ok); the proto round trip of (location, offset, length, dtype, dims) and of inline "
    "tensors is differential here (C02/C03); COMPLEX128: no table entry, at/above the threshold the save raises KeyError "
    "while the shard dictionary is built and no file of the directory changes (C07_st_keyerror_iff; family st_keyerror "
    "with files of the same names already present), below it the tensor stays inline and the save succeeds (generated)",
    "POSIX path semantics (posixpath.split/splitext/join) for shard names",
]


# ------------------------------------------------------------------------------------------
# guards: real code that could loop on a mutated tree never hangs the check


class _Timeout(BaseException):
    """Real code called in the main thread of this process did not return within its limit; `args[0]` is the
    `nontermination:*` signature."""


_GUARD = {"fired": None}
_CASE_CPU_S, _CASE_WALL_S = 15, 240   # one whole save / sequence case (normally a few milliseconds)
_PART_A_CPU_S, _PART_A_WALL_S = 120, 600  # one stream of part A (pure functions, thousands of calls)


@contextlib.contextmanager
def alarm_guard(cpu_s, wall_s, signature):
    """CPU (ITIMER_VIRTUAL) + wall (ITIMER_REAL) guard around real code running in the main thread of this
    process.  When a limit is hit `_Timeout(signature)` is raised in the main thread and raised AGAIN every half
    second until the guarded block has been left (so an `except BaseException` of the harness or of the real code
    cannot swallow it for good); `_GUARD["fired"]` keeps the signature for the caller."""
    if threading.current_thread() is not threading.main_thread():
        yield
        return

    def handler(sig, frm):
        _GUARD["fired"] = signature
        raise _Timeout(signature)

    old_r = signal.signal(signal.SIGALRM, handler)
    old_v = signal.signal(signal.SIGVTALRM, handler)
    signal.setitimer(signal.ITIMER_REAL, wall_s, 0.5)
    signal.setitimer(signal.ITIMER_VIRTUAL, cpu_s, 0.5)
    try:
        yield
    finally:
        signal.setitimer(signal.ITIMER_REAL, 0)
        signal.setitimer(signal.ITIMER_VIRTUAL, 0)
        signal.signal(signal.SIGALRM, old_r)
        signal.signal(signal.SIGVTALRM, old_v)


def _guarded_case(fn, case: dict, kind: str | None = None) -> dict:
    """Run one case of a worker stream under the guard.  A timeout becomes a `nontermination:*` failure of that
    case, any other escape of the harness a disagreement; never an exception."""
    label = case.get("family") or case.get("backend") or "case"
    sig = f"nontermination:{label}"
    _GUARD["fired"] = None
    base = {"case": case, "fails": [], "reqs": [], "impl": [], "what": [], "info": {}}
    if kind:
        base["kind"] = kind
    try:
        with alarm_guard(_CASE_CPU_S, _CASE_WALL_S, sig):
            res = fn(case)
        if _GUARD["fired"]:
            raise _Timeout(_GUARD["fired"])
        return res
    except _Timeout:
        _GUARD["fired"] = None
        base["fails"].append({"signature": sig, "what": "the real code did not return within "
                              f"{_CASE_CPU_S}s CPU / {_CASE_WALL_S}s wall on this case", "case": case})
        base["info"] = {"raised": "nontermination", "timeout": True}
        return base
    except BaseException as e:  # noqa: BLE001 - harness problem: reported as a disagreement
        import traceback

        base["reqs"].append({"m": "layout.pad5", "n": 0})
        base["impl"].append({"r": "harness error " + traceback.format_exc()[-800:]})
        base["what"].append("harness")
        base["info"] = {"raised": type(e).__name__}
        return base


def _guarded_chunk(fn, cases: list[dict], kind_of=None) -> list[dict]:
    """All cases of one worker; after a nontermination the rest of the chunk is skipped (every case of a looping
    implementation would cost the whole guard)."""
    out = []
    for c in cases:
        r = _guarded_case(fn, c, kind_of(c) if kind_of else None)
        out.append(r)
        if r["info"].get("timeout"):
            break
    return out

# ------------------------------------------------------------------------------------------
# tensors

_SUB4 = ("INT4", "UINT4", "FLOAT4E2M1")
_SUB2 = ("INT2", "UINT2")
_WIDE = (
    "FLOAT", "DOUBLE", "FLOAT16", "BFLOAT16", "INT8", "UINT8", "INT16", "UINT16", "INT32", "INT64",
    "UINT32", "UINT64", "BOOL", "FLOAT8E4M3FN", "FLOAT8E5M2", "FLOAT8E4M3FNUZ", "FLOAT8E5M2FNUZ",
    "FLOAT8E8M0", "COMPLEX64", "COMPLEX128",
)
ALL_DTYPES = _WIDE + _SUB4 + _SUB2
_ITEMBITS = {
    "STRING": 8, "FLOAT": 32, "DOUBLE": 64, "FLOAT16": 16, "BFLOAT16": 16, "INT8": 8, "UINT8": 8, "INT16": 16,
    "UINT16": 16, "INT32": 32, "INT64": 64, "UINT32": 32, "UINT64": 64, "BOOL": 8,
    "FLOAT8E4M3FN": 8, "FLOAT8E5M2": 8, "FLOAT8E4M3FNUZ": 8, "FLOAT8E5M2FNUZ": 8, "FLOAT8E8M0": 8,
    "COMPLEX64": 64, "COMPLEX128": 128, "INT4": 4, "UINT4": 4, "FLOAT4E2M1": 4, "INT2": 2, "UINT2": 2,
}


# safetensors container (independent of the model and of onnx_ir's tables): header dtype string and position in
# the writer's dtype order (ascending; the writer sorts descending, then by name) per ONNX dtype
_ST_HEADER = {
    "BOOL": ("BOOL", 0), "FLOAT4E2M1": ("F4", 1), "UINT8": ("U8", 2), "INT8": ("I8", 3), "FLOAT8E5M2": ("F8_E5M2", 4),
    "FLOAT8E4M3FN": ("F8_E4M3", 5), "FLOAT8E8M0": ("F8_E8M0", 6), "INT16": ("I16", 7), "UINT16": ("U16", 8),
    "FLOAT16": ("F16", 9), "BFLOAT16": ("BF16", 10), "INT32": ("I32", 11), "UINT32": ("U32", 12), "FLOAT": ("F32", 13),
    "COMPLEX64": ("C64", 14), "DOUBLE": ("F64", 15), "INT64": ("I64", 16), "UINT64": ("U64", 17),
    "FLOAT8E4M3FNUZ": ("U8", 2), "FLOAT8E5M2FNUZ": ("U8", 2), "INT4": ("U8", 2), "UINT4": ("U8", 2), "INT2": ("U8", 2),
    "UINT2": ("U8", 2),
}


def parse_safetensors(raw: bytes):
    """(N, [(name, dtype, shape, begin, end)] in header order, metadata or None) of a safetensors file image."""
    import json
    import struct

    n = struct.unpack("<Q", raw[:8])[0]
    hdr = json.loads(raw[8 : 8 + n].decode("utf-8"))  # dict order = header order
    meta = hdr.pop("__metadata__", None)
    return n, [(k, v["dtype"], list(v["shape"]), v["data_offsets"][0], v["data_offsets"][1]) for k, v in hdr.items()], meta


def _prod(shape):
    n = 1
    for d in shape:
        n *= d
    return n


def expected_bytes(spec: dict) -> bytes:
    """The packed little-endian bytes of the tensor described by `spec` (independent of onnx_ir)."""
    rng = random.Random(spec["seed"])
    n = _prod(spec["shape"])
    bits = _ITEMBITS[spec["dtype"]]
    if bits >= 8:
        if spec["dtype"] == "BOOL":
            return bytes(rng.randrange(2) for _ in range(n))
        return bytes(rng.randrange(256) for _ in range(n * bits // 8))
    per = 8 // bits
    elems = [rng.randrange(1 << bits) for _ in range(n)]
    out = bytearray()
    for i in range(0, n, per):
        b = 0
        for k, e in enumerate(elems[i : i + per]):
            b |= e << (bits * k)
        out.append(b)
    return bytes(out)


def _elements(spec: dict, data: bytes) -> list[int]:
    bits = _ITEMBITS[spec["dtype"]]
    n = _prod(spec["shape"])
    per = 8 // bits
    return [(data[i // per] >> (bits * (i % per))) & ((1 << bits) - 1) for i in range(n)]


def make_array(spec: dict, data: bytes):
    """numpy array accepted by ir.Tensor for this dtype (unpacked uint8 for sub-byte types)."""
    import onnx_ir as ir

    dt = ir.DataType[spec["dtype"]]
    bits = _ITEMBITS[spec["dtype"]]
    if bits < 8:
        return np.array(_elements(spec, data), dtype=np.uint8).reshape(spec["shape"])
    return np.frombuffer(data, dtype=dt.numpy()).reshape(spec["shape"])


class _CustomTensor:
    """A minimal third-party TensorProtocol implementation without tofile()."""

    def __init__(self, name, dtype, shape, data):
        self.name, self.dtype, self.shape, self._data = name, dtype, shape, data
        self.doc_string = None
        self.metadata_props: dict = {}
        self.meta: dict = {}
        self.raw = data

    @property
    def size(self):
        return _prod(self.shape.numpy())

    @property
    def nbytes(self):
        return len(self._data)

    def tobytes(self):
        return self._data

    def numpy(self):
        return np.frombuffer(self._data, dtype=self.dtype.numpy()).reshape(self.shape.numpy())

    def __array__(self, dtype=None, copy=None):
        return self.numpy()


def build_tensor(spec: dict, data: bytes, tmp: str, counters: dict):
    """Returns an onnx_ir tensor object of the requested kind holding `data`."""
    import onnx
    import onnx_ir as ir
    from onnx_ir import serde

    dt = ir.DataType[spec["dtype"]]
    # the tensor's own name: the value name unless the case says otherwise (None = unnamed tensor)
    name = spec["tname"] if "tname" in spec else spec["name"]
    kind = spec["kind"]
    shape = ir.Shape(spec["shape"])
    if kind == "mem":
        return ir.Tensor(make_array(spec, data), dtype=dt, name=name)
    if kind in ("lazy", "lazyc"):
        def fn(spec=spec, data=data, dt=dt, name=name):
            counters["lazy_calls"] = counters.get("lazy_calls", 0) + 1
            return ir.Tensor(make_array(spec, data), dtype=dt, name=name)

        return ir.LazyTensor(fn, dtype=dt, shape=shape, cache=(kind == "lazyc"), name=name)
    if kind == "lazy_raises":
        def bad():
            if "values" in counters and "at_fail" not in counters:
                counters["at_fail"] = [v.const_value for v in counters["values"]]
            raise RuntimeError("injected: lazy tensor cannot be materialised")

        return ir.LazyTensor(bad, dtype=dt, shape=shape, name=name)
    if kind == "packed":
        return ir.PackedTensor(np.frombuffer(data, dtype=np.uint8).copy(), dt, shape=shape, name=name)
    if kind == "proto":
        tp = onnx.TensorProto(name=name or "", data_type=dt.value, dims=spec["shape"], raw_data=data)
        return serde.deserialize_tensor(tp)
    if kind == "proto_typed":
        tp = onnx.TensorProto(name=name or "", data_type=dt.value, dims=spec["shape"])
        arr = np.frombuffer(data, dtype=dt.numpy())
        if spec["dtype"] == "INT64":
            tp.int64_data.extend(int(x) for x in arr)
        elif spec["dtype"] in ("UINT32", "UINT64"):
            tp.uint64_data.extend(int(x) for x in arr)
        elif spec["dtype"] in ("FLOAT16", "BFLOAT16"):
            tp.int32_data.extend(int(x) for x in np.frombuffer(data, dtype=np.uint16))
        else:  # INT32 INT8 UINT8 INT16 UINT16 BOOL
            tp.int32_data.extend(int(x) for x in arr)
        return serde.deserialize_tensor(tp)
    if kind in ("ext_same", "ext_other", "ext_missing"):
        name = name or "unnamed"  # ExternalTensor requires a name
        loc = spec["loc"]
        path = os.path.join(tmp, loc)
        pre = spec.get("pre", 0)
        if kind != "ext_missing":
            os.makedirs(os.path.dirname(path) or ".", exist_ok=True)
            # several tensors may share one source file: append at the recorded position
            with open(path, "r+b" if os.path.exists(path) else "w+b") as f:
                f.seek(0, 2)
                size = f.tell()
                if size < pre:
                    f.write(b"\xee" * (pre - size))
                f.seek(pre)
                f.write(data)
        return ir.ExternalTensor(loc, pre, len(data), dt, shape=shape, name=name, base_dir=tmp)
    if kind == "torch":
        import torch
        from onnx_ir.tensor_adapters import TorchTensor

        if spec["dtype"] == "BFLOAT16":
            tt = torch.from_numpy(np.frombuffer(data, dtype=np.uint16).copy()).view(torch.bfloat16).reshape(spec["shape"])
        else:
            arr = np.frombuffer(data, dtype=dt.numpy()).reshape(spec["shape"])
            if len(spec["shape"]) == 2 and spec["seed"] % 2:
                tt = torch.from_numpy(arr.T.copy()).t()  # same content, not contiguous
            else:
                tt = torch.from_numpy(arr.copy())
        return TorchTensor(tt, name=name)
    if kind == "custom":
        return _CustomTensor(name, dt, shape, data)
    if kind == "str":
        return ir.StringTensor([b"s" * spec["strlen"]], shape=ir.Shape([1]), name=name)
    raise ValueError(kind)


# ------------------------------------------------------------------------------------------
# model building / declaration order


def build_model(case: dict, tmp: str, counters: dict):
    """Returns (model, decl) where decl = list of (graph_index, value, spec_index) in the order the
    save code is specified to see the initializers: main graph, then subgraphs in node order."""
    import onnx_ir as ir

    specs = case["tensors"]
    datas = [expected_bytes(s) if s["kind"] != "str" else b"" for s in specs]
    # assign pre-offsets of external source tensors sharing a file
    tensors = []
    for i, s in enumerate(specs):
        if s.get("dup_of") is not None:
            tensors.append(tensors[s["dup_of"]])
        else:
            tensors.append(build_tensor(s, datas[i], tmp, counters))
    # graph tree: 0 = main; 1, 2 = then/else branch of an If in main; 3, 4 = branches of an If nested in 1.
    # Declaration order (model.graphs(): main, then sub-graphs in the order the node walk enters them):
    order = (0, 1, 3, 4, 2)
    by_graph: dict[int, list] = {g: [] for g in order}
    for i, s in enumerate(specs):
        t = tensors[i]
        v = ir.Value(name=s["name"], const_value=None if s.get("noconst") else t)
        by_graph[s.get("graph", 0)].append((v, i))
    x = ir.Value(name="x", type=ir.TensorType(ir.DataType.FLOAT), shape=ir.Shape([1]))
    cond = ir.Value(name="cond", type=ir.TensorType(ir.DataType.BOOL), shape=ir.Shape([]))

    def branch(gi: int, extra_nodes=()):
        o = ir.Value(name=f"sub{gi}_out")
        n = ir.Node("", "Identity", [x], outputs=[o])
        return ir.Graph([], [o], nodes=[n, *extra_nodes], initializers=[v for v, _ in by_graph[gi]], name=f"branch{gi}")

    def if_node(g_then, g_else, out):
        return ir.Node("", "If", [cond],
                       attributes=[ir.AttrGraph("then_branch", g_then), ir.AttrGraph("else_branch", g_else)],
                       outputs=[out])

    nodes = []
    main_out = ir.Value(name="y")
    nested = bool(by_graph[3] or by_graph[4] or case.get("nested"))
    if nested or by_graph[1] or by_graph[2] or case.get("subgraphs"):
        inner = [if_node(branch(3), branch(4), ir.Value(name="inner_y"))] if nested else []
        nodes.append(if_node(branch(1, inner), branch(2), main_out))
    else:
        nodes.append(ir.Node("", "Identity", [x], outputs=[main_out]))
    g0 = ir.Graph([x, cond], [main_out], nodes=nodes, initializers=[v for v, _ in by_graph[0]],
                  opset_imports={"": 20}, name="main")
    model = ir.Model(g0, ir_version=10)
    decl = [(gi, v, i) for gi in order for v, i in by_graph[gi]]
    return model, decl, tensors, datas


def _hex(b: bytes) -> str:
    return bytes(b).hex()


# ------------------------------------------------------------------------------------------
# one whole save (runs in a worker process)


def run_case(case: dict) -> dict:
    """Execute one save case against the real code. Returns observations, oracle failures and the
    model requests (with the implementation's answers) for the correspondence."""
    import logging

    logging.getLogger("onnx_ir").setLevel(logging.ERROR)
    res = {"case": case, "fails": [], "reqs": [], "impl": [], "what": [], "info": {}}

    specs_ = case["tensors"]
    trigger = ""
    if case["backend"] == "st":
        # inputs on which the safetensors backend keyed entries by tensor.name (D163/D164): every oracle
        # failure on such an input carries the trigger in its signature
        if any("tname" in s and s["tname"] != s["name"] for s in specs_):
            trigger = "st-name-mismatch:"
        elif any(s.get("dup_of") is not None and s["name"] != specs_[s["dup_of"]]["name"] for s in specs_):
            trigger = "st-shared-tensor:"

    def fail(sig, what, **extra):
        res["fails"].append({"signature": trigger + sig, "what": what, "case": {**case, **extra}})

    backend = case["backend"]
    cwd0 = os.getcwd()
    try:
        return _run_case_in(case, res, fail, backend)
    finally:
        os.chdir(cwd0)


def _run_case_in(case: dict, res: dict, fail, backend: str) -> dict:
    import onnx
    import onnx_ir as ir
    from onnx_ir import serde

    with tempfile.TemporaryDirectory(prefix="c07-", dir=_run_dir()) as tmp:
        counters: dict = {}
        specs = case["tensors"]
        dest = os.path.join(tmp, case["dest"])
        if case.get("bare"):
            os.chdir(tmp)
            dest = case["dest"]
        os.makedirs(os.path.dirname(dest) or ".", exist_ok=True)
        base_dir = os.path.dirname(dest)
        rel = case.get("ext")
        if rel == "<ABS>":
            rel = os.path.join(os.path.abspath(tmp), "abs-model.data")
        if rel and not os.path.isabs(rel):
            cur = base_dir or "."
            for part in rel.split("/")[:-1]:
                cur = os.path.normpath(os.path.join(cur, part))
                os.makedirs(cur, exist_ok=True)
        # pre-existing external tensors live next to the destination, like those of a loaded model
        model, decl, tensors, datas = build_model(case, base_dir, counters)
        for pre in case.get("preexisting", []):
            with open(os.path.join(base_dir, pre), "wb") as f:
                f.write(b"old")
        values = [v for _, v, _ in decl]
        before = [v.const_value for v in values]
        counters["values"] = values
        # canonical tensor ids: first position at which the object occurs
        tid = {}
        for k, t in enumerate(before):
            if t is not None and id(t) not in tid:
                tid[id(t)] = k
        nbytes = [(t.nbytes if t is not None else 0) for t in before]
        inits = []
        for k, t in enumerate(before):
            si = decl[k][2]
            b = datas[si] if specs[si]["kind"] not in ("str", "lazy_raises") else b"\x00" * nbytes[k]
            inits.append({"n": nbytes[k], "e": int(isinstance(t, ir.ExternalTensor)), "c": int(t is not None),
                          "s": int(specs[si]["kind"] == "str"), "b": _hex(b)})

        # snapshot of what serialization sees
        snap: dict = {}
        orig_serialize = serde.serialize_model

        def spy(m, *a, **kw):
            if "mid" not in snap:
                snap["mid"] = [v.const_value for v in values]
            if case.get("fail") == "serialize":
                raise RuntimeError("injected: serialization fails")
            return orig_serialize(m, *a, **kw)

        kwargs = {}
        if backend == "raw":
            kwargs = dict(external_data=rel, size_threshold_bytes=case["thr"], max_shard_size_bytes=case["max"],
                          max_workers=case["workers"], alignment=case["al"], align_threshold=case["athr"])
            if case.get("inflight") is not None:
                kwargs["max_in_flight_bytes"] = case["inflight"]
        else:
            kwargs = dict(size_threshold_bytes=case["thr"], max_shard_size_bytes=case["max"])
        if case.get("fail") == "format":
            kwargs["format"] = "bogus"
        cb_log = []
        if case.get("callback"):
            kwargs["callback"] = lambda t, info: cb_log.append((id(t), info.total, info.index, info.offset, info.filename))
        raised = None
        from onnx_ir import _core as ir_core
        from onnx_ir import external_data as ed

        orig_to_mem = ed._external_tensor_to_memory_tensor

        def to_mem_spy(t):
            try:
                return orig_to_mem(t)
            except BaseException:
                counters.setdefault("at_fail", [v.const_value for v in values])
                raise

        orig_chunk, orig_cfr = ir_core._EXTERNAL_TENSOR_COPY_CHUNK_SIZE, getattr(os, "copy_file_range", None)
        if case.get("chunk"):
            # force the portable chunked copy of ExternalTensor.tofile with a tiny chunk size
            import errno

            def no_cfr(*a, **kw):
                raise OSError(errno.EXDEV, "injected: cross-device copy_file_range")

            ir_core._EXTERNAL_TENSOR_COPY_CHUNK_SIZE = case["chunk"]
            if orig_cfr is not None:
                os.copy_file_range = no_cfr
        # the schedule handed to the model must cover every write of a file
        if case.get("sched") is not None and len(case["sched"]) < len(values):
            case = dict(case, sched=list(case["sched"]) + [i for i in range(len(values)) if i not in case["sched"]])
        serde.serialize_model = spy
        ed._external_tensor_to_memory_tensor = to_mem_spy
        from onnx_ir import _safetensors as st_mod

        class _SpyTable(dict):
            """the save table of the safetensors backend: a missing dtype (COMPLEX128) records the store at that
            moment and raises the KeyError the plain dict raises"""

            def __missing__(self, key):
                counters.setdefault("at_fail", [v.const_value for v in values])
                raise KeyError(key)

        orig_table = st_mod._IR_DTYPE_TO_SAFETENSORS_DTYPE
        st_mod._IR_DTYPE_TO_SAFETENSORS_DTYPE = _SpyTable(orig_table)

        def tree():
            out = {}
            for root, _d, fs_ in os.walk(base_dir or "."):
                for fn in fs_:
                    pth = os.path.join(root, fn)
                    with open(pth, "rb") as f:
                        out[os.path.relpath(pth, base_dir or ".")] = f.read()
            return out

        tree_before = tree() if case.get("fail") == "st_keyerror" else None
        try:
            if backend == "raw":
                ir.save(model, dest, **kwargs)
            else:
                ir.save_safetensors(model, dest, **kwargs)
        except _Timeout:
            raise
        except BaseException as e:  # noqa: BLE001
            raised = e
        finally:
            serde.serialize_model = orig_serialize
            ed._external_tensor_to_memory_tensor = orig_to_mem
            st_mod._IR_DTYPE_TO_SAFETENSORS_DTYPE = orig_table
            ir_core._EXTERNAL_TENSOR_COPY_CHUNK_SIZE = orig_chunk
            if orig_cfr is not None:
                os.copy_file_range = orig_cfr
        res["info"]["raised"] = type(raised).__name__ if raised else None

        # ---- oracle 1: the model object holds the same tensor objects afterwards (both outcomes)
        after = [v.const_value for v in values]
        if any(a is not b for a, b in zip(after, before)):
            fail(f"restore:{backend}:{'raise' if raised else 'ok'}",
                 "const_value objects differ after save",
                 changed=[k for k, (a, b) in enumerate(zip(after, before)) if a is not b])

        expect_fail = case.get("fail")
        mid = snap.get("mid")

        def canon_store(objs):
            out = []
            for k, t in enumerate(objs):
                if t is None:
                    out.append([k, None])
                elif id(t) in tid:
                    out.append([k, tid[id(t)]])
                else:
                    out.append([k, 1000 + k])
            return out

        # ---- where the injected failure surfaces, as a point of the model's effect sequence
        def is_mem_class(k):
            t = before[k]
            if t is None or specs[decl[k][2]]["kind"] == "str" or not isinstance(t, ir.ExternalTensor):
                return False
            return nbytes[k] < case["thr"] if backend == "st" else nbytes[k] <= case["thr"]

        occ = 0
        if expect_fail == "missing_ext":
            kmiss = next(k for k in range(len(values)) if specs[decl[k][2]]["kind"] == "ext_missing")
            occ = sum(1 for k in range(kmiss) if is_mem_class(k))
        if expect_fail == "st_keyerror":
            # the KeyError surfaces while the entry of the first saved COMPLEX128 tensor is built: after the
            # tensors saved before it were materialised
            savedk = [k for k in range(len(values)) if before[k] is not None and specs[decl[k][2]]["kind"] != "str"
                      and nbytes[k] >= case["thr"]]
            occ = next((j for j, k in enumerate(savedk) if specs[decl[k][2]]["dtype"] == "COMPLEX128"), 0)
        phase = {None: "none", "lazy_raises": "write", "st_keyerror": "write", "validate": "validate", "exists": "validate",
                 "missing_ext": "loadMem", "early": "early", "dup_name": "early", "abs_path": "early",
                 "reserved_name": "early",
                 "serialize": "serialize", "small_lazy_raises": "serialize", "format": "protoSave"}[expect_fail]
        if expect_fail == "exists":
            occ = 1  # the second validation point: the sharded writer's pre-flight check
        res["info"]["phase"] = phase

        def mid_kind(k):
            t = mid[k]
            if t is before[k]:
                return "S"
            if isinstance(t, ir.ExternalTensor):
                loc = os.fspath(t.location)
                return [loc, t.offset, t.length] if backend == "raw" else [loc, t.length]
            return "M"

        def st_pos_request():
            """the position-level safetensors request (every initializer of the main graph and of the subgraphs)"""
            ins = []
            for k in range(len(values)):
                sp = specs[decl[k][2]]
                ins.append({"name": sp["name"], "dtype": ir.DataType[sp["dtype"]].value, "shape": sp["shape"],
                            "b": inits[k]["b"] if sp["kind"] != "str" else "", "n": inits[k]["n"], "e": inits[k]["e"],
                            "c": inits[k]["c"], "s": inits[k]["s"]})
            dn = os.path.basename(case["dest"])
            return {"m": "layout.st_unload", "inits": ins, "thr": case["thr"], "max": case["max"],
                    "base": (os.path.splitext(dn)[0] if "." in dn else dn) + ".safetensors"}

        if backend == "st":
            # the hypotheses of C07_st_unload_values / C07_st_roundtrip_values, evaluated independently of the model
            snap_names = [specs[decl[k][2]]["name"] for k in range(len(values))
                          if before[k] is not None and specs[decl[k][2]]["kind"] != "str"]
            res["info"]["hyp_names"] = len(set(snap_names)) == len(snap_names) and "__metadata__" not in snap_names
            res["info"]["hyp_dtypes"] = not any(
                before[k] is not None and specs[decl[k][2]]["dtype"] == "COMPLEX128" and nbytes[k] >= case["thr"]
                for k in range(len(values)))
            res["info"]["c128_inline"] = any(
                before[k] is not None and specs[decl[k][2]]["dtype"] == "COMPLEX128" and nbytes[k] < case["thr"]
                for k in range(len(values)))

        # ---- oracle 1b (on what serialization saw): a below-threshold external tensor must have been
        # replaced by an in-memory copy (it would otherwise keep pointing at its old data file)
        if mid is not None:
            for k, t in enumerate(before):
                if isinstance(t, ir.ExternalTensor) and mid[k] is t and (
                        nbytes[k] < case["thr"] if backend == "st" else nbytes[k] <= case["thr"]):
                    fail(f"threshold:{backend}:external-below:already-external",
                         f"external tensor of {nbytes[k]} bytes (threshold {case['thr']}) is serialized still external",
                         tensor=specs[decl[k][2]])
                    break
        # ---- oracle 1d (on what serialization saw): every tensor above the threshold is a new external tensor
        # recording its own length and dtype (also when the save fails afterwards)
        if mid is not None:
            for k, t in enumerate(before):
                si = decl[k][2]
                if t is None or specs[si]["kind"] == "str":
                    continue
                want = nbytes[k] >= case["thr"] if backend == "st" else nbytes[k] > case["thr"]
                m_ = mid[k]
                if want and not (m_ is not t and isinstance(m_, ir.ExternalTensor) and m_.length == nbytes[k]
                                 and m_.dtype == t.dtype and list(m_.shape.numpy()) == list(t.shape.numpy())):
                    fail(f"serialized-state:{backend}:above-threshold-not-its-own-external-tensor",
                         f"initializer {k} ({nbytes[k]} bytes, threshold {case['thr']}) is serialized as {m_!r}",
                         tensor=specs[si])
                    break
        # ---- oracle 1c (on what serialization saw): shard limit, also when the save fails later on
        if mid is not None and case["max"] is not None:
            groups: dict[str, list] = {}
            for k, t in enumerate(mid):
                if t is not before[k] and isinstance(t, ir.ExternalTensor):
                    groups.setdefault(os.fspath(t.location), []).append((t.offset or 0, t.length))
            for loc, rs in groups.items():
                payload = max(o + n for o, n in rs) if backend == "raw" else sum(n for _, n in rs)
                if payload > case["max"] and len(rs) != 1:
                    zero = sum(1 for r in rs if r[1] == 0)
                    fail(f"shard-limit:{backend}:{'zero-size-companions' if zero == len(rs) - 1 else 'several'}",
                         f"shard {loc} holds {len(rs)} tensors and {payload} bytes > limit {case['max']}",
                         ranges=[list(r) for r in rs])
                    break
        if raised is not None and expect_fail is None:
            m = re.search(r'Unknown dtype "(\w+)"', str(raised))
            mismatch = any(("tname" in specs[i] and specs[i]["tname"] != specs[i]["name"]) or
                           (specs[i].get("dup_of") is not None and specs[i]["name"] != specs[specs[i]["dup_of"]]["name"])
                           for _, _, i in decl)
            why = ("unknown-dtype-" + m.group(1)) if m else (
                "string-initializer" if any(specs[i]["kind"] == "str" for _, _, i in decl) else
                "name-mismatch" if mismatch and isinstance(raised, AssertionError) else "other")
            fail(f"save-raises:{backend}:{type(raised).__name__}:{why}", f"save raised {type(raised).__name__}: {raised}")
            return res
        if raised is None and expect_fail == "reserved_name":
            fail("st-reserved-name:__metadata__", "save_safetensors accepted an initializer named __metadata__ (the header "
                 "key reserved for file metadata): the entry is skipped on read-back and the file is not a valid container")
        if expect_fail == "st_keyerror" and raised is not None:
            # COMPLEX128 at or above the threshold: KeyError, and nothing in the directory was created, replaced or
            # removed (the shards written so far were staged in a temporary directory that is gone again)
            if not isinstance(raised, KeyError):
                fail(f"save-raises:st:{type(raised).__name__}:complex128", f"expected KeyError, got {type(raised).__name__}: {raised}")
            tree_after = tree()
            if tree_after != tree_before:
                changed = sorted(set(tree_after) ^ set(tree_before)) + sorted(
                    k_ for k_ in tree_after if k_ in tree_before and tree_after[k_] != tree_before[k_])
                fail("st-keyerror:files-changed", "save_safetensors raised KeyError (COMPLEX128) but the directory "
                     f"changed: {changed[:6]}", changed=changed[:20])
            if sum(len(d["b"]) for d in inits) <= 600000:
                res["reqs"].append(st_pos_request())
                res["impl"].append({"names_ok": True, "ok": False,
                                    "files": None if tree_after == tree_before else sorted(set(tree_after) - set(tree_before))})
                res["what"].append("st-positions")
        if backend == "st" and expect_fail in ("dup_name", "reserved_name") and isinstance(raised, ValueError):
            res["reqs"].append(st_pos_request())
            res["impl"].append({"names_ok": False})
            res["what"].append("st-positions")
        if raised is None and expect_fail is not None:
            res["what"].append("raise-expected")
            res["reqs"].append({"m": "layout.pad5", "n": 0})
            res["impl"].append({"r": f"no exception although {expect_fail} was injected"})
            return res

        # model request for the classification / placement / files
        if backend == "raw":
            req = {"m": "layout.save_raw", "inits": inits, "thr": case["thr"], "max": case["max"], "al": case["al"],
                   "athr": case["athr"], "base": rel}
            if case.get("sched") is not None:
                req["sched"] = case["sched"]
        else:
            req = {"m": "layout.save_st", "inits": [[d["n"], d["e"], d["c"], d["s"]] for d in inits], "thr": case["thr"],
                   "max": case["max"], "base": os.path.splitext(os.path.basename(case["dest"]))[0] + ".safetensors"
                   if "." in os.path.basename(case["dest"]) else os.path.basename(case["dest"]) + ".safetensors"}
        impl: dict = {}
        if mid is not None:
            impl["consts"] = [mid_kind(k) for k in range(len(values))]
        files = {}
        if raised is None and backend == "raw":
            locs = []
            for k in range(len(values)):
                mk = mid_kind(k)
                if isinstance(mk, list) and mk[0] not in locs:
                    locs.append(mk[0])
            for loc in locs:
                with open(os.path.join(base_dir, loc), "rb") as f:
                    files[loc] = f.read()
            impl["files"] = [[loc, _hex(files[loc])] for loc in locs]
            if not locs and os.path.exists(os.path.join(base_dir, rel)):
                # nothing was externalised: the code still writes an empty data file
                impl["files"] = [[os.path.normpath(rel), _hex(open(os.path.join(base_dir, rel), "rb").read())]]
        if mid is not None:
            res["reqs"].append(req)
            res["impl"].append(impl)
            res["what"].append("save")
        # K4: the classification lists on their own (positions that became external / were loaded to memory)
        if mid is not None:
            obs_ext = [k for k in range(len(values)) if mid[k] is not before[k] and isinstance(mid[k], ir.ExternalTensor)]
            obs_mem = [k for k in range(len(values)) if mid[k] is not before[k] and not isinstance(mid[k], ir.ExternalTensor)]
            flat = [[d["n"], d["e"], d["c"], d["s"]] for d in inits]
            if backend == "raw":
                res["reqs"].append({"m": "layout.unload_raw", "inits": flat, "thr": case["thr"], "max": case["max"],
                                    "al": case["al"], "athr": case["athr"]})
            else:
                res["reqs"].append({"m": "layout.split_st", "inits": flat, "thr": case["thr"]})
            res["impl"].append({"ext": obs_ext, "mem": obs_mem})
            res["what"].append("classification")
        # K6 (safetensors container): the written files byte for byte, the record (file, offset, length) and the
        # dtype/shape every saved value holds, against the container model; and an independent oracle on the parsed
        # header: 8-byte length, N % 8 == 0, ranges contiguous from 0 (no overlap, inside, exact cover), order by
        # descending dtype then name, every name once, reading [begin,end) returns the tensor's bytes
        if backend == "st" and raised is None and mid is not None:
            saved = [k for k in range(len(values)) if mid[k] is not before[k] and isinstance(mid[k], ir.ExternalTensor)]
            st_locs: list = []
            for k in saved:
                loc = os.fspath(mid[k].location)
                if loc not in st_locs:
                    st_locs.append(loc)
            raws = []
            for loc in st_locs:
                with open(os.path.join(base_dir, loc), "rb") as f:
                    raws.append(f.read())
            if sum(len(r) for r in raws) <= 300000:
                tens = [{"name": specs[decl[k][2]]["name"], "dtype": ir.DataType[specs[decl[k][2]]["dtype"]].value,
                         "shape": specs[decl[k][2]]["shape"], "b": _hex(datas[decl[k][2]])} for k in saved]
                res["reqs"].append({"m": "layout.st_save", "tensors": tens, "max": case["max"]})
                res["impl"].append({
                    "files": [_hex(r) for r in raws],
                    "places": [[st_locs.index(os.fspath(mid[k].location)), len(st_locs), mid[k].offset, mid[k].length]
                               for k in saved],
                    "reload": [[mid[k].dtype.value, list(mid[k].shape.numpy())] for k in saved],
                    "reads": [_hex(datas[decl[k][2]]) for k in saved]})
                res["what"].append("st-container")
            by_name = {specs[decl[k][2]]["name"]: k for k in saved}
            seen_names: list = []
            for loc, raw in zip(st_locs, raws):
                try:
                    n_hdr, entries, _meta = parse_safetensors(raw)
                except Exception as e:  # noqa: BLE001
                    fail("st-container:unparsable-header", f"{loc}: {type(e).__name__}: {e}")
                    continue
                if n_hdr % 8:
                    fail("st-container:header-not-8-aligned", f"{loc}: header length {n_hdr}")
                cur, prev_key = 0, None
                for (nm, dt, shp, b, e_) in entries:
                    seen_names.append(nm)
                    if b != cur or e_ < b:
                        fail("st-container:ranges-not-contiguous", f"{loc}: entry {nm!r} [{b},{e_}) after end {cur}",
                             entries=[list(x) for x in entries])
                        break
                    cur = e_
                    k = by_name.get(nm)
                    if k is None:
                        fail("st-container:unknown-entry", f"{loc}: entry {nm!r} is not a saved initializer")
                        continue
                    sp = specs[decl[k][2]]
                    want_dt, rank = _ST_HEADER[sp["dtype"]]
                    if dt != want_dt:
                        fail(f"st-container:dtype:{sp['dtype']}", f"{loc}: entry {nm!r} has dtype {dt}, expected {want_dt}")
                    key = (-rank, nm.encode("utf-8"))
                    if prev_key is not None and key < prev_key:
                        fail("st-container:order", f"{loc}: entries not ordered by descending dtype then name",
                             entries=[list(x[:2]) for x in entries])
                    prev_key = key
                    if raw[8 + n_hdr + b : 8 + n_hdr + e_] != datas[decl[k][2]]:
                        fail(f"st-container:bytes:{sp['kind']}", f"{loc}: bytes of entry {nm!r} differ from the tensor")
                    if (mid[k].offset, mid[k].length) != (8 + n_hdr + b, e_ - b) or os.fspath(mid[k].location) != loc:
                        fail("st-container:record", f"value {nm!r} records ({mid[k].offset},{mid[k].length}) but its entry "
                             f"is at ({8 + n_hdr + b},{e_ - b}) of {loc}")
                if len(raw) != 8 + n_hdr + cur:
                    fail("st-container:exact-cover", f"{loc}: file size {len(raw)} != 8 + {n_hdr} + {cur}")
            if sorted(seen_names) != sorted(by_name):
                fail("st-container:names", "header entries over all files are not exactly the saved initializers",
                     got=sorted(seen_names), want=sorted(by_name))
            res["info"]["st_files"] = len(st_locs)
        # K7 (safetensors, initializer POSITIONS: C07_st_unload_values / C07_st_roundtrip_values): the state of every
        # position that serialization saw incl. (file, offset, length), the files, and (filled in after the reload
        # below) what every position of the loaded model holds: external?, dtype, shape, bytes
        st_pos_impl = None
        if backend == "st" and raised is None and mid is not None and sum(len(d["b"]) for d in inits) <= 600000:
            def mid_full(k):
                t = mid[k]
                if t is before[k]:
                    return "S"
                if isinstance(t, ir.ExternalTensor):
                    return [os.fspath(t.location), t.offset, t.length]
                return "M"

            locs7: list = []
            for k in range(len(values)):
                if mid[k] is not before[k] and isinstance(mid[k], ir.ExternalTensor) and os.fspath(mid[k].location) not in locs7:
                    locs7.append(os.fspath(mid[k].location))
            st_pos_impl = {"names_ok": True, "ok": True, "consts": [mid_full(k) for k in range(len(values))],
                           "files": [[loc, _hex(open(os.path.join(base_dir, loc), "rb").read())] for loc in locs7]}
            res["reqs"].append(st_pos_request())
            res["impl"].append(st_pos_impl)
            res["what"].append("st-positions")
        # the save as an effect sequence: the model computes the re-pointing itself (fresh id 1000+k for the
        # object created for position k) from the initializer list; compared with the store observed at the
        # moment the failure surfaced (or at serialization) and after the call
        if phase != "early":
            store = [c[1] for c in canon_store(before)]
            at_fail = counters.get("at_fail") if raised is not None and phase in ("write", "loadMem") else mid
            impl_store = {"fin": [c[1] for c in canon_store(after)]}
            if at_fail is not None:
                impl_store["mid"] = [c[1] for c in canon_store(at_fail)]
            res["reqs"].append({"m": "layout.save_run", "backend": backend,
                                "inits": [[d["n"], d["e"], d["c"], d["s"]] for d in inits], "thr": case["thr"],
                                "fresh": 1000, "store": store, "phase": phase, "occ": occ})
            res["impl"].append(impl_store)
            res["what"].append("store")

        if raised is not None:
            # injected failure: destination must not have been produced by a failed unload
            res["info"]["kinds"] = "raised"
            return res

        # ---- oracle 2: what was written (parsed proto), layout well formed
        proto = onnx.load(dest, load_external_data=False)
        graphs = []

        def walk(g):
            graphs.append(g)
            for n in g.node:
                for a in n.attribute:
                    if a.type == onnx.AttributeProto.GRAPH:
                        walk(a.g)

        walk(proto.graph)
        gname = {"main": 0, "branch1": 1, "branch2": 2, "branch3": 3, "branch4": 4}
        written = []  # (graph idx, TensorProto)
        for g in graphs:
            for t in g.initializer:
                written.append((gname[g.name], t))
        expect_names = [(gi, specs[i]["name"]) for gi, v, i in decl if v.const_value is not None]
        if [(gi, t.name) for gi, t in written] != expect_names:
            fail(f"proto-initializers:{backend}", "initializer names/order in the saved proto differ",
                 got=[(gi, t.name) for gi, t in written])
            return res
        thr = case["thr"]
        per_file: dict[str, list] = {}
        dk = [k for k, (_, v, _) in enumerate(decl) if v.const_value is not None]
        for (gi, t), k in zip(written, dk):
            si = decl[k][2]
            is_ext = t.data_location == onnx.TensorProto.EXTERNAL
            nb = nbytes[k]
            if specs[si]["kind"] == "str":
                continue
            want_ext = nb > thr if backend == "raw" else nb >= thr
            if is_ext != want_ext:
                was_ext = specs[si]["kind"].startswith("ext_")
                shared = specs[si].get("dup_of") is not None or any(x.get("dup_of") == si for x in specs)
                fail(f"threshold:{backend}:{'inline-above' if want_ext else 'external-below'}:"
                     f"{'shared-tensor' if shared else 'already-external' if was_ext else 'in-memory'}",
                     f"tensor of {nb} bytes with threshold {thr} saved {'external' if is_ext else 'inline'}",
                     tensor=specs[si])
            if is_ext:
                ed = {e.key: e.value for e in t.external_data}
                if not want_ext:
                    continue  # kept pointing at its old file (reported above); not part of the new layout
                per_file.setdefault(ed["location"], []).append((int(ed.get("offset", 0)), int(ed["length"]), k))
                if int(ed["length"]) != nb:
                    fail(f"length:{backend}", "recorded length != nbytes", tensor=specs[si], got=ed)
            if list(t.dims) != list(specs[si]["shape"]) or t.data_type != ir.DataType[specs[si]["dtype"]].value:
                fail(f"dtype-shape:{backend}", "dtype/shape changed in the saved proto", tensor=specs[si])
        factor = max(4096, case["al"]) if case.get("al") else None
        k4_reads: list = []
        for loc, ranges in per_file.items():
            p = os.path.join(base_dir, loc)
            if os.path.isabs(loc) or not os.path.exists(p):
                fail(f"location:{backend}", f"data file {loc!r} missing or absolute")
                continue
            size = os.path.getsize(p)
            prev_end = 0
            for j, (off, ln, k) in enumerate(ranges):
                si = decl[k][2]
                if backend == "raw":
                    if off < prev_end:
                        fail("layout:order-or-overlap", f"range {j} of {loc} starts at {off} before previous end {prev_end}",
                             ranges=[r[:2] for r in ranges])
                    if factor and j > 0:
                        # how often the two alignment clauses of C07_aligned are evaluated on a NON-FIRST tensor
                        # smaller than the factor (the first tensor of a file is at 0 whatever the code does)
                        key_ = "aligned_small_nonfirst" if ln > case["athr"] else "dense_under_athr_nonfirst"
                        if ln < factor:
                            res["info"][key_] = res["info"].get(key_, 0) + 1
                    if factor and ln > case["athr"]:
                        if off % factor or off - prev_end >= factor:
                            fail("layout:alignment", f"offset {off} (prev end {prev_end}) not the next multiple of {factor}",
                                 ranges=[r[:2] for r in ranges])
                    elif off != prev_end:
                        fail("layout:dense", f"offset {off} != previous end {prev_end} for an unaligned tensor",
                             ranges=[r[:2] for r in ranges])
                    prev_end = off + ln
                if off + ln > size:
                    fail(f"layout:within:{backend}", f"range ({off},{ln}) exceeds file size {size}", loc=loc)
                with open(p, "rb") as f:
                    f.seek(off)
                    got = f.read(ln)
                if got != datas[si]:
                    fail(f"file-bytes:{backend}:{specs[si]['kind']}", "bytes at (offset,length) differ from the tensor",
                         tensor=specs[si], loc=loc, off=off)
            if backend == "raw" and size != prev_end:
                fail("layout:file-size", f"file size {size} != end of last range {prev_end}", loc=loc)
            if backend == "raw" and size <= 70000 and res["info"].setdefault("k4", 0) < 2:
                # K4: the file-image model on the offsets the implementation recorded (serial order, and
                # preallocated + reversed order), against the bytes really on disk
                res["info"]["k4"] += 1
                content = open(p, "rb").read()
                ws = [{"o": off, "b": _hex(datas[decl[k][2]])} for off, ln, k in ranges]
                res["reqs"].append({"m": "layout.image", "ws": ws, "prealloc": None})
                res["impl"].append({"r": _hex(content)})
                res["what"].append("image-serial")
                res["reqs"].append({"m": "layout.image", "ws": ws[::-1], "prealloc": size})
                res["impl"].append({"r": _hex(content)})
                res["what"].append("image-any-order")
                k4_reads.extend((loc, off, ln, k, _hex(content)) for off, ln, k in ranges[:3])
            if backend == "st":
                srt = sorted(r[:2] for r in ranges)
                for (o1, l1), (o2, _l2) in zip(srt, srt[1:]):
                    if o1 + l1 > o2:
                        fail("layout:overlap:st", "overlapping ranges in safetensors file", ranges=srt)
            if case["max"] is not None:
                payload = size if backend == "raw" else sum(r[1] for r in ranges)
                if payload > case["max"] and len(ranges) != 1:
                    zero = sum(1 for r in ranges if r[1] == 0)
                    fail(f"shard-limit:{backend}:{'zero-size-companions' if zero == len(ranges) - 1 else 'several'}",
                         f"shard {loc} holds {len(ranges)} tensors and {payload} bytes > limit {case['max']}",
                         ranges=[r[:2] for r in ranges])
        # (a shared tensor left inline by the safetensors backend is reported above; shard numbering and the
        # callback count of that case are consequences of it)
        shared_bad = False
        # shard names: distinct, same directory, every external tensor in exactly one
        if case["max"] is not None and per_file and not shared_bad:
            names = list(per_file)
            base = os.path.normpath(rel) if backend == "raw" else req["base"]
            if len(set(names)) != len(names) or any(os.path.dirname(n) != os.path.dirname(base) for n in names):
                fail(f"shard-names:{backend}", "shard file names collide or leave the directory", names=names)
            if len(names) > 1:
                pat = re.compile(r"-(\d{5,})-of-(\d{5,})")
                idx = [pat.search(os.path.basename(n)) for n in names]
                if any(m is None for m in idx) or [int(m.group(1)) for m in idx] != list(range(1, len(names) + 1)) \
                        or any(int(m.group(2)) != len(names) for m in idx):
                    fail(f"shard-names:{backend}", "shard numbering is not 1..n of n in declaration order", names=names)
        res["info"]["kinds"] = "".join(
            ("E" if t.data_location == onnx.TensorProto.EXTERNAL else "I") for _, t in written)
        res["info"]["nfiles"] = len(per_file)

        # callbacks: exactly one per externalised tensor
        if case.get("callback") and not shared_bad:
            n_ext = sum(len(r) for r in per_file.values())
            if len(cb_log) != n_ext or sorted(c[2] for c in cb_log) != list(range(n_ext)):
                fail(f"callback:{backend}", f"{len(cb_log)} callbacks for {n_ext} external tensors / indices not 0..n-1")

        # ---- oracle 3: reload and compare with the originals
        try:
            m2 = ir.load(dest)
        except BaseException as e:  # noqa: BLE001
            fail(f"reload:{backend}:{type(e).__name__}", f"ir.load raised {e}")
            return res
        loaded = []
        for g in m2.graphs():
            for v in g.initializers.values():
                loaded.append((gname[g.name], v))
        if [(gi, v.name) for gi, v in loaded] != expect_names:
            fail(f"reload-names:{backend}", "initializer names/order after reload differ",
                 got=[(gi, v.name) for gi, v in loaded])
            return res
        loaded_obs: list = [None] * len(values)
        if st_pos_impl is not None:
            st_pos_impl["loaded"] = loaded_obs
        for (gi, v), k in zip(loaded, dk):
            si = decl[k][2]
            s = specs[si]
            t = v.const_value
            if s["kind"] == "str":
                loaded_obs[k] = [isinstance(t, ir.ExternalTensor), t.dtype.value, list(t.shape.numpy()), ""]
                continue
            if t.dtype.name != s["dtype"] or list(t.shape.numpy()) != list(s["shape"]):
                fail(f"reload-dtype-shape:{backend}", "dtype/shape differ after reload", tensor=s)
                loaded_obs[k] = [isinstance(t, ir.ExternalTensor), t.dtype.value, list(t.shape.numpy()), None]
                continue
            ext = isinstance(t, ir.ExternalTensor)
            # the C07 clause on VALUES: external exactly when at/above (st) resp. above (raw) the threshold
            if backend == "st" and ext != (nbytes[k] >= case["thr"]):
                fail("reload-external-iff:st", f"initializer {k} ({nbytes[k]} bytes, threshold {case['thr']}) is "
                     f"{'external' if ext else 'inline'} in the loaded model", tensor=s)
            try:
                got = t.tobytes()
            except BaseException as e:  # noqa: BLE001
                fail(f"reload-tobytes:{type(e).__name__}:{'external' if ext else 'inline'}:"
                     f"bits{_ITEMBITS[s['dtype']]}:{'empty' if _prod(s['shape']) == 0 else 'nonempty'}",
                     f"tobytes() of reloaded tensor raised {type(e).__name__}: {e}", tensor=s)
                got = None
            if got is not None and bytes(got) != datas[si]:
                fail(f"reload-bytes:{backend}:{s['kind']}", "bytes differ after reload", tensor=s)
            loaded_obs[k] = [ext, t.dtype.value, list(t.shape.numpy()), _hex(bytes(got)) if got is not None else None]
            if got is not None and ext:
                for loc, off, ln, kk, img in k4_reads:
                    if kk == k:
                        res["reqs"].append({"m": "layout.read", "img": img, "off": off, "len": ln})
                        res["impl"].append({"r": _hex(bytes(got))})
                        res["what"].append("read")
            try:
                arr = t.numpy()
                if _ITEMBITS[s["dtype"]] < 8:
                    elems = [int(x) for x in np.asarray(arr).view(np.uint8).ravel()]
                    bits = _ITEMBITS[s["dtype"]]
                    want = _elements(s, datas[si])
                    if [e & ((1 << bits) - 1) for e in elems] != want:
                        fail(f"reload-numpy:bits{bits}:{'external' if ext else 'inline'}", "elements differ after reload",
                             tensor=s)
                elif np.asarray(arr).tobytes() != datas[si]:
                    fail(f"reload-numpy:{backend}", "numpy() bytes differ after reload", tensor=s)
            except BaseException as e:  # noqa: BLE001
                fail(f"reload-numpy:{type(e).__name__}:{'external' if ext else 'inline'}:"
                     f"bits{_ITEMBITS[s['dtype']]}:{'empty' if _prod(s['shape']) == 0 else 'nonempty'}",
                     f"numpy() of reloaded tensor raised {type(e).__name__}: {e}", tensor=s)
        # K5: external_data.load_to_model on the reloaded model: nothing external is left, bytes unchanged
        arr = got = t = None  # drop our views of the memory maps: load_to_model closes them
        try:
            ir.external_data.load_to_model(m2)
            for (gi, v), k in zip(loaded, dk):
                s = specs[decl[k][2]]
                if s["kind"] == "str":
                    continue
                t = v.const_value
                if isinstance(t, ir.ExternalTensor) or bytes(t.tobytes()) != datas[decl[k][2]]:
                    fail(f"load_to_model:{backend}", "load_to_model left an external tensor or changed bytes", tensor=s)
                    break
        except BaseException as e:  # noqa: BLE001
            fail(f"load_to_model:{backend}:{type(e).__name__}", f"load_to_model raised {e}")
    return res


# ------------------------------------------------------------------------------------------
# deepening round: the restore loop through the const_value setter (DEBUG mode), call sequences


def _simple_model(tensors):
    import onnx_ir as ir

    vs = [ir.Value(name=f"w{i}", const_value=t) for i, t in enumerate(tensors)]
    x = ir.Value(name="x", type=ir.TensorType(ir.DataType.FLOAT), shape=ir.Shape([1]))
    y = ir.Value(name="y")
    g = ir.Graph([x], [y], nodes=[ir.Node("", "Identity", [x], outputs=[y])], initializers=vs,
                 opset_imports={"": 20}, name="main")
    return ir.Model(g, ir_version=10), vs


def run_debug_case(case: dict) -> dict:
    """ir.save / save_safetensors with onnx_ir.DEBUG as given and duck-typed (non-TensorProtocol) tensors at the
    given positions: store after the call and whether the call raised TypeError from the restore loop."""
    import logging

    import onnx_ir as ir

    logging.getLogger("onnx_ir").setLevel(logging.ERROR)
    res = {"case": case, "fails": [], "reqs": [], "impl": [], "what": [], "info": {}, "kind": "debug"}
    old_debug = ir.DEBUG
    try:
        with tempfile.TemporaryDirectory(prefix="c07d-", dir=_run_dir()) as tmp:
            tensors = []
            for i, (n, duck) in enumerate(zip(case["sizes"], case["duck"])):
                data = bytes((7 * i + j) % 251 for j in range(n))
                if duck:
                    tensors.append(_CustomTensor(f"w{i}", ir.DataType.UINT8, ir.Shape([n]), data))
                else:
                    tensors.append(ir.Tensor(np.frombuffer(data, dtype=np.uint8), name=f"w{i}"))
            model, vs = _simple_model(tensors)
            protos = [isinstance(t, ir.TensorProtocol) for t in tensors]
            ir.DEBUG = bool(case["debug"])
            raised = None
            try:
                if case["backend"] == "raw":
                    ir.save(model, os.path.join(tmp, "m.onnx"), external_data="m.data", size_threshold_bytes=case["thr"])
                else:
                    ir.save_safetensors(model, os.path.join(tmp, "m.onnx"), size_threshold_bytes=case["thr"])
            except _Timeout:
                raise
            except BaseException as e:  # noqa: BLE001
                raised = e
            finally:
                ir.DEBUG = old_debug
            after = [v.const_value for v in vs]
            fin = [k if after[k] is tensors[k] else 1000 + k for k in range(len(vs))]
            res["info"] = {"raised": type(raised).__name__ if raised else None,
                           "restored": all(a is b for a, b in zip(after, tensors)),
                           "hyp": (not case["debug"]) or all(protos)}
            res["reqs"].append({"m": "layout.save_run_checked", "backend": case["backend"],
                                "inits": [[n, 0, 1, 0] for n in case["sizes"]], "thr": case["thr"], "fresh": 1000,
                                "store": list(range(len(vs))), "debug": bool(case["debug"]),
                                "nonproto": [k for k, ok in enumerate(protos) if not ok]})
            res["impl"].append({"fin": fin, "raised": isinstance(raised, TypeError)})
            res["what"].append("restore-loop")
            if raised is not None and not isinstance(raised, TypeError):
                res["fails"].append({"signature": f"save-raises:{case['backend']}:{type(raised).__name__}:debug-family",
                                     "what": f"save raised {type(raised).__name__}: {raised}", "case": case})
            # the C07 clause "same tensor objects afterwards" under the hypothesis of C07_model_restored_checked
            if res["info"]["hyp"] and not res["info"]["restored"]:
                res["fails"].append({"signature": f"restore:{case['backend']}:setter-accepts-all-but-not-restored",
                                     "what": "every original const_value passes the setter's check, yet the model is not "
                                             "restored", "case": case})
    finally:
        ir.DEBUG = old_debug
    return res


def run_async_case(case: dict) -> dict:
    """ir.save / save_safetensors with an ASYNCHRONOUS exception delivered inside the `finally` restore loop after
    `cut` completed assignments (a trace function raises KeyboardInterrupt on entry of the `const_value` setter for
    the (cut+1)-th restoring assignment; the setter's only effect is one attribute store, so this covers every
    delivery point inside the loop).  The try block is left normally or by an injected failure.  Compared with
    `saveRunAsync`; the store afterwards is also checked against the statement of C07_restore_async directly."""
    import logging
    import sys

    import onnx_ir as ir
    from onnx_ir import serde

    logging.getLogger("onnx_ir").setLevel(logging.ERROR)
    res = {"case": case, "fails": [], "reqs": [], "impl": [], "what": [], "info": {}, "kind": "async"}
    backend = case["backend"]
    with tempfile.TemporaryDirectory(prefix="c07a-", dir=_run_dir()) as tmp:
        tensors, flags = [], []
        for i, (n, kind) in enumerate(zip(case["sizes"], case["kinds"])):
            data = bytes((5 * i + j) % 251 for j in range(n))
            if kind == "none":
                tensors.append(None)
            elif kind == "str":
                tensors.append(ir.StringTensor([b"s" * n], shape=ir.Shape([1]), name=f"w{i}"))
            elif kind == "ext":
                with open(os.path.join(tmp, f"src{i}.bin"), "wb") as f:
                    f.write(data)
                tensors.append(ir.ExternalTensor(f"src{i}.bin", 0, n, ir.DataType.UINT8, shape=ir.Shape([n]),
                                                 name=f"w{i}", base_dir=tmp))
            else:
                tensors.append(ir.Tensor(np.frombuffer(data, dtype=np.uint8), name=f"w{i}"))
        model, vs = _simple_model(tensors)
        nb = [(t.nbytes if t is not None else 0) for t in tensors]
        inits = [[nb[k], int(isinstance(t, ir.ExternalTensor)), int(t is not None), int(case["kinds"][k] == "str")]
                 for k, t in enumerate(tensors)]
        orig = {id(v): t for v, t in zip(vs, tensors)}
        setter_code = type(vs[0]).const_value.fset.__code__
        state = {"restores": 0, "fired": False}
        cut = case["cut"]

        def tracer(frame, event, arg):
            if event == "call" and frame.f_code is setter_code:
                loc = frame.f_locals
                slf = loc.get("self")
                if id(slf) in orig and loc.get("value") is orig[id(slf)]:
                    if cut is not None and state["restores"] == cut and not state["fired"]:
                        state["fired"] = True
                        raise KeyboardInterrupt("injected: asynchronous exception inside the restore loop")
                    state["restores"] += 1
            return None

        snap: dict = {}
        orig_serialize = serde.serialize_model

        def spy(m, *a, **kw):
            snap.setdefault("mid", [v.const_value for v in vs])
            if case["fail"] == "serialize":
                raise RuntimeError("injected: serialization fails")
            return orig_serialize(m, *a, **kw)

        kwargs = {"size_threshold_bytes": case["thr"]}
        if case["fail"] == "format":
            kwargs["format"] = "bogus"
        raised = None
        serde.serialize_model = spy
        old_trace = sys.gettrace()
        sys.settrace(tracer)
        try:
            if backend == "raw":
                ir.save(model, os.path.join(tmp, "m.onnx"), external_data="m.data", **kwargs)
            else:
                ir.save_safetensors(model, os.path.join(tmp, "m.onnx"), **kwargs)
        except _Timeout:
            raise
        except BaseException as e:  # noqa: BLE001
            raised = e
        finally:
            sys.settrace(old_trace)
            serde.serialize_model = orig_serialize
        after = [v.const_value for v in vs]
        mid = snap.get("mid")

        def canon(objs):
            return [None if t is None else (k if t is tensors[k] else 1000 + k) for k, t in enumerate(objs)]

        fin = canon(after)
        phase = {"none": "none", "serialize": "serialize", "format": "protoSave"}[case["fail"]]
        res["reqs"].append({"m": "layout.save_run_async", "backend": backend, "inits": inits, "thr": case["thr"],
                            "fresh": 1000, "store": canon(tensors), "phase": phase, "occ": 0, "cut": cut})
        impl = {"fin": fin, "raised": state["fired"]}
        if mid is not None:
            impl["mid"] = canon(mid)
        res["impl"].append(impl)
        res["what"].append("restore-async")
        # the statement of C07_restore_async on the real objects: the remembered values (raw: every initializer
        # value; safetensors: those holding a non-string tensor) in declaration order; the first `cut` hold their
        # original object, every other value holds what serialization saw
        snapshot = [k for k in range(len(vs)) if backend == "raw" or (tensors[k] is not None and case["kinds"][k] != "str")]
        n_eff = len(snapshot) if cut is None else min(cut, len(snapshot))
        want_raise = cut is not None and cut < len(snapshot)
        if state["fired"] != want_raise or (want_raise and not isinstance(raised, KeyboardInterrupt)):
            res["fails"].append({"signature": f"restore-async:{backend}:delivery",
                                 "what": f"asynchronous exception fired={state['fired']} raised={type(raised).__name__ if raised else None}, "
                                         f"expected interruption={want_raise} (snapshot of {len(snapshot)}, cut {cut})", "case": case})
        if mid is not None:
            # whatever the order of the loop: a value holds its original object or the object serialization saw, and
            # a value outside the remembered ones was never touched by the finally block (WHICH remembered values
            # are restored after n assignments is the model's statement: compared through saveRunAsync above)
            for k in range(len(vs)):
                if after[k] is not tensors[k] and after[k] is not mid[k]:
                    res["fails"].append({"signature": f"restore-async:{backend}:third-object",
                                         "what": f"after an asynchronous exception following {n_eff} restores value {k} holds "
                                                 "neither its original tensor nor the one the save put there", "case": case})
                    break
                if k not in snapshot and after[k] is not mid[k]:
                    res["fails"].append({"signature": f"restore-async:{backend}:unremembered-touched",
                                         "what": f"value {k} is not among the remembered values but was changed by the finally block",
                                         "case": case})
                    break
        if not want_raise and any(a is not b for a, b in zip(after, tensors)):
            res["fails"].append({"signature": f"restore:{backend}:async-family-no-interruption",
                                 "what": "no asynchronous exception was delivered, yet the model is not restored", "case": case})
        res["info"] = {"raised": type(raised).__name__ if raised else None, "interrupted": state["fired"],
                       "restored_all": all(a is b for a, b in zip(after, tensors)),
                       "left_repointed": sum(1 for a, b in zip(after, tensors) if a is not b)}
    return res


def gen_async_case(rng: random.Random) -> dict:
    n = rng.choice([1, 2, 3, 4, 5, 6])
    kinds = [rng.choice(["mem", "mem", "mem", "ext", "none", "str"]) for _ in range(n)]
    sizes = [rng.choice([0, 1, 7, 64, 300]) for _ in range(n)]
    return {"family": "async", "backend": rng.choice(["raw", "raw", "st"]), "sizes": sizes, "kinds": kinds,
            "thr": rng.choice([0, 0, 8, 64, 100, 10**6]), "fail": rng.choice(["none", "none", "serialize", "format"]),
            "cut": rng.choice([None, 0, 0, 1, 1, 2, 3, 5, 9])}


_SEQ_BASES = ["A.data", "B.data"]


def _seq_key(loc: str):
    m = re.search(r"-(\d{5,})-of-(\d{5,})", loc)
    base = re.sub(r"-\d{5,}-of-\d{5,}", "", loc)
    return base, (int(m.group(1)) - 1 if m else 0), (int(m.group(2)) if m else 1)


def run_seq_case(case: dict) -> dict:
    """A call sequence save / load / load_to_model / unload_from_model / convert_tensors_from_external on one model
    directory.  After every call: where every initializer of the caller's model lives (against the sequence model,
    raw backend) and what it reads (oracle: a reference the model calls valid reads the original bytes; after a
    save + load every initializer does)."""
    import logging

    import onnx_ir as ir

    logging.getLogger("onnx_ir").setLevel(logging.ERROR)
    res = {"case": case, "fails": [], "reqs": [], "impl": [], "what": [], "info": {}, "kind": "seq"}
    V = [bytes((11 * i + j) % 253 for j in range(n)) for i, n in enumerate(case["sizes"])]
    obs = {"D431": 0, "D433": 0}
    with tempfile.TemporaryDirectory(prefix="c07s-", dir=_run_dir()) as tmp:
        path = os.path.join(tmp, "m.onnx")
        model, _ = _simple_model([ir.Tensor(np.frombuffer(b, dtype=np.uint8), name=f"w{i}") for i, b in enumerate(V)])
        bases: list = []   # base name -> id in the model's file keys
        stale: set = set()  # positions of the caller's model the sequence model calls stale
        steps, ops_done, has_disk, last_backend = [], [], False, None
        disk_refs, disk_stale = [], set()  # the saved proto's references; those a later unload made stale
        all_raw = True

        def base_id(name):
            if name not in bases:
                bases.append(name)
            return bases.index(name)

        def snapshot(m):
            out = []
            for k, v in enumerate(m.graph.initializers.values()):
                t = v.const_value
                if isinstance(t, ir.ExternalTensor):
                    b, i, n = _seq_key(os.fspath(t.location))
                    out.append(["E", base_id(b), i, n, t.offset or 0, t.length])
                else:
                    out.append(["I"])
            return out

        def read(m, k):
            t = list(m.graph.initializers.values())[k].const_value
            try:
                return bytes(t.tobytes())
            except BaseException as e:  # noqa: BLE001
                return e
            finally:
                # drop the memory map the read opened: a cached map of the old inode would hide a save that reads
                # its sources only after it has overwritten them (D432)
                if isinstance(t, ir.ExternalTensor):
                    try:
                        t.release()
                    except BaseException:  # noqa: BLE001
                        pass

        for op in case["ops"]:
            op = dict(op)
            if op["op"] != "load" and stale:
                if not has_disk:
                    break
                op = {"op": "load"}  # a stale tensor must not be handed to a call: reload first (the documented way)
            kind = op["op"]
            try:
                if kind in ("save", "unload"):
                    before = snapshot(model)
                    if kind == "save":
                        ir.save(model, path, external_data=op["ext"], size_threshold_bytes=op["thr"],
                                max_shard_size_bytes=op["max"], alignment=op["al"], align_threshold=op["athr"],
                                max_workers=op.get("workers"))
                        has_disk = True
                        proto_refs = snapshot(ir.load(path))
                    else:
                        ir.external_data.unload_from_model(model, tmp, op["ext"], size_threshold_bytes=op["thr"],
                                                           max_shard_size_bytes=op["max"], alignment=op["al"],
                                                           align_threshold=op["athr"])
                        proto_refs = snapshot(model)
                    written = {tuple(r[1:4]) for r in proto_refs if r[0] == "E"}
                    if not written and op["max"] is None:
                        written = {(base_id(op["ext"]), 0, 1)}  # an empty data file is still written
                    if kind == "save":
                        stale |= {k for k, r in enumerate(before) if r[0] == "E" and tuple(r[1:4]) in written}
                        disk_refs, disk_stale = proto_refs, set()
                    else:
                        stale = set()
                        disk_stale |= {k for k, r in enumerate(disk_refs) if r[0] == "E" and tuple(r[1:4]) in written}
                    ops_done.append({"op": kind, "base": base_id(op["ext"]), "thr": op["thr"], "max": op["max"],
                                     "al": op["al"], "athr": op["athr"]})
                    last_backend = "raw"
                elif kind == "save_st":
                    before = snapshot(model)
                    ir.save_safetensors(model, path, size_threshold_bytes=op["thr"], max_shard_size_bytes=op["max"])
                    has_disk, all_raw, last_backend = True, False, "st"
                    disk_refs, disk_stale = snapshot(ir.load(path)), set()
                    written = {tuple(r[1:4]) for r in disk_refs if r[0] == "E"}
                    stale |= {k for k, r in enumerate(before) if r[0] == "E" and tuple(r[1:4]) in written}
                    ops_done.append({"op": "save_st", "base": base_id("m.safetensors"), "thr": op["thr"], "max": op["max"]})
                elif kind == "load":
                    if not has_disk:
                        continue
                    model = ir.load(path)
                    stale = set(disk_stale)
                    ops_done.append({"op": "load"})
                    # the oracle of the sequence property: after a save that ran to the end + load, every
                    # initializer reads its original bytes (unless a later in-place unload replaced its file)
                    for k in range(len(V)):
                        if k in stale:
                            continue
                        got = read(model, k)
                        if got != V[k]:
                            sig = ("sequence:st:reshard-overwrites-source" if last_backend == "st"
                                   else "sequence:raw:reload-differs")
                            res["fails"].append({"signature": sig, "what": f"initializer {k} reads "
                                                 f"{got if isinstance(got, BaseException) else 'other bytes'} after save + load",
                                                 "case": {**case, "ops_done": ops_done}})
                            break
                elif kind == "load_to_model":
                    ir.external_data.load_to_model(model)
                    ops_done.append({"op": "load_to_model"})
                elif kind == "convert":
                    v = list(model.graph.initializers.values())[op["k"] % len(V)] if V else None
                    if v is None or not isinstance(v.const_value, ir.ExternalTensor):
                        continue
                    v.const_value = ir.external_data.convert_tensors_from_external([v.const_value])[0]
                    ops_done.append({"op": "convert", "k": op["k"] % len(V)})
            except _Timeout:
                raise
            except BaseException as e:  # noqa: BLE001
                res["fails"].append({"signature": (f"sequence:st:reshard-overwrites-source:{type(e).__name__}" if kind == "save_st"
                                                   else f"sequence:{kind}:raised:{type(e).__name__}"),
                                     "what": f"{kind} raised {type(e).__name__}: {e}",
                                     "case": {**case, "ops_done": ops_done}})
                break
            snap = snapshot(model)
            vals = []
            for k in range(len(V)):
                if k in stale:
                    got = read(model, k)
                    if not isinstance(got, BaseException) and got != V[k]:
                        obs["D433" if last_backend == "st" else "D431"] += 1  # stale AND silently other bytes
                    snap[k] = ["S"]
                    vals.append(None)
                else:
                    got = read(model, k)
                    if got != V[k]:
                        res["fails"].append({"signature": f"sequence:{last_backend or 'none'}:valid-reference-reads-other-bytes",
                                             "what": f"after {kind}: initializer {k} is not stale but reads "
                                                     f"{got if isinstance(got, BaseException) else 'other bytes'}",
                                             "case": {**case, "ops_done": ops_done}})
                    vals.append(_hex(V[k]))
            steps.append({"mem": snap, "vals": vals})
        if ops_done:
            # both backends are instances of the sequence model (C07_rawBackend_ok, C07_stBackend_ok): every
            # generated sequence, mixed ones included, is compared step by step
            res["reqs"].append({"m": "layout.seq", "vals": [_hex(b) for b in V], "ops": ops_done,
                                "metas": [{"name": f"w{i}", "dtype": ir.DataType.UINT8.value, "shape": [len(b)]}
                                          for i, b in enumerate(V)]})
            res["impl"].append({"steps": steps})
            res["what"].append("sequence")
        kinds_done = {o["op"] for o in ops_done}
        res["info"] = {"ops": [o["op"] for o in ops_done], "obs": obs, "all_raw": all_raw,
                       "mixed": "save_st" in kinds_done and bool(kinds_done & {"save", "unload"}),
                       "stale_seen": any(r == ["S"] for st_ in steps for r in st_["mem"])}
    return res


def gen_debug_case(rng: random.Random) -> dict:
    n = rng.choice([1, 2, 3, 4, 5])
    sizes = [rng.choice([0, 1, 7, 64, 300]) for _ in range(n)]
    duck = [rng.random() < 0.35 for _ in range(n)]
    return {"family": "debug", "backend": rng.choice(["raw", "raw", "st"]), "sizes": sizes, "duck": duck,
            "debug": rng.random() < 0.75, "thr": rng.choice([0, 0, 8, 100, 10**6])}


def gen_seq_case(rng: random.Random) -> dict:
    if rng.random() < 0.08:
        # re-sharding onto the same safetensors shard names with a tensor moving to a LATER shard (D432): a lower
        # threshold adds a small tensor in front, so the 4th tensor moves from shard 1 to shard 2 of 2
        s0, z = rng.choice([1, 7, 50]), rng.choice([64, 100])
        return {"family": "seq", "sizes": [s0] + [z] * 5, "template": "reshard-later",
                "ops": [{"op": "save_st", "thr": s0 + 1, "max": 3 * z}, {"op": "load"},
                        {"op": "save_st", "thr": 0, "max": 3 * z}, {"op": "load"}]}
    n = rng.choice([1, 2, 3, 4, 6])
    sizes = [rng.choice([1, 7, 50, 64, 100, 300]) for _ in range(n)]
    use_st = rng.random() < 0.5
    ops, fresh = [], 0
    for _ in range(rng.choice([2, 3, 4, 5, 6, 7])):
        r = rng.random()
        if r < 0.45:
            mx = rng.choice([None, None, None, 100, 300, max(1, sum(sizes) // 2)])
            if use_st and rng.random() < 0.6:
                ops.append({"op": "save_st", "thr": rng.choice([0, 8, 60, 64, 101]), "max": mx})
            else:
                if mx is None:
                    # mostly the file of the previous single-file save: re-saving onto the files the loaded
                    # model's own tensors live in is what makes references stale
                    prev = [o["ext"] for o in ops if o.get("ext") in _SEQ_BASES]
                    ext = prev[-1] if prev and rng.random() < 0.7 else rng.choice(_SEQ_BASES)
                else:
                    fresh += 1
                    ext = f"S{fresh}.data"  # the sharded writer refuses existing files: a new base every time
                al = rng.choice([None, None, 4096])
                ops.append({"op": rng.choice(["save", "save", "save", "unload"]), "ext": ext,
                            "thr": rng.choice([0, 8, 60, 64, 101, 10**6]), "max": mx, "al": al,
                            "athr": rng.choice([0, 60]) if al else 0, "workers": rng.choice([None, None, 3])})
        elif r < 0.82:
            ops.append({"op": "load"})
        elif r < 0.9:
            ops.append({"op": "load_to_model"})
        else:
            ops.append({"op": "convert", "k": rng.randrange(8)})
    return {"family": "seq", "sizes": sizes, "ops": ops}


def _run_deep_case(c: dict) -> dict:
    fam = c["family"]
    return run_debug_case(c) if fam == "debug" else run_async_case(c) if fam == "async" else run_seq_case(c)


def run_deep_chunk(cases: list[dict]) -> list[dict]:
    return _guarded_chunk(_run_deep_case, cases, kind_of=lambda c: c["family"])


def _compare_deep(ctx: Ctx, results: list[dict]) -> None:
    reqs = [r for res in results for r in res["reqs"]]
    outs = lean_batch_parallel(reqs) if reqs else []
    pos = 0
    for res in results:
        case, info = res["case"], res["info"]
        if res["kind"] == "debug":
            ctx.case(case, nontrivial=True, sample={**case, "result": info}, family="restore-loop", backend=case["backend"],
                     debug=case["debug"], hyp_setter_accepts_originals=info.get("hyp"), restored=info.get("restored"),
                     raised=info.get("raised"))
            if info.get("hyp") is False and info.get("restored") is False:
                ctx.count("observation=D430")
        elif res["kind"] == "async":
            ctx.case(case, nontrivial=True, sample={**case, "result": info}, family="restore-async", backend=case["backend"],
                     async_cut=case["cut"], async_fail=case["fail"], async_interrupted=info.get("interrupted"),
                     async_left_repointed=min(info.get("left_repointed", 0), 3), raised=info.get("raised"))
            if info.get("interrupted") and info.get("left_repointed"):
                ctx.count("observation=D435")
        else:
            ctx.case(case, nontrivial=True, sample={**case, "result": info}, family="sequence",
                     seq_len=len(info.get("ops", [])), seq_all_raw=info.get("all_raw"), seq_mixed=info.get("mixed"),
                     seq_stale_seen=info.get("stale_seen"),
                     seq_template=case.get("template"))
            for o in info.get("ops", []):
                ctx.count(f"seq_op={o}")
            for key, n in (info.get("obs") or {}).items():
                if n:
                    ctx.count(f"observation={key}", n)
        for f in res["fails"]:
            ctx.fail(f["signature"], f["what"], f["case"])
        for req, impl, what in zip(res["reqs"], res["impl"], res["what"]):
            out = outs[pos]
            pos += 1
            if what == "sequence":
                got = [{"mem": st_.get("mem"), "vals": st_.get("vals")} if isinstance(st_, dict) else st_
                       for st_ in out.get("steps", [])]
                if got != impl["steps"]:
                    first = next((i for i, (a, b) in enumerate(zip(got, impl["steps"])) if a != b), min(len(got), len(impl["steps"])))
                    ctx.disagree(f"sequence: model != implementation at step {first}", case,
                                 _short(got[first:first + 1]), _short(impl["steps"][first:first + 1]))
            else:
                bad = [k for k in impl if out.get(k) != impl[k]]
                if bad or "err" in out:
                    ctx.disagree(f"{what}: model != implementation on {bad or out.get('err')}", case,
                                 {k: _short(out.get(k)) for k in (bad or ["err"])}, {k: _short(impl[k]) for k in bad})


_RUN_DIR: list = []
_TMP_ROOT = os.path.join(os.path.dirname(os.path.dirname(os.path.abspath(__file__))), ".work", "tmp-c07")


def _run_dir() -> str:
    """Per-run scratch directory under /verif/.work (removed at the end of the run; stale ones of killed
    runs are removed at the start of the next run)."""
    if not _RUN_DIR:
        os.makedirs(_TMP_ROOT, exist_ok=True)
        _RUN_DIR.append(tempfile.mkdtemp(prefix=f"run-{os.getpid()}-", dir=_TMP_ROOT))
    return _RUN_DIR[0]


def _clean_stale_run_dirs(max_age_s: int = 3600) -> None:
    import shutil
    import time

    if not os.path.isdir(_TMP_ROOT):
        return
    for name in os.listdir(_TMP_ROOT):
        path = os.path.join(_TMP_ROOT, name)
        m = re.match(r"run-(\d+)-", name)
        alive = bool(m) and os.path.exists(f"/proc/{m.group(1)}")
        try:
            if not alive or time.time() - os.path.getmtime(path) > max_age_s:
                shutil.rmtree(path, ignore_errors=True)
        except OSError:
            pass


def run_chunk(cases: list[dict]) -> list[dict]:
    return _guarded_chunk(run_case, cases)


# ------------------------------------------------------------------------------------------
# generators

SHAPES = [[], [0], [1], [3], [5], [2, 3], [7, 9], [1, 1, 1, 1, 7], [64], [33, 3], [0, 4]]
BIG_SHAPES = [[1200], [5000], [70, 70]]  # beyond the 4096-byte alignment factor
KINDS = ["mem", "mem", "lazy", "lazyc", "packed", "proto", "proto_typed", "ext_same", "ext_other", "torch", "custom"]
_TORCH = ("FLOAT", "DOUBLE", "FLOAT16", "BFLOAT16", "INT8", "UINT8", "INT16", "INT32", "INT64", "BOOL")
_TYPED = ("INT64", "UINT32", "UINT64", "FLOAT16", "BFLOAT16", "INT32", "INT8", "UINT8", "INT16", "UINT16", "BOOL")


def gen_tensor(rng: random.Random, i: int, ext_name: str, backend: str, allow_sub: bool = True) -> dict:
    kind = rng.choice(KINDS)
    dtype = rng.choice(ALL_DTYPES)
    if backend == "st" and dtype == "COMPLEX128" and rng.random() < 0.5:
        dtype = "COMPLEX64"  # safetensors has no 128-bit complex type (gen_case keeps the others below the threshold)
    if kind == "packed":
        dtype = rng.choice(_SUB4 + _SUB2)
    if kind == "proto_typed":
        dtype = rng.choice(_TYPED)
    if kind == "torch":
        dtype = rng.choice(_TORCH)
    if kind == "custom":
        dtype = rng.choice([d for d in _WIDE if d != "COMPLEX128"])
    shape = rng.choice(BIG_SHAPES) if rng.random() < 0.06 else rng.choice(SHAPES)
    s = {"kind": kind, "dtype": dtype, "shape": shape, "seed": rng.randrange(1 << 30), "name": f"t{i}",
         "graph": rng.choice([0, 0, 0, 0, 1, 2, 2, 3, 4])}
    if kind == "ext_same":
        s["loc"] = ext_name
    elif kind == "ext_other":
        s["loc"] = rng.choice(["other.bin", "old/weights.bin"])
    return s


def fix_external_sources(specs: list[dict]) -> None:
    """Lay the pre-existing external tensors out in their source files (dense, with a small gap)."""
    pos: dict[str, int] = {}
    for s in specs:
        if s["kind"] in ("ext_same", "ext_other") and s.get("dup_of") is None:
            n = len(expected_bytes(s))
            p = pos.get(s["loc"], s.get("gap", 0))
            s["pre"] = p
            pos[s["loc"]] = p + n + s.get("gap", 0)


DESTS = [("model.onnx", "model.data"), ("m.v1.onnx", "m.v1.fp16.data"), ("out/model.onnx", "model.data"),
         ("out/model.onnx", "w/model.weights.bin"), ("model", "data"), ("a.b/c.d.onnx", ".hidden.data"),
         ("model.onnx", "model.onnx.data"),
         # not normalised: the code records os.path.normpath(location)
         ("model.onnx", "./model.data"), ("out/model.onnx", "w//m.data"), ("model.onnx", "w/../m2.data")]


def gen_case(rng: random.Random, backend: str) -> dict:
    n = rng.choice([0, 1, 1, 2, 3, 3, 4, 5, 6, 8])
    dest, ext = rng.choice(DESTS)
    specs = [gen_tensor(rng, i, ext, backend) for i in range(n)]
    # a tensor whose own name differs from the initializer's name, or that has no name at all
    if n >= 1 and rng.random() < 0.15:
        src = rng.randrange(n)
        if specs[src]["kind"] in ("mem", "lazy", "lazyc", "packed", "custom", "torch"):
            specs[src]["tname"] = rng.choice([None, "other_name", "t0", ""])
        elif specs[src]["kind"] in ("proto", "proto_typed"):
            specs[src]["tname"] = rng.choice(["other_name", ""])
        else:
            specs[src]["tname"] = "other_name"
    # one tensor object shared by two initializers: under another name (any graph), or under the same name
    # in the main graph and in a subgraph (raw backend only: safetensors rejects equal names up front)
    if n >= 1 and rng.random() < 0.2:
        src = rng.randrange(n)
        d = dict(specs[src])
        d["dup_of"] = src
        if backend == "raw" and specs[src]["graph"] == 0 and rng.random() < 0.5:
            d["graph"] = rng.choice([1, 2, 3])
        else:
            d["name"] = f"t{len(specs)}"
            d["graph"] = rng.choice([0, 0, 1, 2])
        specs.append(d)
    if rng.random() < 0.1 and n:
        specs[rng.randrange(len(specs))]["noconst"] = True
    if rng.random() < 0.06:
        specs.append({"kind": "str", "dtype": "STRING", "shape": [1], "seed": 0, "name": f"t{len(specs)}", "graph": 0,
                      "strlen": rng.choice([0, 3, 300])})
    for s in specs:
        if s["kind"] in ("ext_same", "ext_other"):
            s["gap"] = rng.choice([0, 0, 3])
    sizes = [len(expected_bytes(s)) if s["kind"] != "str" else s["strlen"] for s in specs]
    pool = sorted(set(sizes)) or [0]
    thr = rng.choice([0, 1, 255, 256, 10**9, -1] + [rng.choice(pool), rng.choice(pool) - 1, rng.choice(pool) + 1])
    if backend == "raw" and thr < 0:
        thr = 0 if rng.random() < 0.7 else thr
    al = rng.choice([None, None, 1, 4096, 8192, 65536])
    athr = rng.choice([0, 1, 16, 100, 1 << 20] + [rng.choice(pool)])
    tot = sum(sizes)
    mx = rng.choice([None, None, 1, 7, 64, 100, 4096, 5000, 1 << 40] + [max(1, rng.choice(pool)), max(1, tot), max(1, tot // 2)])
    workers = rng.choice([None, 1, 2, 4, 8])  # 8 with two or more shards: nested writer pools (3 per shard)
    case = {"backend": backend, "tensors": specs, "thr": thr, "al": al, "athr": athr, "max": mx, "workers": workers,
            "dest": dest, "ext": ext, "callback": rng.random() < 0.3, "subgraphs": rng.random() < 0.3,
            "nested": rng.random() < 0.15}
    if "/" not in dest and rng.random() < 0.3:
        case["bare"] = True  # save to a bare file name from inside the directory (base_dir == "")
    if backend == "st":
        case.update(al=None, athr=0, workers=None)
        case["ext"] = None
        # COMPLEX128 has no entry in the save table: at or above the threshold the save raises KeyError (the
        # st_keyerror family of gen_fail_case); here such tensors only occur BELOW the threshold, where they stay inline
        for s in specs:
            if s["dtype"] == "COMPLEX128" and s["kind"] != "str" and len(expected_bytes(s)) >= thr:
                s["dtype"] = "COMPLEX64"
    # the sharded writer refuses to touch an existing file, so a source tensor living in the destination
    # file is only meaningful for the single-file raw save
    for s in specs:
        if s["kind"] == "ext_same" and (backend == "st" or mx is not None):
            s["loc"] = "prev.bin"
    fix_external_sources(specs)
    if workers and workers > 1:
        perm = list(range(max(16, len(specs) + 1)))
        rng.shuffle(perm)
        case["sched"] = perm
        case["inflight"] = rng.choice([None, 1, 64, 1 << 30])
    if any(s["kind"] in ("ext_same", "ext_other") for s in specs) and rng.random() < 0.3:
        case["chunk"] = rng.choice([1, 7, 64])  # portable chunked copy of ExternalTensor.tofile
    # keep data files small enough to ship to the model (alignment 65536 with many large tensors)
    if al == 65536 and sum(1 for z in sizes if z > athr) > 3:
        case["al"] = 4096
    return case


def gen_fail_case(rng: random.Random, backend: str) -> dict:
    case = gen_case(rng, backend)
    specs = case["tensors"]
    mode = rng.choice(["lazy_raises", "serialize", "format", "validate", "early", "exists", "missing_ext",
                       "small_lazy_raises", "abs_path"])
    if backend == "st" and mode in ("validate", "early", "exists", "abs_path"):
        mode = rng.choice(["lazy_raises", "serialize", "format", "dup_name", "missing_ext", "reserved_name", "st_keyerror"])
    elif backend == "st" and rng.random() < 0.12:
        mode = "st_keyerror"
    # external sources in the destination file would be invalidated; keep them out of failing saves? no: keep.
    i = len(specs)
    if mode == "lazy_raises":
        specs.append({"kind": "lazy_raises", "dtype": "FLOAT", "shape": [100], "seed": 1, "name": f"t{i}", "graph": 0})
        case["thr"] = min(case["thr"], 256)
    elif mode == "small_lazy_raises":
        specs.append({"kind": "lazy_raises", "dtype": "FLOAT", "shape": [2], "seed": 1, "name": f"t{i}", "graph": 0})
        case["thr"] = max(case["thr"], 256)
        if backend == "st":
            case["thr"] = max(case["thr"], 9)
    elif mode == "dup_name":
        # safetensors keys are names: the same initializer name in two graphs is rejected up front
        specs.append({"kind": "mem", "dtype": "UINT8", "shape": [3], "seed": 5, "name": "same", "graph": 0})
        specs.append({"kind": "mem", "dtype": "UINT8", "shape": [3], "seed": 6, "name": "same", "graph": 2})
    elif mode == "reserved_name":
        # the header key `__metadata__` is reserved by the container format (D434): rejected up front
        specs.append({"kind": "mem", "dtype": rng.choice(["UINT8", "FLOAT"]), "shape": [rng.choice([3, 80])], "seed": 7,
                      "name": "__metadata__", "graph": rng.choice([0, 0, 2])})
    elif mode == "st_keyerror":
        # COMPLEX128 at or above the threshold (D-less: the code raises KeyError by design): in any graph, any position,
        # with files of the same names already in the directory
        sp = {"kind": rng.choice(["mem", "mem", "lazy", "proto", "ext_other"]), "dtype": "COMPLEX128",
              "shape": rng.choice([[1], [3], [2, 2]]), "seed": 9, "name": f"t{i}", "graph": rng.choice([0, 0, 1, 2])}
        if sp["kind"] == "ext_other":
            sp["loc"], sp["gap"] = "other.bin", 0
        specs.insert(rng.randrange(len(specs) + 1), sp)
        for s in specs:
            if s.get("dup_of") is not None:
                s.pop("dup_of")  # positions moved: no shared objects in this family
                s["seed"] = s["seed"] + 1
        case["thr"] = min(case["thr"], 16 * _prod(sp["shape"]))
        fix_external_sources(specs)
        dn = os.path.basename(case["dest"])
        stb = (os.path.splitext(dn)[0] if "." in dn else dn)
        case["preexisting"] = [stb + ".safetensors", stb + "-00001-of-00002.safetensors", stb + ".safetensors.index.json"]
    elif mode == "abs_path":
        case["ext"] = "<ABS>"  # an absolute path into the (writable) scratch directory: must be rejected up front
    elif mode == "validate":
        case["workers"] = 0
    elif mode == "early":
        case["max"] = 0
    elif mode == "exists":
        specs.append({"kind": "mem", "dtype": "UINT8", "shape": [64], "seed": 5, "name": f"t{i}", "graph": 0})
        specs.append({"kind": "mem", "dtype": "UINT8", "shape": [64], "seed": 6, "name": f"t{i + 1}", "graph": 0})
        case["thr"], case["max"] = 0, 70
        case["preexisting_probe"] = True
    elif mode == "missing_ext":
        specs.append({"kind": "ext_missing", "dtype": "UINT8", "shape": [4], "seed": 5, "name": f"t{i}", "graph": 0,
                      "loc": "gone.bin", "pre": 0})
        case["thr"] = max(case["thr"], 5)
    if backend == "st" and mode != "st_keyerror":
        # the threshold may have been lowered by the mode: keep COMPLEX128 below it (see gen_case)
        for s in specs:
            if s["dtype"] == "COMPLEX128" and s["kind"] != "str" and len(expected_bytes(s)) >= case["thr"]:
                s["dtype"] = "COMPLEX64"
        fix_external_sources(specs)
    case["fail"] = mode
    return case


# ------------------------------------------------------------------------------------------
# part A: pure functions


def part_a(ctx: Ctx) -> None:
    """Part A under the guard: a pure function of a mutated tree that loops becomes the failure
    `nontermination:part-a:<stream>` (the rest of part A is skipped), never a hung check."""
    stream = ["start"]
    try:
        with alarm_guard(_PART_A_CPU_S, _PART_A_WALL_S, "nontermination:part-a"):
            _part_a_inner(ctx, stream)
    except _Timeout:
        ctx.fail(f"nontermination:part-a:{stream[0]}", "a pure layout function did not return within "
                 f"{_PART_A_CPU_S}s CPU / {_PART_A_WALL_S}s wall", {"stream": stream[0]})
    finally:
        _GUARD["fired"] = None


def _real(fn, *a, **kw):
    """A call of real code on stub arguments: an exception becomes the value ["raised", type] (compared with the
    model's answer, hence a disagreement), never a harness crash."""
    try:
        return fn(*a, **kw)
    except _Timeout:
        raise
    except Exception as e:  # noqa: BLE001
        return ["raised", type(e).__name__]


def _is_raised(r) -> bool:
    return isinstance(r, list) and len(r) == 2 and r[0] == "raised"


def _part_a_inner(ctx: Ctx, stream: list) -> None:
    from onnx_ir import _safetensors as st
    from onnx_ir import _shard_filename as sf
    from onnx_ir import external_data as ed

    rng = ctx.rng
    reqs, impls, cases = [], [], []
    st_failed: set[str] = set()

    def T(n):
        return types.SimpleNamespace(nbytes=n, name="t")

    # _align_offset: small exhaustive grid around the factor boundaries + random
    grid_cur = [0, 1, 4095, 4096, 4097, 8191, 8192, 65535, 65536, 65537, 100000]
    for cur in grid_cur:
        for size in (0, 1, 16, 17, 5000):
            for al in (None, 1, 4096, 4097, 8192, 65536, 100000):
                for athr in (0, 16, 1 << 20):
                    stream[0] = "_align_offset"
                    reqs.append({"m": "layout.align", "cur": cur, "size": size, "al": al, "athr": athr})
                    r = _real(ed._align_offset, cur, size, al, athr)
                    impls.append(r)
                    cases.append(("align", [cur, size, al, athr]))
                    if _is_raised(r) or not isinstance(r, int):
                        continue
                    if r < cur or (al is not None and size > athr and (r % max(4096, al) or r - cur >= max(4096, al))) \
                            or ((al is None or size <= athr) and r != cur):
                        ctx.fail("align-offset", "aligned offset not the next multiple / not dense", [cur, size, al, athr, r])
    ctx.exhaustive_scopes.append("_align_offset over the listed boundary grid (11 offsets x 5 sizes x 7 alignments x 3 thresholds)")
    nrand = ctx.pick(400, 4000)
    for _ in range(nrand):
        n = rng.randrange(0, 9)
        sizes = [rng.choice([0, 1, 3, 17, 100, 4096, 5000, rng.randrange(0, 70000)]) for _ in range(n)]
        al = rng.choice([None, 1, 4096, 8192, 65536, rng.randrange(1, 200000)])
        athr = rng.choice([0, 1, 16, 100, 4096, 1 << 20])
        # running-offset loop of convert_tensors_to_external
        stream[0] = "_compute_external_data_info"
        infos, cur = [], 0
        for s in sizes:
            inf = _real(ed._compute_external_data_info, T(s), cur, al, athr)
            if _is_raised(inf):
                infos = inf
                break
            infos.append([inf.offset, inf.length])
            cur = inf.offset + inf.length
        reqs.append({"m": "layout.infos", "sizes": sizes, "al": al, "athr": athr})
        impls.append(infos)
        cases.append(("infos", [sizes, al, athr]))
        mx = rng.choice([1, 7, 100, 4096, 5000, 70000, max(1, sum(sizes)), max(1, sum(sizes) // 2)])
        stream[0] = "external_data._shard_tensors"
        sh = _real(ed._shard_tensors, [T(s) for s in sizes], mx, al, athr)
        groups = sh if _is_raised(sh) else [[t.nbytes for t in g] for g in sh]
        reqs.append({"m": "layout.shard_raw", "sizes": sizes, "max": mx, "al": al, "athr": athr})
        impls.append(groups)
        cases.append(("shard_raw", [sizes, mx, al, athr]))
        if not _is_raised(sh):
            if [x for g in groups for x in g] != sizes or (sizes and any(not g for g in groups)):
                ctx.fail("shard-raw:partition", "shards do not partition the tensors in order", [sizes, mx, al, athr, groups])
            for g in groups:
                # the limit clause with the offsets of the layout the code is specified to write (independent of
                # _align_offset: next multiple of max(4096, alignment) for tensors above align_threshold)
                c = 0
                for s in g:
                    if al is not None and s > athr:
                        f_ = max(4096, al)
                        c = (c + f_ - 1) // f_ * f_
                    c += s
                if c > mx and len(g) != 1:
                    ctx.fail("shard-raw:limit", "a multi-tensor shard exceeds the limit", [sizes, mx, al, athr, groups])
        mxs = rng.choice([None, mx])
        stream[0] = "_safetensors._shard_tensors"
        sh = _real(st._shard_tensors, [T(s) for s in sizes], mxs)
        groups = sh if _is_raised(sh) else [[t.nbytes for t in g] for g in sh]
        reqs.append({"m": "layout.shard_st", "sizes": sizes, "max": mxs})
        impls.append(groups)
        cases.append(("shard_st", [sizes, mxs]))
        if _is_raised(sh):
            continue
        if [x for g in groups for x in g] != sizes:
            ctx.fail("shard-st:partition", "safetensors shards do not partition the tensors in order", [sizes, mxs, groups])
        if mxs is not None:
            for g in groups:
                if sum(g) > mxs and len(g) != 1:
                    zero = sum(1 for s in g if s == 0)
                    st_failed.add(repr([sizes, mxs]))
                    ctx.fail("shard-limit:st:" + ("zero-size-companions" if zero == len(g) - 1 else "several"),
                             "a multi-tensor safetensors shard exceeds the limit", [sizes, mxs, groups])
    # safetensors dtype tables: the model's tables against the code's tables (exhaustive), the migration set
    # against the behaviour of _migrate_tensor_shape_dtype on every DataType member, and the binding's names /
    # header names / dtype order against one real file holding a tensor of every binding dtype
    import onnx_ir as ir

    tabs = lean_batch_parallel([{"m": "layout.st_tables"}])[0]
    impl_tabs = {
        "ir_to_name": [[k.value, v] for k, v in st._IR_DTYPE_TO_SAFETENSORS_DTYPE.items()],
        "st_to_ir": [[k, v.value] for k, v in st._SAFETENSORS_DTYPE_TO_IR_DTYPE.items()],
    }
    probe = ir.ExternalTensor("x.safetensors", 0, 1, ir.DataType.UINT8, shape=ir.Shape([1]), name="n", base_dir="")
    stream[0] = "_migrate_tensor_shape_dtype"
    mig = []
    for d in ir.DataType:
        r = _real(st._migrate_tensor_shape_dtype, types.SimpleNamespace(dtype=d, shape=ir.Shape([3])), probe)
        if _is_raised(r):
            mig = r
            break
        if r is not probe:
            mig.append(d.value)
    impl_tabs["migrated"] = mig if _is_raised(mig) else sorted(mig)
    tabs_cmp = dict(tabs, migrated=sorted(tabs.get("migrated", [])))
    for key in ("ir_to_name", "st_to_ir", "migrated"):
        ctx.case(["st-table", key], nontrivial=True, fn="st-table")
        if tabs_cmp.get(key) != impl_tabs[key]:
            ctx.disagree(f"safetensors table {key}: model != implementation", {"table": key}, tabs_cmp.get(key), impl_tabs[key])
    ctx.exhaustive_scopes.append("safetensors dtype tables: every entry of _IR_DTYPE_TO_SAFETENSORS_DTYPE and "
                                 "_SAFETENSORS_DTYPE_TO_IR_DTYPE, _migrate_tensor_shape_dtype on every DataType member, "
                                 "one real file with a tensor of every binding dtype (header names, dtype order)")
    try:
        import ctypes

        sfl = st._import_safetensors()
        names_tab = tabs.get("names", [])
        refs, tspecs = [], {}
        for pyname, _h, _rank, bits in names_tab:
            data = bytearray(b"\x00" * (8 if _h == "F4" else 8 * bits // 8))  # the binding doubles F4's last dimension
            view = (ctypes.c_char * len(data)).from_buffer(data)
            refs.append((data, view))
            tspecs[pyname] = sfl.TensorSpec(dtype=pyname, shape=[8], data_ptr=ctypes.addressof(view), data_len=len(data))
        with tempfile.TemporaryDirectory(prefix="c07-tab-", dir=_run_dir()) as td:
            sfl.serialize_file(tspecs, os.path.join(td, "t.safetensors"))
            raw = open(os.path.join(td, "t.safetensors"), "rb").read()
        _n, entries, _m = parse_safetensors(raw)
        got = [[e[0], e[1]] for e in entries]
        want = [[r[0], r[1]] for r in sorted(names_tab, key=lambda r: -r[2])]
        ctx.case(["st-table", "names"], nontrivial=True, fn="st-table")
        if got != want:
            ctx.disagree("safetensors binding names / header names / dtype order: model != library", {"table": "names"},
                         want, got)
        if set(st._IR_DTYPE_TO_SAFETENSORS_DTYPE.values()) - {r[0] for r in names_tab}:
            ctx.disagree("a dtype name the code hands to the binding is not in the model's table", {"table": "names"},
                         sorted(r[0] for r in names_tab), sorted(set(st._IR_DTYPE_TO_SAFETENSORS_DTYPE.values())))
    except Exception as e:  # noqa: BLE001
        ctx.disagree("safetensors table experiment failed", {"table": "names"}, None, f"{type(e).__name__}: {e}")
    # the container model on shards handed straight to the library (names with escapes / non-ASCII, every dtype,
    # empty shard): whole file image byte for byte
    weird = ["a", "b", "ab", "B", "\u00e9", "a b", 'q"q', "z\\z", "\x01", "", "a\u20ac", "\U0001F600", "w.0/x", "\t",
             "\x7f", "\n\r", "a\x1fb", "__x__", "0", "~"]
    dts = list(st._IR_DTYPE_TO_SAFETENSORS_DTYPE)
    st_reqs, st_impl, st_cases = [], [], []
    import ctypes

    sfl = st._import_safetensors()
    stream[0] = "st_file"
    with tempfile.TemporaryDirectory(prefix="c07-stf-", dir=_run_dir()) as td:
        for it in range(ctx.pick(150, 1500)):
            names = rng.sample(weird, rng.randrange(0, 7))
            tens, refs, tspecs = [], [], {}
            for nm in names:
                dt = rng.choice(dts)
                shape = rng.choice([[], [0], [1], [3], [2, 3], [5, 1, 2], [0, 4]])
                nb = (_prod(shape) * dt.bitwidth + 7) // 8
                data = bytearray(rng.randrange(256) for _ in range(nb))
                view = (ctypes.c_char * len(data)).from_buffer(data)
                refs.append((data, view))
                sshape = _real(st._get_tensor_storage_shape, types.SimpleNamespace(dtype=dt, nbytes=nb, shape=ir.Shape(shape)))
                tens.append({"name": nm, "dtype": dt.value, "shape": shape, "b": bytes(data).hex()})
                if _is_raised(sshape):
                    tspecs = sshape
                    break
                tspecs[nm] = sfl.TensorSpec(dtype=st._IR_DTYPE_TO_SAFETENSORS_DTYPE[dt], shape=sshape,
                                            data_ptr=ctypes.addressof(view), data_len=len(data))
            pth = os.path.join(td, f"{it}.safetensors")
            st_reqs.append({"m": "layout.st_file", "tensors": tens})
            st_cases.append([[t["name"], t["dtype"], t["shape"]] for t in tens])
            try:
                if _is_raised(tspecs):
                    raise RuntimeError(f"_get_tensor_storage_shape raised {tspecs[1]}")
                sfl.serialize_file(tspecs, pth)
                st_impl.append(open(pth, "rb").read().hex())
                os.remove(pth)
            except _Timeout:
                raise
            except Exception as e:  # noqa: BLE001 - e.g. a storage shape the library rejects
                st_impl.append(f"raised {type(e).__name__}: {e}"[:200])
    for case_, impl_, out_ in zip(st_cases, st_impl, lean_batch_parallel(st_reqs)):
        ctx.case(["st_file", case_, impl_[:64]], nontrivial=bool(case_), fn="st_file", st_file_tensors=len(case_))
        if out_.get("file") != impl_ or not out_.get("ok"):
            ctx.disagree("st_file: container model != library", {"fn": "st_file", "tensors": case_},
                         {k: _short(v) for k, v in out_.items()}, _short(impl_))
    # file names
    stems = ["a", "model", "m.v1", "m.fp16", ".hidden", "..", "a.", "a..b", "a.1", "a.b_c", "a.é", "a-b.data",
             "a.b.c.d", "x.safetensors", "m.v1.safetensors", "", "a.B9_", "a._b", "1.2.3"]
    dirs = ["", "d/", "/", "//", "d//", "d.e/", "a/b/", "./"]
    idxs = [(1, 1), (1, 2), (2, 2), (7, 12), (99999, 100000), (100000, 100000), (123456, 1234567)]
    for d, s, (i, t), sc in itertools.product(dirs, stems, idxs, [None, 1, 0, 2]):
        base = d + s
        stream[0] = "get_shard_filename"
        reqs.append({"m": "layout.filename", "base": base, "idx": i, "total": t, "sc": sc})
        impls.append(_real(sf.get_shard_filename, base, i, t, suffix_count=sc))
        cases.append(("filename", [base, i, t, sc]))
    for d, s0 in itertools.product(dirs + ["a//b///", "///a"], stems + ["a/", "a.b/", "x/y.z"]):
        pth = d + s0
        reqs.append({"m": "layout.split", "p": pth})
        impls.append(list(os.path.split(pth)))
        cases.append(("posixpath.split", [pth]))
        reqs.append({"m": "layout.splitext", "p": pth})
        impls.append(list(os.path.splitext(pth)))
        cases.append(("posixpath.splitext", [pth]))
    for n in [0, 1, 9, 10, 99, 100, 4095, 9999, 10000, 99999, 100000, 123456789] + [rng.randrange(0, 10**7) for _ in range(50)]:
        reqs.append({"m": "layout.pad5", "n": n})
        impls.append(f"{n:05d}")
        cases.append(("pad5", [n]))
    ctx.exhaustive_scopes.append(
        f"get_shard_filename over {len(dirs)} directory prefixes x {len(stems)} file names x {len(idxs)} (index,total) x 4 suffix counts")
    # injectivity oracle on the real function
    for d, s, sc in itertools.product(dirs, stems, [None, 1]):
        base = d + s
        for t in (2, 3, 12):
            names = [_real(sf.get_shard_filename, base, i, t, suffix_count=sc) for i in range(1, t + 1)]
            if any(_is_raised(nm) for nm in names):
                continue  # reported by the correspondence above
            if len(set(names)) != t:
                ctx.fail("shard-names:collision", "distinct shard indices give the same file name", [base, t, sc])
            if any(os.path.split(nm)[0] != os.path.split(base)[0] for nm in names):
                ctx.fail("shard-names:directory", "shard name leaves the directory of the base name", [base, t, sc, names[0]])
    outs = lean_batch_parallel(reqs)
    for (name, arg), impl, out in zip(cases, impls, outs):
        ctx.case([name, arg], nontrivial=True, fn=name)
        if out.get("r") != impl:
            if True:
                ctx.disagree(f"{name}: model != implementation", {"fn": name, "arg": arg}, out, impl)


# ------------------------------------------------------------------------------------------
# part B driver


def _compare(ctx: Ctx, results: list[dict]) -> None:
    reqs = [r for res in results for r in res["reqs"]]
    outs = lean_batch_parallel(reqs) if reqs else []
    pos = 0
    for res in results:
        case = res["case"]
        info = res["info"]
        n_ext = (info.get("kinds") or "").count("E")
        ctx.case(case, nontrivial=len(case["tensors"]) > 0,
                 sample={k: case[k] for k in ("backend", "thr", "al", "athr", "max", "workers", "dest", "ext")}
                 | {"tensors": [[s["kind"], s["dtype"], s["shape"]] for s in case["tensors"]][:6], "result": info},
                 backend=case["backend"], n_tensors=min(len(case["tensors"]), 8), thr=_bucket(case["thr"]),
                 al=case["al"], max=_bucket(case["max"]), workers=case["workers"], fail=case.get("fail"),
                 raised=info.get("raised"), ext_tensors=min(n_ext, 6), files=info.get("nfiles"),
                 shared_tensor=any(s.get("dup_of") is not None for s in case["tensors"]),
                 tensor_name=("unnamed" if any("tname" in s and s["tname"] is None for s in case["tensors"]) else
                              "differs" if any("tname" in s for s in case["tensors"]) else "same"),
                 nested=bool(case.get("nested")), sched=case.get("sched") is not None,
                 inflight=_bucket(case.get("inflight")), callback=bool(case.get("callback")),
                 chunk=case.get("chunk"), bare=bool(case.get("bare")),
                 grid=case.get("grid"), athr=_bucket(case.get("athr")) if case.get("al") else None,
                 hyp_st_names_ok=info.get("hyp_names"), hyp_st_dtypes_ok=info.get("hyp_dtypes"),
                 st_complex128_inline=info.get("c128_inline"),
                 ext_path=("unnormalised" if case.get("ext") and os.path.normpath(case["ext"]) != case["ext"] else "normal"),
                 max_nbytes=_bucket(max([len(expected_bytes(s)) for s in case["tensors"] if s["kind"] != "str"] or [0])))
        for key_ in ("aligned_small_nonfirst", "dense_under_athr_nonfirst"):
            if info.get(key_):
                ctx.count(f"C07_aligned:{key_}", info[key_])
                if case.get("grid") == "align-threshold":
                    ctx.count(f"C07_aligned:{key_}:grid-athr{case['athr']}", info[key_])
        for s in case["tensors"]:
            ctx.count(f"tensor_kind={s['kind']}")
            ctx.count(f"dtype={s['dtype']}")
        for f in res["fails"]:
            ctx.fail(f["signature"], f["what"], f["case"])
        known_only = bool(res["fails"]) and all(
            any(k["property"] == ctx.prop and re.fullmatch(k["signature"], f["signature"]) for k in ctx._known)
            for f in res["fails"])
        for req, impl, what in zip(res["reqs"], res["impl"], res["what"]):
            out = outs[pos]
            pos += 1
            if what == "save":
                # the model works on the path as given; the code records os.path.normpath(location)
                out = dict(out)
                for key in ("consts", "files"):
                    if key in out:
                        out[key] = [[os.path.normpath(x[0]), *x[1:]] if isinstance(x, list) else x for x in out[key]]
            bad = [k for k in impl if out.get(k) != impl[k]]
            if (bad or "err" in out) and known_only and what != "harness":
                # the model describes the fixed code: on an input whose only oracle failures are recorded known
                # findings the difference is that finding (printed as KNOWN-FINDING), nothing else is dropped
                ctx.count("disagreements_explained_by_known_finding")
            elif bad or "err" in out:
                ctx.disagree(f"{what}: model != implementation on {bad or out.get('err')}", case,
                             {k: _short(out.get(k)) for k in (bad or ["err"])}, {k: _short(impl[k]) for k in bad})


def _has_zero_then_big(arg) -> bool:
    sizes, mx = arg
    return 0 in sizes and any(z > mx for z in sizes)


def _short(x):
    s = repr(x)
    return s if len(s) < 1500 else s[:1500] + "..."


def _bucket(x):
    if x is None:
        return None
    if x < 0:
        return "<0"
    for b in (0, 1, 256, 4096, 65536, 10**6):
        if x <= b:
            return f"<={b}"
    return "huge"


def grid_cases() -> list[dict]:
    """The deterministic parameter grid of DESIGN 5/C07 (no randomness)."""
    cases = []
    base_specs = [
        ("mem", "FLOAT", [64]), ("lazy", "INT8", [5]), ("packed", "INT4", [7, 9]), ("proto", "DOUBLE", [33, 3]),
        ("ext_same", "UINT16", [64]), ("ext_other", "FLOAT16", [2, 3]), ("mem", "FLOAT", [0]), ("mem", "UINT4", [5]),
        ("proto_typed", "INT64", [3]), ("mem", "BOOL", [1, 1, 1, 1, 7]),
    ]
    for thr, al, mx, workers, backend, (dest, ext) in itertools.product(
        [0, 1, 255, 256, 10**9], [None, 1, 4096, 65536], [None, 1, 100, 792, 1 << 40], [None, 1, 4], ["raw", "st"],
        [DESTS[0], DESTS[1], DESTS[3]],
    ):
        if backend == "st" and (al is not None or workers is not None):
            continue
        specs = []
        for i, (k, d, sh) in enumerate(base_specs):
            s = {"kind": k, "dtype": d, "shape": sh, "seed": 100 + i, "name": f"t{i}", "graph": [0, 0, 1, 0, 0, 2, 0, 1, 0, 0][i]}
            if k == "ext_same":
                s["loc"] = ext if backend == "raw" and mx is None else "prev.bin"
            if k == "ext_other":
                s["loc"] = "other.bin"
            specs.append(s)
        fix_external_sources(specs)
        athr = 16 if al else 0
        c = {"backend": backend, "tensors": specs, "thr": thr, "al": al, "athr": athr, "max": mx, "workers": workers,
             "dest": dest, "ext": ext if backend == "raw" else None, "callback": True, "subgraphs": True}
        if workers and workers > 1:
            c["sched"] = [3, 1, 0, 2, 7, 5, 6, 4, 9, 8, 15, 11, 13, 10, 12, 14]
        cases.append(c)
    # align_threshold in {0, 1} with alignment set (0 = "align every external tensor"; seeded change C07-q2 swallowed the
    # 0 with `align_threshold or DEFAULT`): small tensors that are NOT the first of their data file, single file and
    # sharded (a 5000-byte limit puts two 4096-aligned small tensors into a shard), serial and concurrent.  The layout
    # oracle evaluates both clauses of C07_aligned on every recorded range (multiple of the factor with less than one
    # factor of padding when nbytes > align_threshold, dense otherwise) and the layout model runs on each.
    small = [("mem", "FLOAT", [64]), ("mem", "UINT8", [1]), ("lazy", "INT8", [5]), ("mem", "UINT8", [2]),
             ("packed", "INT4", [7, 9]), ("proto", "UINT8", [1]), ("mem", "BOOL", [3])]
    for al, athr, mx, workers in itertools.product([1, 4096, 8192], [0, 1], [None, 5000, 1 << 40], [None, 4]):
        specs = [{"kind": k, "dtype": d, "shape": sh, "seed": 300 + i, "name": f"t{i}", "graph": [0, 0, 1, 0, 2, 0, 0][i]}
                 for i, (k, d, sh) in enumerate(small)]
        c = {"backend": "raw", "tensors": specs, "thr": 0, "al": al, "athr": athr, "max": mx, "workers": workers,
             "dest": "model.onnx", "ext": "model.data", "callback": False, "subgraphs": True, "grid": "align-threshold"}
        if workers and workers > 1:
            c["sched"] = [3, 1, 0, 2, 7, 5, 6, 4, 9, 8, 15, 11, 13, 10, 12, 14]
        cases.append(c)
    return cases


def run(ctx: Ctx) -> None:
    ctx.rule = (
        "part A: one case per (function, arguments); part B: one case per whole save (tensor kinds/dtypes/shapes, "
        "threshold, alignment, shard limit, workers, backend, destination naming, injected failure); non-trivial = "
        "at least one initializer; distinct by the canonical case"
    )
    import logging
    import shutil

    logging.getLogger("onnx_ir").setLevel(logging.ERROR)
    _clean_stale_run_dirs()
    _run_dir()  # created before the workers fork so that they all share it
    try:
        _run(ctx)
    finally:
        shutil.rmtree(_run_dir(), ignore_errors=True)
        _RUN_DIR.clear()


def _run(ctx: Ctx) -> None:
    # corpus first
    corpus = [c["case"] if "case" in c and "tensors" in c.get("case", {}) else c for c in load_corpus("C07")]
    deep_corpus = [c.get("case", c) for c in load_corpus("C07")]
    deep_corpus = [c for c in deep_corpus if isinstance(c, dict) and c.get("family") in ("debug", "seq", "async")]
    if deep_corpus:
        _compare_deep(ctx, run_deep_chunk([{k: v for k, v in c.items() if k != "ops_done"} for c in deep_corpus]))
    corpus = [c for c in corpus if isinstance(c, dict) and "tensors" in c]
    if corpus:
        _compare(ctx, run_chunk(corpus))
        ctx.count("corpus_cases", len(corpus))
    part_a(ctx)
    cases = grid_cases()
    if ctx.quick:
        # the 64 KiB-aligned part of the grid writes large sparse files: one destination naming only
        cases = [c for c in cases if c["al"] != 65536 or c["dest"] == DESTS[0][0]]
        ctx.exhaustive_scopes.append("parameter grid of DESIGN 5/C07: 5 thresholds x 4 alignments x 5 shard limits x 3 "
                                     "worker counts x 2 backends x 3 destination namings over the 10-kind model "
                                     "(quick tier: alignment 65536 with the first destination naming only)")
    else:
        ctx.exhaustive_scopes.append("parameter grid of DESIGN 5/C07: 5 thresholds x 4 alignments x 5 shard limits x 3 "
                                     "worker counts x 2 backends x 3 destination namings over the 10-kind model")
    ctx.exhaustive_scopes.append("align_threshold grid: alignment {1, 4096, 8192} x align_threshold {0, 1} x shard limit "
                                 "{None, 5000, 2^40} x workers {None, 4} over 7 small tensors (1 to 256 bytes, none of them "
                                 "first-only), threshold 0: both clauses of C07_aligned evaluated on every recorded range")
    nrand = ctx.pick(1200, 20000)
    for _ in range(nrand):
        backend = "raw" if ctx.rng.random() < 0.7 else "st"
        cases.append(gen_case(ctx.rng, backend))
    for _ in range(ctx.pick(400, 4000)):
        backend = "raw" if ctx.rng.random() < 0.7 else "st"
        cases.append(gen_fail_case(ctx.rng, backend))
    for c in cases:
        if c.get("preexisting_probe"):
            c["preexisting"] = _probe_shard_names(c)
    chunks = [cases[i::32] for i in range(32)]
    results = [r for part in pmap(run_chunk, [ch for ch in chunks if ch]) for r in part]
    _compare(ctx, results)
    # deepening round: restore loop through the setter (DEBUG mode, duck-typed tensors) and call sequences
    deep = [gen_debug_case(ctx.rng) for _ in range(ctx.pick(160, 1600))] + \
           [gen_seq_case(ctx.rng) for _ in range(ctx.pick(320, 3200))] + \
           [gen_async_case(ctx.rng) for _ in range(ctx.pick(240, 2400))]
    dchunks = [deep[i::32] for i in range(32)]
    _compare_deep(ctx, [r for part in pmap(run_deep_chunk, [ch for ch in dchunks if ch]) for r in part])


def _probe_shard_names(case: dict) -> list[str]:
    """Files that certainly collide with the destinations of a sharded save (shard 1 of n for every
    plausible n; only used to set up the FileExistsError scenario)."""
    from onnx_ir import _shard_filename as sf

    names = [_real(sf.get_shard_filename, case["ext"], 1, n) for n in range(1, len(case["tensors"]) + 2)]
    return [n for n in names if isinstance(n, str)]


def replay(ctx: Ctx, obj: dict) -> None:
    case = obj.get("case", obj)
    if isinstance(case, dict) and case.get("family") in ("debug", "seq", "async"):
        import shutil

        try:
            _compare_deep(ctx, run_deep_chunk([{k: v for k, v in case.items() if k != "ops_done"}]))
        finally:
            shutil.rmtree(_run_dir(), ignore_errors=True)
            _RUN_DIR.clear()
    elif isinstance(case, dict) and "tensors" in case:
        case = {k: v for k, v in case.items() if k in (
            "backend", "tensors", "thr", "al", "athr", "max", "workers", "dest", "ext", "callback", "subgraphs",
            "sched", "inflight", "fail", "preexisting", "preexisting_probe", "nested", "bare", "chunk", "grid")}
        import shutil

        try:
            _compare(ctx, run_chunk([case]))
        finally:
            shutil.rmtree(_run_dir(), ignore_errors=True)
            _RUN_DIR.clear()
    else:
        part_a(ctx)

"""C13 — clones are faithful and fully independent of their originals (DESIGN.md section 5, C13).

Correspondence.  A random IR (model / graph / nested subgraph / function / graph view; nested
subgraphs, captured outer values, shared values, shared type and shape objects, device annotations,
metadata, unsorted node lists) is built with the real `onnx_ir`, *abstracted* to the heap of the Lean
model `IrVerif.Clone` (one cell per Python object that is shared by reference: values, nodes, graphs,
type objects, shape objects, metadata containers, attribute objects), cloned by the real code
(`Model.clone`, `Graph.clone`, `GraphView.clone`, `Function.clone`, `passes.functionalize`) and by the
model (driver command `clone.run`), then both heaps are compared up to renaming of identities
(`canon`).  After that, edit histories (names, `dtype=`, `type=`, `type.denotation=`, `shape=`,
`shape[i]=`, dimension denotations, `const_value=`, doc strings, `metadata_props[...]=`, `meta[...]=`,
`meta.invalidate`, `replace_input_with`, node names / op types, attribute sets, graph names, opset
imports, node removal / insertion, graph outputs; the extended alphabets: graph inputs, the initializer
mapping incl. pop / clear / update, sort incl. graphs with subgraphs, insert_before/after, extend,
remove(safe=True), replace_all_uses_with, slices of graph.inputs / outputs, resize_inputs/outputs,
model.functions, convenience.replace_all_uses_with / rename_values / replace_nodes_and_values) are applied
to either copy by both and the heaps compared again.  The model's final value map is compared with the real
`Cloner._value_map`; the scope walker's verdict (graph / function / model) with the real outcome;
`functionalize(Sequential / PassManager pipelines)` with the model's `functionalizeAny`.

Round 4: the final value map of EVERY cloner of `Function.clone` / `Model.clone` is compared with the model's
(`funcCloneCore`, `modelCloneTrace`) and the wiring image of functions and models is evaluated on the real objects;
`functionalize` pipelines whose passes (and the pipeline object) override `requires()` / `ensures()` with hooks that edit and
raise, with `modified` flags and `early_stop` (`functionalizeHooks`); the two shapes for which the scope walker answers
`irregular` (`gen_spec_irregular`); the fourth editing alphabet (item-level calls and extended slices on graph inputs /
outputs, `initializers.setdefault`, multi-node `replace_nodes_and_values`); and, on its own stream (harness/c13_meta.py),
`clone(deep_copy=True/False)` of IRs whose `meta` stores hold nested / cyclic / aliased lists and dicts, against the
refinement `IrVerif.Clone.Meta`, followed by in-place edit histories of those objects.

Every call of the real code of a case runs under a CPU-time guard (`cpu_guarded`): a case that does not end
is reported as `nontermination:*` instead of hanging the check.

Oracle (independent of the model, on the real objects): serialized protos of clone and original are
equal; the identity sets (graphs, nodes, values, shapes, types, metadata containers) are disjoint;
every reference inside the clone points into the clone, except captured outer values when allowed
(and the clone raises when not allowed); after every edit history on one copy a deep snapshot and the
serialized proto of the other copy are unchanged; `functionalize(pass)` leaves its input unchanged.
"""
from __future__ import annotations

import copy
import json

import numpy as np

from harness.common import Ctx, Part, canon_hash, lean_batch_parallel, load_corpus, pmap

THEOREMS = [
    "IrVerif.Clone.C13_fresh",
    "IrVerif.Clone.C13_fresh_function",
    "IrVerif.Clone.C13_fresh_model",
    "IrVerif.Clone.C13_closed",
    "IrVerif.Clone.C13_closed_model",
    "IrVerif.Clone.C13_closed_outer",
    "IrVerif.Clone.C13_raises_iff_inputs",
    "IrVerif.Clone.C13_clone_pure",
    "IrVerif.Clone.C13_clone_pure_model",
    "IrVerif.Clone.C13_failed_clone_no_residue",
    "IrVerif.Clone.C13_frame",
    "IrVerif.Clone.C13_frame_weak",
    "IrVerif.Clone.C13_frame_clone_edited",
    "IrVerif.Clone.C13_frame_clone_edited_outer",
    "IrVerif.Clone.C13_frame_function",
    "IrVerif.Clone.C13_functionalize",
    "IrVerif.Clone.C13_frame_orig_edited",
    "IrVerif.Clone.C13_frame_orig_edited_model",
    "IrVerif.Clone.C13_faithful",
    "IrVerif.Clone.C13_faithful_function",
    "IrVerif.Clone.C13_faithful_model",
    "IrVerif.Clone.C13_faithful_observe",
    "IrVerif.Clone.C13_frame_ext",
    "IrVerif.Clone.C13_frame_clone_edited_ext",
    "IrVerif.Clone.C13_frame_function_ext",
    "IrVerif.Clone.C13_functionalize_ext",
    "IrVerif.Clone.C13_frame_orig_edited_ext",
    "IrVerif.Clone.C13_frame_orig_edited_model_ext",
    "IrVerif.Clone.C13_frame_orig_edited_function_ext",
    "IrVerif.Clone.C13_closed_sharding",
    "IrVerif.Clone.C13_closed_sharding_model",
    "IrVerif.Clone.C13_clone_succeeds",
    "IrVerif.Clone.C13_clone_error_exact",
    "IrVerif.Clone.C13_clone_raises_iff",
    "IrVerif.Clone.C13_value_map_bijection",
    "IrVerif.Clone.C13_function_clone_succeeds",
    "IrVerif.Clone.C13_function_clone_raises_iff",
    "IrVerif.Clone.C13_closed_sharding_any",
    "IrVerif.Clone.C13_closed_sharding_any_model",
    "IrVerif.Clone.C13_wiring_image",
    "IrVerif.Clone.C13_wiring_refs_exact",
    "IrVerif.Clone.C13_faithful_of_wiring",
    "IrVerif.Clone.C13_faithful_observe_wiring",
    "IrVerif.Clone.C13_model_clone_succeeds",
    "IrVerif.Clone.C13_model_clone_raises_iff",
    "IrVerif.Clone.C13_spec_unbound_D342",
    "IrVerif.Clone.C13_functionalize_any",
    "IrVerif.Clone.C13_frame_ext3",
    "IrVerif.Clone.C13_frame_clone_edited_ext3",
    "IrVerif.Clone.C13_functionalize_ext3",
    "IrVerif.Clone.C13_frame_orig_edited_ext3",
    "IrVerif.Clone.C13_frame_orig_edited_model_ext3",
    "IrVerif.Clone.C13_wiring_image_function",
    "IrVerif.Clone.C13_wiring_image_model",
    "IrVerif.Clone.C13_model_function_keys",
    "IrVerif.Clone.C13_faithful_function_of_wiring",
    "IrVerif.Clone.C13_faithful_model_of_wiring",
    "IrVerif.Clone.C13_functionalize_hooks",
    "IrVerif.Clone.C13_irregular_reasons",
    "IrVerif.Clone.C13_irregular_reasons_function",
    "IrVerif.Clone.C13_irregular_reasons_model",
    "IrVerif.Clone.C13_irregular_reachable",
    "IrVerif.Clone.C13_deep_copy_meta_fresh",
    "IrVerif.Clone.C13_deep_copy_meta_fresh_all",
    "IrVerif.Clone.C13_deep_copy_meta_frame",
    "IrVerif.Clone.C13_deep_copy_meta_frame_reach",
    "IrVerif.Clone.C13_deep_copy_meta_frame_all",
    "IrVerif.Clone.C13_deep_copy_meta_faithful",
    "IrVerif.Clone.C13_shallow_meta_shared",
    "IrVerif.Clone.C13_frame_ext4",
    "IrVerif.Clone.C13_frame_clone_edited_ext4",
    "IrVerif.Clone.C13_functionalize_ext4",
    "IrVerif.Clone.C13_frame_orig_edited_ext4",
    "IrVerif.Clone.C13_frame_orig_edited_model_ext4",
    "IrVerif.Clone.C13_meta_embed",
    "IrVerif.Clone.C13_meta_refines_step",
    "IrVerif.Clone.C13_meta_refines",
    "IrVerif.Clone.C13_deep_copy_meta_fresh_main",
]
ASSUMPTIONS = [
    "hand-written model IrVerif.Clone of _cloner.py / the clone entry points / the constructors they call; tied to the "
    "code by this correspondence check (reach = the generators; distribution in the evidence)",
    "metadata containers are modelled as allocated together with their owner (Python creates them lazily); the model "
    "allocates every new cell in its final form (outputs, then the node, then producer links; the graph cell, then the "
    "ownership checks) where Python creates the object first and fills it in: no error point lies between and the "
    "intermediate states are not observable (heaps are compared up to renaming after every step, also after raising steps)",
    "a type object is one cell (wrapper chain flattened): sharing of an inner type object between two outer type objects "
    "is not expressible in the model (the oracle still covers it on the real objects); opset_imports dicts are by value",
    "meta values are opaque atoms in the heap model IrVerif.Clone (deep_copy=True is the same function there); what "
    "deep_copy means is modelled by the additive refinement IrVerif.Clone.Meta (Model/CloneMeta.lean): the values of a meta "
    "store are references into a heap of mutable Python containers - list and dict (string keys) cells, immutable leaves as "
    "atoms (type name + repr); tuples, sets and objects with __deepcopy__ / __reduce_ex__ are neither modelled nor generated; "
    "copy.deepcopy is transcribed from CPython copy.py (memo lookup, allocate + memoize, fill; ONE memo per call, i.e. per "
    "key: aliasing between two keys / two stores is not preserved by a deep clone, aliasing and cycles inside one value "
    "are); intermediate heaps of one deepcopy call are not modelled (no user code runs during it), allocation order is "
    "abstracted by first-visit renumbering on both sides, fuel = call depth (64 in the check); compared with the real "
    "clone(deep_copy=True/False) of graphs / subgraphs / views / functions / models on a separate stream (harness/c13_meta.py, "
    "driver op clonemeta.run) incl. random in-place edit histories of the stored objects; C13_deep_copy_meta_faithful assumes "
    "no dangling reference (heapClosedB, storeOkB: evaluated on every case, all true); Attr.meta and Model.meta are outside "
    "(Model.clone does not copy Model.meta: counted as observation=model-meta-not-cloned)",
    "DECISION deep_copy=False (the default; also what functionalize uses): the statement demands new metadata CONTAINERS - "
    "the MetadataStore / metadata_props dict of the clone are new objects (C13_fresh) and meta[k]=x / del / invalidate on "
    "one copy never show in the other (C13_frame) - not new CONTENTS: the stored objects are shared by design like tensors "
    "(C13_shallow_meta_shared with a witness that an in-place edit through one store is visible through the other); the "
    "oracle counts it as observation=meta-shared:* (also for functionalize), never as a failure",
    "C13_wiring_image_function / _model: hypothesis = funcVerdict / modelVerdict accepts; Function.clone's cloner state is "
    "funcCloneCore's final state (funcClone = withFreshMap funcCloneCore by rfl); for Model.clone the driver replays the "
    "steps with modelCloneTrace (one value map per cloner) and checks on every request that clone and heap are those of "
    "modelClone; every map is compared with the REAL Cloner._value_map of that cloner (1 + #functions cloners, captured by "
    "wrapping Cloner.__init__) and an independent oracle evaluates FuncWire / ModelWire on the real objects (header fields, "
    "opset imports, metadata_props equal and a new dict, device configurations equal, function keys and order, pairwise "
    "disjoint value maps); ModelWire states equality of metadata_props CONTENT and that the clone's meta is empty",
    "C13_functionalize_hooks: a hook (requires / ensures of a pass or of the pipeline object) is modelled as a function from "
    "(model it is handed, heap) to a history of the 44 calls of Edit2 plus a flag 'raises' (any exception becomes "
    "PreconditionError / PostconditionError; what the hook did before raising stays); modified flags are functions of (model, "
    "heap); the generated pipelines override the hooks of every stage and (half of the time) of the Sequential / PassManager "
    "object, spread the edit history over requires / call / ensures of every call of every round, raise in one chosen hook, "
    "report modified=True in the first mod_rounds rounds only and run PassManager with early_stop; the driver glues the rounds "
    "(one pass list per round since the histories differ per call) from the model's own runStagesH / runHook / callChecked "
    "exactly as runRoundsH does and checks the answer against functionalizeHooks whenever one pass list suffices; compared: "
    "outcome (ok / PreconditionError / PostconditionError), number of rounds, heap - also after a raising pipeline; the hooks "
    "of _FunctionalPassWrapper itself are the no-op defaults of a private class",
    "C13_irregular_reasons: the walker answers irregular only for (1) a dangling pointer - impossible when closedW (every "
    "pointer field of every cell names a cell; evaluated on every abstracted heap, all true), (2) a node output already "
    "bound, (3) initializer names not pairwise different; (2) and (3) are reachable with the public API (a GraphView listing "
    "an output of one of its own nodes among its inputs; a GraphView whose initializer keys went stale after a rename) and "
    "are GENERATED (gen_spec_irregular, 2% of the cases): outcome, heap and value map of the model are compared with the "
    "real clone there too (the model's map is a list with the latest binding first where Python overwrites the dict entry), "
    "the wiring oracle is off, and the consequences are counted as observation=irregular-shape:* / observation=D346:* "
    "(finding D346, proposed_fixes/D346.diff, not applied: the clone of a stale-key view silently loses an initializer)",
    "tensors, attribute payloads and device-configuration payloads are opaque shared ids; in-place mutation of a shared "
    "Attr object (Attr.name=, Attr.doc_string=) or of a shared tensor (its .name follows Value.name=) is outside the edit "
    "alphabet: the property allows tensors to be shared and the cloner shares non-graph attributes",
    "inliner-only Cloner parameters (attr_map, resolve_ref_attrs, metadata_props, post_process, None map entries) are "
    "fixed to what the clone entry points pass",
    "values named None (Graph.__init__ invents names, property C15) are outside the model (answer 'unsupported'); "
    "nodes named None are modelled (clone_graph keeps them anonymous since the fix of D111)",
    "frame theorems quantify over the edit alphabets IrVerif.Clone.Edit (31 editing calls), IrVerif.Clone.Edit2 (those "
    "plus graph.inputs.append/pop, initializers[k]=v, del initializers[k], register_initializer, sort, insert_before/after, "
    "replace_all_uses_with, resize_inputs/outputs, model.functions[id]=f, del model.functions[id]: 44 calls) and "
    "IrVerif.Clone.Edit3 (those plus sort on graphs with subgraphs, graph.inputs[a:b]=vs, graph.outputs[a:b]=vs, "
    "initializers.pop/clear/update, Graph.extend, Graph.remove(safe=True), convenience.replace_all_uses_with with several "
    "pairs, convenience.rename_values, convenience.replace_nodes_and_values for one node replaced by a freshly built one: "
    "55 calls) with receivers and arguments outside the protected region; the *_ext / *_ext3 theorems need the extended "
    "separation (users of a value, outputs of a node, inputs and initializers of a graph do not lead into the protected "
    "region), which holds for allow_outer_scope_values=False clones (proved) and fails by design for allow=True "
    "(outer.replace_all_uses_with(..) on the original rewires the clone's nodes that consume the captured value)",
    "IrVerif.Clone.Edit4 (Model/Clone4.lean) = the 55 calls of Edit3 + 17: graph.inputs / graph.outputs .insert(i, v), "
    ".remove(v), del lst[i], lst[i] = v, .extend(vs), .clear() with any index incl. negative (12); "
    "graph.initializers.setdefault(k, v) (1); lst[a:b:s] = vs and del lst[a:b:s] on inputs and outputs with any, omitted or "
    "negative bounds and any step incl. the zero-step and extended-slice size errors (4): 72 calls; "
    "convenience.replace_nodes_and_values generalised to several old nodes and several freshly built new nodes that may feed "
    "each other; C13_frame_ext4 / _clone_edited_ext4 / _functionalize_ext4 / _orig_edited_ext4 / _orig_edited_model_ext4 "
    "quantify over all histories of these calls (strict separation: allow=False clones); still oracle-only or not modelled: any "
    "editing call on a GraphView (model: unsupported), inputs/outputs.pop(i) with an index, inherited UserList.reverse / "
    "sort and UserDict.popitem as direct calls, insert_before / insert_after / replace_nodes_and_values with new nodes that "
    "already sit in a graph, nodes or outputs without names (name authority), staged pipelines (functionalizeAny / "
    "functionalizeHooks stay over Edit2), attrMetaSet; a library `assert` tripped by an edit counts as 'raised' (the model "
    "answers unsupported there: counted, not a disagreement)",
    "Graph.sort: for graphs whose nodes hold no subgraph attribute the model runs its own transcription of the stable "
    "Kahn sort (Edit2.sort); for graphs with subgraphs (Edit3.sortDeep) it builds the tree of the nest from the heap and "
    "calls property C12's Sort.sortModel read-only (C12 owns the algorithm), re-linking every graph of the nest; the "
    "graphs of the nest are named among the call's arguments (they are the cells it writes: the frame hypothesis 'arguments "
    "outside the protected region' covers them; for a clone they are new by C13_fresh); both are compared with the real "
    "order on every generated sort; a Graph object reachable twice in the nest is answered 'unsupported'; a detached "
    "former node output has _index == -1 in Python and index none in the model (the abstraction maps -1 to none)",
    "C13_wiring_image: hypothesis = the walker accepts (cloneVerdict = ok, as for C13_value_map_bijection); GraphWire is "
    "stated in the heap after cloning through the cloner's FINAL value map; the model's final value map (driver op "
    "clone.vmap) is compared on every successful graph / subgraph / view clone with the REAL Cloner._value_map (captured "
    "by wrapping Cloner.__init__ during the call) up to the renaming that relates the two heaps, and an independent "
    "oracle (check_wiring) evaluates the wiring image on the real objects with the real map; with "
    "allow_outer_scope_values=True a reference may be passed through although a LATER binding exists (RefImg's second "
    "disjunct: D342 for sharding specs, and a value that is captured before a sibling subgraph binds it)",
    "C13_model_clone_succeeds / _raises_iff: hypothesis = modelVerdict (cloneVerdict of the main graph, then funcVerdict of "
    "every function, all on the SOURCE heap), compared with the real Model.clone / functionalize outcome and with the "
    "model's on every generated model target; 'irregular' carries no claim (when it is answered: C13_irregular_reasons)",
    "C13_functionalize_any: a stage of a pipeline is a function from the model it is handed to a history of the 44 calls "
    "of Edit2, optionally followed by building a new ir.Model around the SAME graph / functions / device configurations "
    "(metadata_props copied into a new dict); PassManager(steps=k, early_stop=False) is the k-fold repetition of its "
    "stages (a stage that reports modified=False with early_stop=True ends the loop earlier: a prefix, covered by the "
    "quantification over all stage lists); requires()/ensures() hooks and early_stop: C13_functionalize_hooks; the generated "
    "pipelines are Sequential / PassManager of in-place stages, functional 'stamp' stages and destructive stages with the "
    "flags their base classes declare; the oracle compares a deep snapshot and the serialized proto of the input model "
    "(and of every other pre-existing root) before / after, and again after editing the returned model",
    "C13_spec_unbound_D342 is about clone_node's remap / check for ONE spec at the value map of that moment; that the value "
    "map does not bind the outputs of later nodes yet is how cloneNode runs (compared with the real outcome and heap on "
    "the generated later-spec cases, counted as observation=D342:*)",
    "C13_clone_succeeds / C13_clone_raises_iff / C13_clone_error_exact / C13_value_map_bijection: the hypothesis is the "
    "verdict of the scope walker IrVerif.Clone.cloneVerdict on the SOURCE heap (a decidable traversal with four lists as "
    "state); it is evaluated on every generated graph / subgraph / view clone and compared with the outcome of the real "
    "clone and of the model's clone (message included); 'irregular' verdicts (dangling pointer, node output already bound, "
    "initializer names not distinct) carry no claim and their share is published; Function.clone has its own verdict "
    "(funcVerdict: body + graph-valued attribute defaults under one value map, C13_function_clone_*), and so has Model.clone "
    "(modelVerdict, C13_model_clone_*: every function is cloned on the heap the previous clones left, which extends the "
    "source heap, and the walker's verdict is stable under heap extension unless it is 'irregular')",
    "C13_closed_sharding (specs stay local to the cloned node) assumes devLocalW (every sharding spec targets an input or "
    "output of its own node), evaluated on every abstracted heap (share published; false for the generated non-local "
    "specs); C13_closed_sharding_any needs no such hypothesis for allow_outer_scope_values=False: since the fixes of D340 / "
    "D341 a spec on another value follows the cloner's value map and a spec on a value outside the cloned region raises; "
    "the model raises before allocating the node cell where Python raises after creating the node object (the abandoned "
    "node is garbage in both; with allow=False it consumes no pre-existing value); a spec on a value that a LATER node of "
    "the cloned region defines IS generated (LATER_SPEC_P, gen_spec_later_spec, shuffled graphs with non-local specs): it "
    "is not in the value map yet when its node is cloned, so allow=False raises and allow=True keeps the spec on the "
    "original's value - finding D342 (reported, not applied): the model is what the code is (C13_spec_unbound_D342), the "
    "oracle counts both consequences as observation=D342:* and never as a failure",
    "the frame theorems assume the heap before cloning has no dangling pointers and every const_value is a tensor "
    "object (wellFormed), C13_failed_clone_no_residue that usage records name existing cells (usesBounded); both are "
    "checked on every abstracted real heap by the driver",
    "tensor objects are shared between clone and original by design: the frame theorems protect every pre-existing "
    "cell EXCEPT the tensor cells (Protected); Value.name= writes through to the shared tensor's name (known finding "
    "D113); a graph-free Attr object is shared too and its in-place state (meta) is outside the model (oracle-only "
    "edit attrMetaSet, known finding D114)",
    "C13_faithful* relate values by observation (VInfo), references by 'same reference or equally observed value'; the "
    "identity-level statements are C13_value_map_bijection (keys = the region's values once each, injective, onto the value "
    "cells the clone created) and C13_wiring_image (the clone's wiring is the image of the source's under that map; "
    "C13_faithful_of_wiring derives the observational simulation and the equality of serGraph from it)",
    "node-input closedness: allow_outer_scope_values=False -> every input is a value of the clone (C13_closed); "
    "True -> every input is a value of the clone or a pre-existing value not defined at the top level of the graph "
    "being cloned, for the root and for every nested clone_graph call (C13_closed_outer / cloneGraph_cov); a value "
    "defined only inside a sibling or deeper subgraph and used outside its scope (ill-scoped IR) is not excluded",
    "the model follows the fixed cloner (D32 type copy, D33 pending-outputs check, D111 anonymous nodes, D112 detach "
    "of the nodes of an abandoned clone): heaps are compared in full also after a raising clone",
    "serGraph (C13_faithful_observe) is this check's own observation function, NOT the serde model of C02/C03 and not "
    "compared with serde field by field; graph/view level only; where it is undefined on a heap serde accepts, an "
    "inconsistent container must explain it (else disagreement); where serde raises on a heap it is defined on, the "
    "exception class is reported",
]

import onnx_ir as ir  # noqa: E402

# --------------------------------------------------------------------------- building real IR from a spec

_DTYPES = [1, 7, 6, 10, 9, 11]  # FLOAT INT64 INT32 FLOAT16 BOOL DOUBLE
# probability that a node with device configurations gets a sharding spec on a value that is NOT one of its inputs /
# outputs (findings D340 / D341, fixed: such a spec follows the cloner's value map, and a spec on a value outside the
# cloned region makes clone(allow_outer_scope_values=False) raise).  The oracle signatures
# `closed:sharding:own-value-of-original:*` and `closed:sharding:outer-value:*` are the live regression checks.
NONLOCAL_SPEC_P = float(__import__("os").environ.get("C13_NONLOCAL_SPEC_P", "0.2") or 0)
# probability that a generated graph with device configurations gets a sharding spec on the output of a LATER node
# (finding D342, reported and not applied: the model is what the code is, `C13_spec_unbound_D342`; the oracle counts the
# consequences as `observation=D342:*`, never as a failure); the same switch lets shuffled graphs carry non-local specs
# share of the generated edits drawn from the third alphabet (Edit3)
EDIT3_P = float(__import__("os").environ.get("C13_EDIT3_P", "0.2") or 0)
EDIT3_KINDS = {"setInputsSlice", "setOutputsSlice", "popInit", "clearInits", "updateInits", "extendNodes", "removeSafe",
               "rauwMulti", "renameValues", "replaceNode"}
LATER_SPEC_P = float(__import__("os").environ.get("C13_LATER_SPEC_P", "0.06") or 0)


def build_type(t):
    """t = {"wrap": [[2|3, denot]...], "leaf": 0|1, "dtype": n, "denot": s}"""
    if t is None:
        return None
    leaf_cls = ir.TensorType if t["leaf"] == 0 else ir.SparseTensorType
    ty = leaf_cls(ir.DataType(t["dtype"]), denotation=t.get("denot"))
    for k, dn in reversed(t["wrap"]):
        ty = (ir.SequenceType if k == 2 else ir.OptionalType)(ty, denotation=dn)
    return ty


def build_shape(s):
    if s is None:
        return None
    return ir.Shape(s["dims"], denotations=s["denots"], frozen=s.get("frozen", False))


class Built:
    """Real objects built from a spec, plus the pools shared objects are drawn from."""

    def __init__(self, spec):
        self.spec = spec
        self.tensors = [
            ir.tensor(np.arange(k + 1, dtype=np.float32), name=f"t{k}") for k in range(spec.get("ntensors", 3))
        ]
        # tensors used by attributes are never used as const_value: the serializer renames the tensor of
        # an initializer to the value's name (serde.py, serialize_graph_into), which would leak into the attribute
        self.attr_tensors = [ir.tensor(np.arange(k + 2, dtype=np.int64), name=f"at{k}") for k in range(3)]
        self.type_pool = [build_type(t) for t in spec.get("type_pool", [])]
        self.shape_pool = [build_shape(s) for s in spec.get("shape_pool", [])]
        self.configs = [ir.ModelConfiguration(f"cfg{k}", 2) for k in range(spec.get("nconfigs", 0))]
        self.values: dict[str, ir.Value] = {}
        self.unname: list[ir.Node] = []
        self.graphs: dict[str, ir.Graph] = {}
        self.keep: list = []
        self.functions = []
        self.model = None
        g = self.graph(spec["graph"], [])
        self.functions = [self.function(f) for f in spec.get("functions", [])]
        self.model = ir.Model(
            g,
            ir_version=spec.get("ir_version", 10),
            producer_name=spec.get("producer", "p"),
            functions=self.functions,
            metadata_props=dict(spec.get("model_props", {})),
            device_configurations=tuple(self.configs),
        )
        for k, x in spec.get("model_meta", {}).items():
            self.model.meta[k] = x
        self.views: dict[str, ir.GraphView] = {}
        for vs in spec.get("views", []):
            self.views[vs["name"]] = self.view(vs)
        for node in self.unname:  # `node.name = None` after the graph named it
            node.name = None

    # values -----------------------------------------------------------------
    def fill_value(self, v, s):
        if "type_ref" in s:
            v.type = self.type_pool[s["type_ref"]]
        elif s.get("type") is not None:
            v.type = build_type(s["type"])
        if "shape_ref" in s:
            v.shape = self.shape_pool[s["shape_ref"]]
        elif s.get("shape") is not None:
            v.shape = build_shape(s["shape"])
        v.doc_string = s.get("doc")
        if s.get("const") is not None:
            # one tensor object per value (a tensor shared by two initializers with different names is renamed
            # back and forth by every serialization); the pool `self.tensors` is what `setConst` edits assign
            v.const_value = ir.tensor(np.arange(s["const"] + 1, dtype=np.float32), name=s["name"])
        for k, x in s.get("props", {}).items():
            v.metadata_props[k] = x
        for k, x in s.get("meta", {}).items():
            v.meta[k] = [x]  # a mutable object: deep_copy=True must copy it, deep_copy=False shares it
        for k in s.get("meta_invalid", []):
            v.meta.invalidate(k)

    def new_value(self, s):
        if s["name"] in self.values:
            # the same value listed twice (an initializer that is also a graph input): ONE object
            return self.values[s["name"]]
        v = ir.Value(name=s["name"])
        self.fill_value(v, s)
        self.values[s["name"]] = v
        return v

    def lookup(self, name):
        return None if name is None else self.values[name]

    # graphs -----------------------------------------------------------------
    def attr(self, a, scope):
        k = a["kind"]
        if k == "int":
            r = ir.AttrInt64(a["name"], a["value"], doc_string=a.get("doc"))
        elif k == "str":
            r = ir.AttrString(a["name"], a["value"], doc_string=a.get("doc"))
        elif k == "ints":
            r = ir.AttrInt64s(a["name"], a["value"])
        elif k == "tensor":
            r = ir.AttrTensor(a["name"], self.attr_tensors[a["value"]])
        elif k == "ref":
            r = ir.RefAttr(a["name"], a["value"], ir.AttributeType.INT)
        elif k == "graph":
            r = ir.AttrGraph(a["name"], self.graph(a["value"], scope), doc_string=a.get("doc"))
        elif k == "graphs":
            r = ir.AttrGraphs(a["name"], [self.graph(g, scope) for g in a["value"]])
        else:
            raise ValueError(k)
        return r

    def dev(self, d):
        specs = tuple(
            ir.ShardingSpec(value=self.lookup(sp["value"]), device=tuple(sp.get("device", (0, 1)))) for sp in d["specs"]
        )
        cfg = self.configs[d["cfg"]] if d.get("cfg") is not None else None
        return ir.NodeDeviceConfiguration(configuration=cfg, sharding_specs=specs, pipeline_stage=d.get("stage"))

    def node(self, n, scope):
        # forward references (unsorted graphs): the value objects of all node outputs of this
        # graph exist before any node is built
        inputs = [self.lookup(x) for x in n["inputs"]]
        attrs = [self.attr(a, scope) for a in n.get("attrs", [])]
        outs = [self.values[o["name"]] for o in n["outs"]]
        node = ir.Node(
            n.get("domain", ""),
            n["op"],
            inputs,
            attrs,
            overload=n.get("overload", ""),
            outputs=outs,
            version=n.get("version"),
            name=n["name"],
            doc_string=n.get("doc"),
            metadata_props=dict(n["props"]) if n.get("props") else None,
            device_configurations=tuple(self.dev(d) for d in n.get("dev", [])),
        )
        for k, x in n.get("meta", {}).items():
            node.meta[k] = [x]
        for k in n.get("meta_invalid", []):
            node.meta.invalidate(k)
        if n.get("unname"):
            self.unname.append(node)
        for a in n.get("attrs", []):
            if "key" in a:  # attribute filed under a key different from its name
                at = node.attributes.pop(a["name"])
                dict.__setitem__(node.attributes.data, a["key"], at)
        return node

    def graph(self, g, scope):
        inputs = [self.new_value(v) for v in g["inputs"]]
        inits = [self.new_value(v) for v in g.get("inits", [])]
        for n in g["nodes"]:
            for o in n["outs"]:
                self.new_value(o)
        nodes = [self.node(n, scope + [g["name"]]) for n in g["nodes"]]
        outputs = [self.values[o] for o in g["outputs"]]
        for nm in g.get("ghost_outputs", []):
            outputs.append(ir.Value(name=nm))
        gr = ir.Graph(
            inputs,
            outputs,
            nodes=nodes,
            initializers=inits,
            doc_string=g.get("doc"),
            opset_imports=dict(g.get("opsets", {"": 18})),
            name=g["name"],
            metadata_props=dict(g["props"]) if g.get("props") else None,
        )
        for k, x in g.get("meta", {}).items():
            gr.meta[k] = [x]
        self.graphs[g["name"]] = gr
        return gr

    def function(self, f):
        g = self.graph(f["graph"], [])
        attrs = [self.attr(a, []) for a in f.get("attrs", [])]
        return ir.Function(f["domain"], f["name"], f.get("overload", ""), graph=g, attributes=attrs)

    def view(self, vs):
        g = self.graphs[vs["of"]]
        nodes = [n for i, n in enumerate(g) if i in set(vs["nodes"])]
        view = ir.GraphView(
            [self.values[x] for x in vs["inputs"]],
            [self.values[x] for x in vs["outputs"]],
            nodes=nodes,
            initializers=[self.values[x] for x in vs.get("inits", [])],
            doc_string=vs.get("doc"),
            opset_imports=dict(g.opset_imports),
            name=vs["name"],
            metadata_props=dict(vs["props"]) if vs.get("props") else None,
        )
        for old, new in vs.get("rename_after", []):
            # a value renamed AFTER the view was made: the keys of the view's initializer dict go stale
            self.values[old].name = new
        return view

    def target(self):
        t = self.spec["target"]
        k = t["kind"]
        if k in ("model", "functionalize"):
            return self.model
        if k in ("graph", "subgraph"):
            return self.graphs[t["name"]]
        if k == "function":
            return self.functions[t["index"]]
        if k == "view":
            return self.views[t["name"]]
        raise ValueError(k)

    def roots(self):
        return [self.model] + list(self.views.values())


# --------------------------------------------------------------------------- abstraction: real objects -> heap


class Heap:
    """Enumerates the Python objects reachable from the roots; ids are stable across dumps."""

    def __init__(self):
        self.ids: dict[int, int] = {}
        self.objs: list = []
        self.tensor_ids: dict[int, int] = {}
        self.payloads: dict = {}
        self.keep: list = []

    def ref(self, kind, obj):
        if obj is None:
            return None
        key = id(obj)
        i = self.ids.get(key)
        if i is None:
            i = len(self.objs)
            self.ids[key] = i
            self.objs.append((kind, obj))
        return i

    def obj(self, i):
        return self.objs[i][1]

    def tensor(self, t):
        if t is None:
            return None
        if id(t) not in self.tensor_ids:
            self.tensor_ids[id(t)] = len(self.tensor_ids)
            self.keep.append(t)
        return self.tensor_ids[id(t)]

    def payload(self, key):
        if key not in self.payloads:
            self.payloads[key] = len(self.payloads)
        return self.payloads[key]

    def ident(self, obj):
        """opaque id of an object compared by identity (configurations)"""
        if obj is None:
            return None
        if id(obj) not in self.tensor_ids:
            self.tensor_ids[id(obj)] = len(self.tensor_ids)
            self.keep.append(obj)
        return self.tensor_ids[id(obj)]

    def graph_kind(self, g):
        return self.ref("graph", g)

    def enc(self, kind, o):
        R = self.ref
        if kind == "val":
            return {
                "k": "val", "name": o.name, "doc": o.doc_string,
                # a detached former node output has `_index == -1` (Node.resize_outputs); the model says `none`
                "producer": R("node", o.producer()), "index": None if o.index() == -1 else o.index(),
                "uses": [[R("node", u.node), u.idx] for u in o._uses],
                "graph": R("graph", o._graph), "in": o._is_graph_input, "out": o._is_graph_output,
                "init": o._is_initializer,
                "type": R("type", o.type), "shape": R("shape", o.shape), "const": R("tensor", o.const_value),
                "props": R("dict", o.metadata_props), "mstore": R("mstore", o.meta),
            }  # fmt: skip
        if kind == "tensor":
            return {"k": "tensor", "name": o.name}
        if kind == "node":
            return {
                "k": "node", "name": o.name, "doc": o.doc_string, "domain": o.domain, "op": o.op_type,
                "overload": o.overload, "version": o.version,
                "inputs": [R("val", v) for v in o.inputs], "outputs": [R("val", v) for v in o.outputs],
                "attrs": [[k, R("attr", a)] for k, a in o.attributes.items()],
                "graph": R("graph", o._graph),
                "dev": [
                    {"cfg": self.payload(("cfg", self.ident(c.configuration), c.pipeline_stage)),
                     "specs": [[R("val", sp.value),
                                self.payload(("spec", sp.device, repr(sp.index_to_device_group_map), repr(sp.sharded_dims)))]
                               for sp in c.sharding_specs]}
                    for c in o.device_configurations
                ],
                "props": R("dict", o.metadata_props), "mstore": R("mstore", o.meta),
            }  # fmt: skip
        if kind == "graph":
            view = isinstance(o, ir.GraphView)
            return {
                "k": "graph", "name": o.name, "doc": o.doc_string,
                "inputs": [R("val", v) for v in o.inputs], "outputs": [R("val", v) for v in o.outputs],
                "inits": [[k, R("val", v)] for k, v in o.initializers.items()],
                "nodes": [R("node", n) for n in o],
                "opsets": [[k, v] for k, v in o.opset_imports.items()],
                "props": R("dict", o.metadata_props), "mstore": R("mstore", o.meta), "view": view,
            }  # fmt: skip
        if kind == "type":
            wrap = []
            t = o
            while isinstance(t, (ir.SequenceType, ir.OptionalType)):
                wrap.append([2 if isinstance(t, ir.SequenceType) else 3, t.denotation])
                t = t.elem_type
            return {"k": "type", "wrap": wrap, "leaf": 0 if isinstance(t, ir.TensorType) else 1,
                    "dtype": int(t.dtype), "denot": t.denotation}  # fmt: skip
        if kind == "shape":
            dims = [d if isinstance(d, int) else d.value for d in o.dims]
            return {"k": "shape", "dims": dims, "denots": [o.get_denotation(i) for i in range(len(dims))],
                    "frozen": o.frozen}  # fmt: skip
        if kind == "dict":
            return {"k": "dict", "data": [[k, str(v)] for k, v in o.items()], "invalid": []}
        if kind == "mstore":
            return {"k": "dict", "data": [[k, str(v)] for k, v in o.items()], "invalid": sorted(o._invalid_keys)}
        if kind == "attr":
            if o.is_ref():
                v = {"ref": self.payload(("ref", o.ref_attr_name, o.type.name))}
            elif o.type == ir.AttributeType.GRAPH:
                v = {"graph": R("graph", o.value)}
            elif o.type == ir.AttributeType.GRAPHS:
                v = {"graphs": [R("graph", g) for g in o.value]}
            elif o.type == ir.AttributeType.TENSOR:
                v = {"plain": self.payload(("TENSOR", self.tensor(o.value)))}
            else:
                v = {"plain": self.payload((o.type.name, repr(o.value)))}
            return {"k": "attr", "name": o.name, "doc": o.doc_string, "v": v}
        if kind == "func":
            return {"k": "func", "domain": o.domain, "name": o.name, "overload": o.overload,
                    "graph": R("graph", o._graph), "attrs": [[k, R("attr", a)] for k, a in o.attributes.items()]}  # fmt: skip
        if kind == "model":
            hdr = (o.ir_version, o.producer_name, o.producer_version, o.domain, o.model_version, o.doc_string)
            return {"k": "model", "graph": R("graph", o.graph), "funcs": [R("func", f) for f in o.functions.values()],
                    "header": self.payload(("hdr", hdr)),
                    "dev": self.payload(("mdev", tuple(self.ident(c) for c in o.device_configurations))),
                    "props": R("dict", o.metadata_props), "mstore": R("mstore", o.meta)}  # fmt: skip
        raise ValueError(kind)

    def add_root(self, obj):
        if isinstance(obj, ir.Model):
            return self.ref("model", obj)
        if isinstance(obj, ir.Function):
            return self.ref("func", obj)
        if isinstance(obj, (ir.Graph, ir.GraphView)):
            return self.ref("graph", obj)
        raise ValueError(type(obj))

    def dump(self):
        cells = []
        i = 0
        while i < len(self.objs):  # enc() may discover further objects
            kind, o = self.objs[i]
            cells.append(self.enc(kind, o))
            i += 1
        return cells


# pointer fields of every cell kind, in a fixed order (used for reachability and renumbering)
def map_ptrs(c, f):
    k = c["k"]
    c = dict(c)
    o = lambda x: None if x is None else f(x)  # noqa: E731
    if k == "val":
        for fld in ("producer", "graph", "type", "shape", "const"):
            c[fld] = o(c[fld])
        c["props"] = f(c["props"])
        c["mstore"] = f(c["mstore"])
        c["uses"] = [[f(n), i] for n, i in c["uses"]]
    elif k == "node":
        c["inputs"] = [o(x) for x in c["inputs"]]
        c["outputs"] = [f(x) for x in c["outputs"]]
        c["attrs"] = [[kk, f(a)] for kk, a in c["attrs"]]
        c["graph"] = o(c["graph"])
        c["dev"] = [{"cfg": d["cfg"], "specs": [[o(v), p] for v, p in d["specs"]]} for d in c["dev"]]
        c["props"] = f(c["props"])
        c["mstore"] = f(c["mstore"])
    elif k == "graph":
        c["inputs"] = [f(x) for x in c["inputs"]]
        c["outputs"] = [f(x) for x in c["outputs"]]
        c["inits"] = [[kk, f(a)] for kk, a in c["inits"]]
        c["nodes"] = [f(x) for x in c["nodes"]]
        c["props"] = f(c["props"])
        c["mstore"] = f(c["mstore"])
    elif k == "attr":
        v = c["v"]
        if "graph" in v:
            c["v"] = {"graph": f(v["graph"])}
        elif "graphs" in v:
            c["v"] = {"graphs": [f(g) for g in v["graphs"]]}
    elif k == "func":
        c["graph"] = f(c["graph"])
        c["attrs"] = [[kk, f(a)] for kk, a in c["attrs"]]
    elif k == "model":
        c["graph"] = f(c["graph"])
        c["funcs"] = [f(x) for x in c["funcs"]]
        c["props"] = f(c["props"])
        c["mstore"] = f(c["mstore"])
    return c


def canon(cells, roots, drop_uses_from=None):
    """Renumber the cells reachable from `roots` in first-visit order.  Returns (canonical cells,
    order) with order[canonical index] = raw id.  `drop_uses_from`: forget usage records by nodes
    with raw id >= that bound (garbage left behind by a raising clone)."""
    index: dict[int, int] = {}
    order: list[int] = []

    def visit(i):
        if i not in index:
            index[i] = len(order)
            order.append(i)
        return index[i]

    def prep(c):
        if drop_uses_from is not None and c["k"] == "val":
            c = dict(c)
            c["uses"] = [u for u in c["uses"] if u[0] < drop_uses_from]
        return c

    for r in roots:
        if r is not None:
            visit(r)
    out = []
    k = 0
    while k < len(order):
        raw = order[k]
        if raw >= len(cells):
            out.append({"k": "dangling"})
        else:
            c = map_ptrs(prep(cells[raw]), visit)
            if c["k"] == "dict":
                c["invalid"] = sorted(c["invalid"])
            out.append(c)
        k += 1
    return out, order


def first_diff(a, b):
    for i, (x, y) in enumerate(zip(a, b)):
        if x != y:
            keys = [k for k in x if x.get(k) != y.get(k)] if isinstance(x, dict) and isinstance(y, dict) else []
            return {"cell": i, "fields": keys, "model": {k: x.get(k) for k in keys} or x, "impl": {k: y.get(k) for k in keys} or y}
    if len(a) != len(b):
        return {"cell": min(len(a), len(b)), "fields": ["<length>"], "model": len(a), "impl": len(b)}
    return None


# --------------------------------------------------------------------------- independent oracle on the real objects


def walk(root):
    """graphs (any depth), nodes, values *defined* in them, in deterministic order"""
    graphs, nodes, values = [], [], []
    seen = set()

    def g_(g):
        if id(g) in seen:
            return
        seen.add(id(g))
        graphs.append(g)
        for v in list(g.inputs) + list(g.initializers.values()):
            if id(v) not in seen:
                seen.add(id(v))
                values.append(v)
        for n in g:
            if id(n) in seen:
                continue
            seen.add(id(n))
            nodes.append(n)
            for v in n.outputs:
                if id(v) not in seen:
                    seen.add(id(v))
                    values.append(v)
            for a in n.attributes.values():
                attr_(a)

    def attr_(a):
        if a.is_ref():
            return
        if a.type == ir.AttributeType.GRAPH:
            g_(a.value)
        elif a.type == ir.AttributeType.GRAPHS:
            for g in a.value:
                g_(g)

    if isinstance(root, ir.Model):
        g_(root.graph)
        for f in root.functions.values():
            g_(f.graph)
            for a in f.attributes.values():
                attr_(a)
    elif isinstance(root, ir.Function):
        g_(root.graph)
        for a in root.attributes.values():
            attr_(a)
    else:
        g_(root)
    return graphs, nodes, values


def cells_of(root):
    """identity sets that the property says must be new in a clone"""
    graphs, nodes, values = walk(root)
    s = {"graph": {id(g) for g in graphs}, "node": {id(n) for n in nodes}, "value": {id(v) for v in values}}
    s["shape"] = {id(v.shape) for v in values if v.shape is not None}
    s["type"] = set()
    for v in values:
        t = v.type
        while t is not None:
            s["type"].add(id(t))
            t = t.elem_type if isinstance(t, (ir.SequenceType, ir.OptionalType)) else None
    s["props"] = {id(x.metadata_props) for x in graphs + nodes + values}
    s["meta"] = {id(x.meta) for x in graphs + nodes + values}
    if isinstance(root, ir.Model):
        s["props"].add(id(root.metadata_props))
    return s


def type_snap(t):
    r = []
    while t is not None:
        inner = isinstance(t, (ir.SequenceType, ir.OptionalType))
        r.append((type(t).__name__, None if inner else int(t.dtype), t.denotation))
        t = t.elem_type if inner else None
    return tuple(r)


def snapshot(root, own_nodes_only=True, shared_state=True, tensor_names=None, attr_state=None):
    """Deep structural snapshot of everything `root` owns; identities -> first-visit indices;
    usage records are restricted to the root's own nodes (a clone that captures an outer value
    legitimately adds itself to that value's users)."""
    graphs, nodes, values = walk(root)
    tensor_names = shared_state if tensor_names is None else tensor_names
    attr_state = shared_state if attr_state is None else attr_state
    vi = {id(v): i for i, v in enumerate(values)}
    ni = {id(n): i for i, n in enumerate(nodes)}
    gi = {id(g): i for i, g in enumerate(graphs)}

    def vref(v):
        if v is None:
            return None
        return ("own", vi[id(v)]) if id(v) in vi else ("outer", id(v))

    def gref(g):
        if g is None:
            return None
        return ("own", gi[id(g)]) if id(g) in gi else ("outer", id(g))

    def meta(x):
        return (tuple((k, repr(v)) for k, v in x.metadata_props.items()),
                tuple((k, repr(v)) for k, v in x.meta.items()), tuple(sorted(x.meta._invalid_keys)))  # fmt: skip

    def attr(a):
        if a.is_ref():
            return ("ref", a.name, a.ref_attr_name, a.type.name)
        if a.type == ir.AttributeType.GRAPH:
            return ("graph", a.name, a.doc_string, gref(a.value))
        if a.type == ir.AttributeType.GRAPHS:
            return ("graphs", a.name, a.doc_string, tuple(gref(g) for g in a.value))
        # a graph-free Attr object is shared with every clone: its own mutable state is observable state of both
        extra = (tuple(sorted((k, repr(x)) for k, x in a.meta.items())),) if attr_state else ()
        return ("plain", a.name, a.doc_string, id(a), *extra)

    sv = []
    for v in values:
        uses = tuple((ni[id(u.node)], u.idx) for u in v._uses if id(u.node) in ni)
        prod = v.producer()
        sv.append((v.name, v.doc_string, type_snap(v.type), id(v.type) if v.type is not None else None,
                   None if v.shape is None else (tuple(repr(d) for d in v.shape.dims),
                                                 tuple(v.shape.get_denotation(i) for i in range(len(v.shape))),
                                                 v.shape.frozen, id(v.shape)),
                   id(v.const_value) if v.const_value is not None else None,
                   # the tensor object is shared with every clone: its name is observable state of both
                   v.const_value.name if (tensor_names and v.const_value is not None) else None, meta(v),
                   None if prod is None else ni.get(id(prod), ("outer", id(prod))), v.index(), uses,
                   gref(v._graph), v._is_graph_input, v._is_graph_output, v._is_initializer))  # fmt: skip
    sn = []
    for n in nodes:
        sn.append((n.name, n.doc_string, n.domain, n.op_type, n.overload, n.version,
                   tuple(vref(v) for v in n.inputs), tuple(vref(v) for v in n.outputs),
                   tuple((k, attr(a)) for k, a in n.attributes.items()), gref(n._graph), meta(n),
                   tuple((id(c.configuration), c.pipeline_stage,
                          tuple((vref(sp.value), sp.device, sp.sharded_dims) for sp in c.sharding_specs))
                         for c in n.device_configurations)))  # fmt: skip
    sg = []
    for g in graphs:
        sg.append((g.name, g.doc_string, tuple(vref(v) for v in g.inputs), tuple(vref(v) for v in g.outputs),
                   tuple((k, vref(v)) for k, v in g.initializers.items()), tuple(ni[id(n)] for n in g),
                   tuple(g.opset_imports.items()), meta(g)))  # fmt: skip
    top = None
    if isinstance(root, ir.Model):
        top = (root.ir_version, root.producer_name, root.producer_version, root.domain, root.model_version,
               root.doc_string, tuple(root.metadata_props.items()), tuple(id(c) for c in root.device_configurations),
               tuple((k, f.domain, f.name, f.overload, tuple((ak, attr(a)) for ak, a in f.attributes.items()))
                     for k, f in root.functions.items()))  # fmt: skip
    elif isinstance(root, ir.Function):
        top = (root.domain, root.name, root.overload, tuple((ak, attr(a)) for ak, a in root.attributes.items()))
    return (top, tuple(sg), tuple(sn), tuple(sv))


def users_of(roots):
    """complete usage records of every value the roots own (identity based)"""
    res = []
    for r in roots:
        for v in walk(r)[2]:
            res.append(tuple((id(u.node), u.idx) for u in v._uses))
    return res


def serialize(root):
    try:
        if isinstance(root, ir.Model):
            return ir.serde.serialize_model(root).SerializeToString(deterministic=True)
        if isinstance(root, ir.Function):
            return ir.serde.serialize_function(root).SerializeToString(deterministic=True)
        return ir.serde.serialize_graph(root).SerializeToString(deterministic=True)
    except Exception as e:  # noqa: BLE001
        return ("raised", type(e).__name__)


def _equal_but_value_info(a: bytes, b: bytes) -> bool:
    import onnx

    pa, pb = onnx.GraphProto(), onnx.GraphProto()
    pa.ParseFromString(a)
    pb.ParseFromString(b)
    del pa.value_info[:]
    del pb.value_info[:]
    return pa.SerializeToString(deterministic=True) == pb.SerializeToString(deterministic=True)


def ser_excuse(root):
    """why the observation function `serGraph` may be undefined although serde serializes: it requires consistent
    containers (attribute filed under its own name, named values, initializer names distinct)"""
    graphs, nodes, values = walk(root)
    if any(k != a.name for n in nodes for k, a in n.attributes.items()):
        return "attribute-key-differs-from-name"
    if any(v.name is None for v in values):
        return "unnamed-value"
    for g in graphs:
        names = [v.name for v in g.initializers.values()]
        if len(set(names)) != len(names):
            return "duplicate-initializer-name"
    return None


def source_analysis(root):
    """(defined value ids, has an outer reference, is def-before-use in clone traversal order)"""
    graphs, nodes, values = walk(root)
    defined = {id(v) for v in values}
    outer = False
    for n in nodes:
        for v in list(n.inputs) + [sp.value for c in n.device_configurations for sp in c.sharding_specs]:
            if v is not None and id(v) not in defined:
                outer = True
    for g in graphs:
        for v in g.outputs:
            if id(v) not in defined:
                outer = True
    # clone traversal order: inputs, initializers, then nodes in order (nested graphs when their node is visited)
    ordered = True
    seen: set[int] = set()

    def g_(g):
        nonlocal ordered
        for v in list(g.inputs) + list(g.initializers.values()):
            seen.add(id(v))
        for n in g:
            for v in n.inputs:
                if v is not None and id(v) in defined and id(v) not in seen:
                    ordered = False
            for a in n.attributes.values():
                if not a.is_ref() and a.type == ir.AttributeType.GRAPH:
                    g_(a.value)
                elif not a.is_ref() and a.type == ir.AttributeType.GRAPHS:
                    for x in a.value:
                        g_(x)
            for v in n.outputs:
                seen.add(id(v))
        for v in g.outputs:
            if id(v) in defined and id(v) not in seen:
                ordered = False

    def f_(f):
        # one cloner per function: the body, then the default graphs of its attribute declarations
        g_(f.graph)
        for a in f.attributes.values():
            if not a.is_ref() and a.type == ir.AttributeType.GRAPH:
                g_(a.value)
            elif not a.is_ref() and a.type == ir.AttributeType.GRAPHS:
                for x in a.value:
                    g_(x)

    if isinstance(root, ir.Model):
        g_(root.graph)
        for f in root.functions.values():
            seen.clear()
            f_(f)
    elif isinstance(root, ir.Function):
        f_(root)
    else:
        g_(root)
    return defined, outer, ordered


class _Hang(BaseException):
    """the real code used up its CPU budget (BaseException: no `except Exception` of the code under test swallows it)"""


CPU_BUDGET_CASE = float(__import__("os").environ.get("C13_CPU_BUDGET_S", "20") or 20)
_GIVE_UP = {"on": False}  # a non-termination was reported by this worker process: the rest of its share is skipped


def cpu_guarded(fn, seconds=CPU_BUDGET_CASE):
    """fn() under a guard on the CPU time of this process (ITIMER_VIRTUAL only runs while the process executes, so
    machine load cannot trip it): real code that loops forever (a changed linked list / sort / use-def loop) burns CPU
    and is interrupted instead of hanging the check.  A healthy case takes milliseconds."""
    import signal

    def _alarm(_sig, _frm):
        raise _Hang()

    old = signal.signal(signal.SIGVTALRM, _alarm)
    signal.setitimer(signal.ITIMER_VIRTUAL, seconds)
    try:
        return fn()
    finally:
        signal.setitimer(signal.ITIMER_VIRTUAL, 0)
        signal.signal(signal.SIGVTALRM, old)


class _VmapTap:
    """records the `value_map` dict of every real `Cloner` created while active (the clone entry points pass a fresh
    `{}` which the cloner fills in place): the REAL final value map, for C13_wiring_image / C13_value_map_bijection"""

    def __enter__(self):
        from onnx_ir import _cloner

        self.maps = []
        self.cls = _cloner.Cloner
        self.orig = _cloner.Cloner.__init__
        tap = self

        def init(this, *a, **kw):
            tap.orig(this, *a, **kw)
            tap.maps.append(getattr(this, "_value_map", None))

        _cloner.Cloner.__init__ = init
        return self

    def __exit__(self, *exc):
        self.cls.__init__ = self.orig
        return False


def later_spec_values(root):
    """ids of the values targeted by a sharding spec of a node that is cloned BEFORE the node defining the value (the
    value is neither an input nor an output of the spec's node, it is defined in the cloned region, and it is not
    bound yet when the spec's node is cloned): the shape of finding D342"""
    graphs, nodes, values = walk(root)
    defined = {id(v) for v in values}
    later: set[int] = set()
    seen: set[int] = set()

    def g_(g):
        for v in list(g.inputs) + list(g.initializers.values()):
            seen.add(id(v))
        for n in g:
            for a in n.attributes.values():
                if not a.is_ref() and a.type == ir.AttributeType.GRAPH:
                    g_(a.value)
                elif not a.is_ref() and a.type == ir.AttributeType.GRAPHS:
                    for x in a.value:
                        g_(x)
            for v in n.outputs:
                seen.add(id(v))
            own = {id(v) for v in n.inputs if v is not None} | {id(v) for v in n.outputs}
            for c in n.device_configurations:
                for sp in c.sharding_specs:
                    v = sp.value
                    if v is not None and id(v) not in own and id(v) in defined and id(v) not in seen:
                        later.add(id(v))

    def f_(f):
        g_(f.graph)
        for a in f.attributes.values():
            if not a.is_ref() and a.type == ir.AttributeType.GRAPH:
                g_(a.value)
            elif not a.is_ref() and a.type == ir.AttributeType.GRAPHS:
                for x in a.value:
                    g_(x)

    if isinstance(root, ir.Model):
        g_(root.graph)
        for f in root.functions.values():
            seen.clear()
            f_(f)
    elif isinstance(root, ir.Function):
        f_(root)
    else:
        g_(root)
    return later


def check_wiring(out, spec, src, clone, vmap, allow, tag):
    """C13_wiring_image on the real objects, independent of the model: the clone is the image of the source under the
    REAL cloner's final value map `vmap` ({id(original value): cloned value}): graph inputs / initializers / outputs and
    node outputs are the bound clones, every node input and sharding target is the image (or, with
    allow_outer_scope_values, passed through), graph-free attributes are shared, graph attributes are re-made around
    graphs that are again images, operator fields and metadata_props are equal."""
    bad: list[str] = []

    def img_ok(r, r2):
        if r is None:
            return r2 is None
        if id(r) in vmap and r2 is vmap[id(r)]:
            return True
        if id(r) not in vmap:
            return r2 is r  # its own image (an outer value)
        return allow and r2 is r  # passed through before it was bound (only with allow_outer_scope_values)

    def vals(l, l2, what):
        if len(l) != len(l2) or any(id(a) not in vmap or vmap[id(a)] is not b for a, b in zip(l, l2)):
            bad.append(what)

    def graph(g, g2):
        vals(list(g.inputs), list(g2.inputs), "graph-inputs")
        vals(list(g.initializers.values()), list(g2.initializers.values()), "initializers")
        vals(list(g.outputs), list(g2.outputs), "graph-outputs")
        if (g.name, g.doc_string, dict(g.opset_imports), dict(g.metadata_props)) != (
            g2.name, g2.doc_string, dict(g2.opset_imports), dict(g2.metadata_props)):  # fmt: skip
            bad.append("graph-fields")
        ns, ns2 = list(g), list(g2)
        if len(ns) != len(ns2):
            bad.append("node-count")
            return
        for n, n2 in zip(ns, ns2):
            node(n, n2)

    def node(n, n2):
        if (n.domain, n.op_type, n.overload, n.version, n.name, n.doc_string, dict(n.metadata_props)) != (
            n2.domain, n2.op_type, n2.overload, n2.version, n2.name, n2.doc_string, dict(n2.metadata_props)):  # fmt: skip
            bad.append("node-fields")
        if len(n.inputs) != len(n2.inputs) or not all(img_ok(a, b) for a, b in zip(n.inputs, n2.inputs)):
            bad.append("node-inputs")
        vals(list(n.outputs), list(n2.outputs), "node-outputs")
        for a in n.attributes.values():
            a2 = n2.attributes.get(a.name)
            if a2 is None:
                bad.append("attr-missing")
            elif not a.is_ref() and a.type == ir.AttributeType.GRAPH:
                if a2 is a or a2.is_ref() or a2.type != ir.AttributeType.GRAPH:
                    bad.append("attr-graph-shared")
                else:
                    graph(a.value, a2.value)
            elif not a.is_ref() and a.type == ir.AttributeType.GRAPHS:
                if a2 is a or a2.is_ref() or a2.type != ir.AttributeType.GRAPHS or len(a.value) != len(a2.value):
                    bad.append("attr-graphs-shared")
                else:
                    for x, x2 in zip(a.value, a2.value):
                        graph(x, x2)
            elif a2 is not a:
                bad.append("attr-not-shared")
        d, d2 = n.device_configurations, n2.device_configurations
        if len(d) != len(d2):
            bad.append("dev-count")
        for c, c2 in zip(d, d2):
            if (c.configuration is not c2.configuration or c.pipeline_stage != c2.pipeline_stage
                    or len(c.sharding_specs) != len(c2.sharding_specs)):  # fmt: skip
                bad.append("dev-fields")
            for sp, sp2 in zip(c.sharding_specs, c2.sharding_specs):
                if tuple(sp.device) != tuple(sp2.device) or not img_ok(sp.value, sp2.value):
                    bad.append("dev-spec")

    def attr_decls(f, f2):
        # attribute declarations of a function: graph-valued defaults are cloned under the SAME value map
        if list(f.attributes.keys()) != list(f2.attributes.keys()):
            bad.append("func-attr-keys")
            return
        for a in f.attributes.values():
            a2 = f2.attributes[a.name]
            if not a.is_ref() and a.type == ir.AttributeType.GRAPH:
                if a2 is a or a2.is_ref() or a2.type != ir.AttributeType.GRAPH:
                    bad.append("func-attr-graph-shared")
                else:
                    graph(a.value, a2.value)
            elif not a.is_ref() and a.type == ir.AttributeType.GRAPHS:
                if a2 is a or a2.is_ref() or a2.type != ir.AttributeType.GRAPHS or len(a.value) != len(a2.value):
                    bad.append("func-attr-graphs-shared")
                else:
                    for x, x2 in zip(a.value, a2.value):
                        graph(x, x2)
            elif a2 is not a:
                bad.append("func-attr-not-shared")

    if isinstance(src, ir.Function):
        # C13_wiring_image_function: same identifier, body and graph-valued attribute declarations are images
        if src.identifier() != clone.identifier():
            bad.append("func-identifier")
        graph(src.graph, clone.graph)
        attr_decls(src, clone)
        what = "wiring_image_function"
    else:
        graph(src, clone)
        what = "wiring_image"
    # the map itself (C13_value_map_bijection): injective, every target is a value the clone owns
    if len({id(v) for v in vmap.values()}) != len(vmap):
        bad.append("value-map-not-injective")
    if bad:
        out.fail(f"wiring:{bad[0]}:{tag}", "the clone is not the image of the source under the cloner's value map",
                 {"spec": spec, "bad": sorted(set(bad))})  # fmt: skip
    else:
        out.count(f"{what}_holds_on_real_objects=True")
    return not bad


def check_wiring_model(out, spec, src, clone, maps, tag):
    """C13_wiring_image_model on the real objects: header fields, opset imports, metadata_props and device configurations
    equal, `meta` of the clone empty, functions filed under the same keys in the same order, the main graph the image
    under the FIRST cloner's map and function i the image under the (i+1)-th cloner's map; the maps' targets are
    pairwise disjoint (every cloner creates its own values)."""
    bad: list[str] = []
    fields = ("ir_version", "producer_name", "producer_version", "domain", "model_version", "doc_string")
    if any(getattr(src, f) != getattr(clone, f) for f in fields):
        bad.append("model-header")
    if dict(src.opset_imports) != dict(clone.opset_imports):
        bad.append("model-opsets")
    if dict(src.metadata_props) != dict(clone.metadata_props) or (src.metadata_props is clone.metadata_props):
        bad.append("model-metadata-props")
    if tuple(src.device_configurations or ()) != tuple(clone.device_configurations or ()):
        bad.append("model-device-configurations")
    if len(clone.meta):
        out.count("observation=model-meta-copied")  # Model.clone does not copy Model.meta (the model says: empty)
    if list(src.functions.keys()) != list(clone.functions.keys()):
        bad.append("model-function-keys")
    fs, fs2 = list(src.functions.values()), list(clone.functions.values())
    if len(maps) != 1 + len(fs) or len(fs) != len(fs2):
        bad.append("model-cloner-count")
    if bad:
        out.fail(f"wiring:{bad[0]}:{tag}", "the cloned model is not the image of the source model",
                 {"spec": spec, "bad": sorted(set(bad))})  # fmt: skip
        return False
    ok = check_wiring(out, spec, src.graph, clone.graph, {id(k): v for k, v in maps[0].items()}, False, tag + ":main")
    for f, f2, vm in zip(fs, fs2, maps[1:]):
        ok = check_wiring(out, spec, f, f2, {id(k): v for k, v in vm.items()}, False, tag + ":function") and ok
    targets = [id(v) for vm in maps for v in vm.values()]
    if len(set(targets)) != len(targets):
        out.fail(f"wiring:value-maps-overlap:{tag}", "two cloners of one Model.clone produced the same value object",
                 {"spec": spec})  # fmt: skip
        ok = False
    if ok:
        out.count("wiring_image_model_holds_on_real_objects=True")
    return ok


def check_clone_oracle(out, spec, src, clone, pre_cells, src_ser, tag, later=frozenset()):
    """faithful / fresh / closed on the real objects; `out.fail` on violation.
    Returns True when the clone shares an object with / refers into the original."""
    entangled = False
    t = spec["target"]
    allow = bool(t.get("allow"))
    case = {"spec": spec}
    # faithful
    cl_ser = serialize(clone)
    if spec.get("irregular") == "stale-init-key":
        # finding D346 (reported; the walker answers `irregular`, C13_irregular_reachable): the clone of a view whose
        # initializer keys went stale has fewer initializers than the view; counted, not failed
        n_src, n_cl = len(list(src.initializers.values())), len(list(clone.initializers.values()))
        out.count(f"observation=D346:stale-init-key:initializers={n_src}->{n_cl}:serialized_equal={cl_ser == src_ser}")
    elif isinstance(src_ser, bytes) and cl_ser != src_ser:
        what = "serialized clone differs from the serialized original"
        sig = f"faithful:{tag}"
        if any(n.name is None for n in walk(src)[1]):
            sig = f"faithful:unnamed-node:{tag}"
            what = "the clone of a graph with a node named None serializes with an invented node name"
        if isinstance(src, ir.GraphView) and isinstance(cl_ser, bytes) and _equal_but_value_info(src_ser, cl_ser):
            # the two protos differ only in which node outputs are listed in value_info
            sig = f"faithful:value_info-only:{tag}"
            what = "serialize_graph(view) and serialize_graph(view.clone()) list different node outputs in value_info"
        out.fail(sig, what, case)
    # fresh
    cc = cells_of(clone)
    for kind, ids in cc.items():
        if ids & pre_cells[kind]:
            entangled = True
            out.fail(f"fresh:{kind}:{tag}", f"the clone shares a {kind} object with the original", case)
    # closed
    defined_src, _outer, ordered = source_analysis(src)
    graphs, nodes, values = walk(clone)
    own = {id(v) for v in values}
    owng = {id(g) for g in graphs}
    for n in nodes:
        refs = [("input", v) for v in n.inputs] + [
            ("sharding", sp.value) for c in n.device_configurations for sp in c.sharding_specs
        ]
        for what, v in refs:
            if v is None or id(v) in own:
                continue
            if allow and id(v) not in defined_src:
                continue  # a captured outer value, explicitly allowed
            entangled = True
            if what == "sharding" and allow and id(v) in later:
                # finding D342 (reported, proposed_fixes/D342.md, not applied): the spec targets a value that a LATER
                # node of the cloned region defines; it is not in the value map yet when its node is cloned, so
                # allow_outer_scope_values=True keeps it on the ORIGINAL's value.  C13_spec_unbound_D342 states
                # exactly this of the model; counted as an observation, not as a failure
                out.count("observation=D342:allow=True:spec-kept-on-original-value")
                continue
            if spec.get("irregular") == "stale-init-key":
                # finding D346: the clone of the initializer that lost its place in the clone's initializer dict is a
                # free value: a node of the clone consumes a value the clone graph does not define
                out.count("observation=D346:stale-init-key:clone-consumes-undefined-value")
                continue
            kindsig = "own-value-of-original" if id(v) in defined_src else "outer-value"
            order = "sorted" if ordered else "unsorted"
            out.fail(f"closed:{what}:{kindsig}:{order}:allow={allow}:{tag}",
                     f"a node {what} of the clone is a value of the original ({kindsig})", case)  # fmt: skip
        if n._graph is not None and id(n._graph) not in owng:
            out.fail(f"closed:node.graph:{tag}", "clone node owned by a foreign graph", case)
    for g in graphs:
        for v in g.outputs:
            if id(v) not in own:
                out.fail(f"closed:graph-output:{tag}", "graph output of the clone is not a value of the clone", case)
    for v in values:
        if v._graph is not None and id(v._graph) not in owng:
            out.fail(f"closed:value.graph:{tag}", "clone value owned by a foreign graph", case)
    if t.get("deep"):
        # deep_copy=True: the objects stored in `meta` are copied, so mutating one in the clone is not visible
        before = snapshot(src)
        touched = []
        for x in graphs + nodes + values:
            for mv in x.meta.values():
                if isinstance(mv, list):
                    mv.append("mutated-in-clone")
                    touched.append(mv)
        out.count(f"deep_meta_objects_mutated={min(len(touched), 3)}")
        if snapshot(src) != before:
            out.fail(f"deep-copy-shares-meta-object:{tag}", "deep_copy=True clone shares a meta value with the original", case)
        for mv in touched:
            mv.pop()
    return entangled


# --------------------------------------------------------------------------- edits on the real objects


def apply_edit(heap: Heap, b: Built, e):
    """returns 'ok' | 'raised'"""
    k = e["e"]
    O = heap.obj  # noqa: N806
    try:
        if k == "setName":
            O(e["v"]).name = e["s"]
        elif k == "setType":
            O(e["v"]).type = build_type(e["t"])
        elif k == "setDtype":
            O(e["v"]).dtype = ir.DataType(e["d"])
        elif k == "setTypeDenot":
            O(e["v"]).type.denotation = e["s"]
        elif k == "setShape":
            O(e["v"]).shape = build_shape(e["t"])
        elif k == "setDim":
            O(e["v"]).shape[e["i"]] = e["d"]
        elif k == "setDimDenot":
            O(e["v"]).shape.set_denotation(e["i"], e["s"])
        elif k == "setConst":
            O(e["v"]).const_value = None if e["t"] is None else b.tensors[e["t"]]
        elif k == "setDoc":
            O(e["v"]).doc_string = e["s"]
        elif k == "dictSet":
            o = O(e["o"])
            (o.metadata_props if e["which"] == "props" else o.meta)[e["key"]] = e["x"]
        elif k == "dictDel":
            o = O(e["o"])
            del (o.metadata_props if e["which"] == "props" else o.meta)[e["key"]]
        elif k == "metaInvalidate":
            O(e["o"]).meta.invalidate(e["key"])
        elif k == "replaceInput":
            O(e["n"]).replace_input_with(e["i"], None if e["v"] is None else O(e["v"]))
        elif k == "setNodeName":
            O(e["n"]).name = e["s"]
        elif k == "setOpType":
            O(e["n"]).op_type = e["s"]
        elif k == "setAttr":
            O(e["n"]).attributes[e["key"]] = ir.AttrInt64(e["key"], e["val"])
        elif k == "delAttr":
            del O(e["n"]).attributes[e["key"]]
        elif k == "attrMetaSet":  # oracle-only: in-place state of a (possibly shared) Attr object
            O(e["n"]).attributes[e["key"]].meta[e["mk"]] = e["x"]
        elif k == "setGraphName":
            O(e["g"]).name = e["s"]
        elif k == "setOpset":
            O(e["g"]).opset_imports[e["dom"]] = e["ver"]
        elif k == "removeNode":
            O(e["g"]).remove(O(e["n"]))
        elif k == "appendNode":
            n = ir.Node("", e["opname"], [None if x is None else O(x) for x in e["inputs"]], name=e["name"],
                        num_outputs=len(e["outs"]))  # fmt: skip
            for v, nm in zip(n.outputs, e["outs"]):
                v.name = nm
            O(e["g"]).append(n)
        elif k == "appendOutput":
            O(e["g"]).outputs.append(O(e["v"]))
        elif k == "popOutput":
            O(e["g"]).outputs.pop()
        elif k == "setNodeDomain":
            O(e["n"]).domain = e["s"]
        elif k == "setNodeOverload":
            O(e["n"]).overload = e["s"]
        elif k == "setNodeVersion":
            O(e["n"]).version = e["ver"]
        elif k == "setNodeDoc":
            O(e["n"]).doc_string = e["s"]
        elif k == "setGraphDoc":
            O(e["g"]).doc_string = e["s"]
        elif k == "setFuncName":
            O(e["f"]).name = e["s"]
        elif k == "setModelHeader":
            mo = O(e["mo"])
            setattr(mo, e["field"], e["s"])
            hdr = (mo.ir_version, mo.producer_name, mo.producer_version, mo.domain, mo.model_version, mo.doc_string)
            e["p"] = heap.payload(("hdr", hdr))
        elif k == "appendInput":
            O(e["g"]).inputs.append(O(e["v"]))
        elif k == "popInput":
            O(e["g"]).inputs.pop()
        elif k == "setInit":
            O(e["g"]).initializers[e["key"]] = O(e["v"])
        elif k == "delInit":
            del O(e["g"]).initializers[e["key"]]
        elif k == "registerInit":
            O(e["g"]).register_initializer(O(e["v"]))
        elif k == "sort":
            # the graphs nested in it (re-linked too): `Edit3.sortDeep` names them among its arguments
            e["nest"] = [heap.ids[id(x)] for x in walk(O(e["g"]))[0][1:] if id(x) in heap.ids]
            O(e["g"]).sort()
        elif k == "setInputsSlice":
            O(e["g"]).inputs[e["a"] : e["b"]] = [O(v) for v in e["vs"]]
        elif k == "setOutputsSlice":
            O(e["g"]).outputs[e["a"] : e["b"]] = [O(v) for v in e["vs"]]
        elif k == "popInit":
            O(e["g"]).initializers.pop(e["key"])
        elif k == "clearInits":
            O(e["g"]).initializers.clear()
        elif k == "updateInits":
            O(e["g"]).initializers.update([(key, O(v)) for key, v in e["items"]])
        elif k == "extendNodes":
            O(e["g"]).extend([O(n) for n in e["ns"]])
        elif k == "removeSafe":
            O(e["g"]).remove([O(n) for n in e["ns"]], safe=True)
        elif k == "rauwMulti":
            ir.convenience.replace_all_uses_with([O(v) for v, _ in e["pairs"]], [O(r) for _, r in e["pairs"]],
                                                 replace_graph_outputs=e["outs"])  # fmt: skip
        elif k == "renameValues":
            ir.convenience.rename_values([O(v) for v, _ in e["pairs"]], [nm for _, nm in e["pairs"]])
        elif k == "replaceNode":
            old = O(e["n"])
            new = ir.Node("", e["opname"], [None if x is None else O(x) for x in e["inputs"]], name=e["name"],
                          num_outputs=len(e["outs"]))  # fmt: skip
            for v, nm in zip(new.outputs, e["outs"]):
                v.name = nm
            ir.convenience.replace_nodes_and_values(O(e["g"]), old, [old], [new], list(old.outputs), list(new.outputs))
        # the fourth alphabet (Edit4): item-level calls on graph.inputs / graph.outputs, initializers.setdefault,
        # extended slices, replace_nodes_and_values with several nodes
        elif k in ("insertInput", "insertOutput"):
            (O(e["g"]).inputs if k == "insertInput" else O(e["g"]).outputs).insert(e["i"], O(e["v"]))
        elif k in ("removeInput", "removeOutput"):
            (O(e["g"]).inputs if k == "removeInput" else O(e["g"]).outputs).remove(O(e["v"]))
        elif k in ("delInputAt", "delOutputAt"):
            del (O(e["g"]).inputs if k == "delInputAt" else O(e["g"]).outputs)[e["i"]]
        elif k in ("setInputAt", "setOutputAt"):
            (O(e["g"]).inputs if k == "setInputAt" else O(e["g"]).outputs)[e["i"]] = O(e["v"])
        elif k in ("extendInputs", "extendOutputs"):
            (O(e["g"]).inputs if k == "extendInputs" else O(e["g"]).outputs).extend([O(v) for v in e["vs"]])
        elif k in ("clearInputs", "clearOutputs"):
            (O(e["g"]).inputs if k == "clearInputs" else O(e["g"]).outputs).clear()
        elif k == "setdefaultInit":
            O(e["g"]).initializers.setdefault(e["key"], O(e["v"]))
        elif k in ("setInputsStep", "setOutputsStep"):
            lst = O(e["g"]).inputs if k == "setInputsStep" else O(e["g"]).outputs
            lst[e["a"] : e["b"] : e["step"]] = [O(v) for v in e["vs"]]
        elif k in ("delInputsStep", "delOutputsStep"):
            lst = O(e["g"]).inputs if k == "delInputsStep" else O(e["g"]).outputs
            del lst[e["a"] : e["b"] : e["step"]]
        elif k == "replaceNodes":
            built = []
            for nn in e["news"]:
                ins = [None if x is None else (built[x[0]].outputs[x[1]] if isinstance(x, list) else O(x))
                       for x in nn["inputs"]]  # fmt: skip
                new = ir.Node("", nn["opname"], ins, name=nn["name"], num_outputs=len(nn["outs"]))
                for v, nm in zip(new.outputs, nn["outs"]):
                    v.name = nm
                built.append(new)
            ir.convenience.replace_nodes_and_values(
                O(e["g"]), O(e["anchor"]), [O(n) for n in e["ns"]], built, [O(v) for v in e["ovs"]],
                [built[kk].outputs[jj] for kk, jj in e["nvs"]])  # fmt: skip
        elif k == "insertBefore":
            O(e["g"]).insert_before(O(e["anchor"]), O(e["n"]))
        elif k == "insertAfter":
            O(e["g"]).insert_after(O(e["anchor"]), O(e["n"]))
        elif k == "replaceAllUses":
            O(e["v"]).replace_all_uses_with(O(e["r"]), replace_graph_outputs=e["outs"])
        elif k == "resizeInputs":
            O(e["n"]).resize_inputs(e["size"])
        elif k == "resizeOutputs":
            O(e["n"]).resize_outputs(e["size"])
        elif k == "putFunc":
            mo, f = O(e["mo"]), O(e["f"])
            keys = list(mo.functions.keys())
            e["idx"] = keys.index(f.identifier()) if f.identifier() in keys else None
            mo.functions[f.identifier()] = f
        elif k == "delFunc":
            mo = O(e["mo"])
            keys = list(mo.functions.keys())
            e["idx"] = e["pos"] if e["pos"] < len(keys) else len(keys)
            del mo.functions[keys[e["pos"]] if e["pos"] < len(keys) else ("no", "such", "function")]
        elif k == "setDev":
            cfgs = []
            for d in e["devspec"]:
                specs = tuple(ir.ShardingSpec(value=None if sp["value"] is None else O(sp["value"]), device=(0, 1))
                              for sp in d["specs"])  # fmt: skip
                cfgs.append(ir.NodeDeviceConfiguration(
                    configuration=None if d["cfg"] is None else b.configs[d["cfg"]], sharding_specs=specs,
                    pipeline_stage=d["stage"]))  # fmt: skip
            O(e["n"]).device_configurations = tuple(cfgs)
            e["dev"] = [{"cfg": heap.payload(("cfg", heap.ident(c.configuration), c.pipeline_stage)),
                         "specs": [[None if sp.value is None else heap.ids[id(sp.value)],
                                    heap.payload(("spec", sp.device, repr(sp.index_to_device_group_map),
                                                  repr(sp.sharded_dims)))] for sp in c.sharding_specs]}
                        for c in cfgs]  # fmt: skip
        else:
            raise AssertionError(k)
        return "ok"
    except AssertionError as ex:
        if ex.args == (k,):  # unknown edit kind: a bug of this harness
            raise
        return "raised"  # an `assert` of the library itself (e.g. "Bug: value does not belong to the graph")
    except Exception:  # noqa: BLE001
        return "raised"


_ID_FIELDS = {"v", "o", "n", "g", "f", "mo", "r", "anchor"}
# edits whose effect lies outside the model (in-place state of Attr objects): applied to the real objects and
# judged by the oracle, not sent to the model
ORACLE_ONLY = {"attrMetaSet"}
# the edit kinds only the fourth alphabet has (`IrVerif.Clone.Edit4`, Model/Clone4.lean): histories that contain one
# are run with `runHistory4` / `functionalize4` (driver ops clone.history4 / clone.functionalize4; the driver also
# answers clone.history / clone.functionalize with them when such a kind is present)
EDIT4_KINDS = {"insertInput", "insertOutput", "removeInput", "removeOutput", "delInputAt", "delOutputAt", "setInputAt",
               "setOutputAt", "extendInputs", "extendOutputs", "clearInputs", "clearOutputs", "setdefaultInit",
               "setInputsStep", "setOutputsStep", "delInputsStep", "delOutputsStep", "replaceNodes"}


# --------------------------------------------------------------------------- generators


def gen_type(rng):
    wrap = []
    while rng.random() < 0.2 and len(wrap) < 2:
        wrap.append([rng.choice([2, 3]), rng.choice([None, None, "W"])])
    return {"wrap": wrap, "leaf": 1 if rng.random() < 0.1 else 0, "dtype": rng.choice(_DTYPES),
            "denot": rng.choice([None, None, None, "TENSOR"])}  # fmt: skip


def gen_shape(rng):
    n = rng.randrange(0, 4)
    dims = [rng.choice([1, 2, 3, "N", "M", None]) for _ in range(n)]
    den = [rng.choice([None, None, "DATA_BATCH", "DATA_CHANNEL"]) for _ in range(n)]
    return {"dims": dims, "denots": den, "frozen": rng.random() < 0.1}


class SpecGen:
    def __init__(self, rng, size):
        self.rng = rng
        self.size = size
        self.counter = 0
        self.gcount = 0
        self.ntypes = rng.randrange(0, 3)
        self.nshapes = rng.randrange(0, 3)
        self.nconfigs = rng.choice([0, 0, 1, 2])

    def name(self, p):
        self.counter += 1
        return f"{p}{self.counter}"

    def metas(self, d, p=0.25):
        rng = self.rng
        if rng.random() < p:
            d["props"] = {rng.choice(["a", "b", "c"]): rng.choice(["1", "2"]) for _ in range(rng.randrange(1, 3))}
        if rng.random() < p:
            d["meta"] = {rng.choice(["k", "l", "m"]): rng.choice(["x", "y"]) for _ in range(rng.randrange(1, 3))}
        if rng.random() < p / 2:
            d["meta_invalid"] = [rng.choice(["k", "z"])]

    def value(self, p="v", const=False):
        rng = self.rng
        s = {"name": self.name(p)}
        r = rng.random()
        if r < 0.15 and self.ntypes:
            s["type_ref"] = rng.randrange(self.ntypes)
        elif r < 0.8:
            s["type"] = gen_type(rng)
        r = rng.random()
        if r < 0.15 and self.nshapes:
            s["shape_ref"] = rng.randrange(self.nshapes)
        elif r < 0.7:
            s["shape"] = gen_shape(rng)
        if rng.random() < 0.2:
            s["doc"] = "d" + s["name"]
        if const or rng.random() < 0.05:
            s["const"] = rng.randrange(3)
        self.metas(s)
        return s

    def graph(self, depth, visible, unsorted_ok=True, allow_outer_out=False, in_function=False):
        """visible: names of outer values that may be captured"""
        rng = self.rng
        self.gcount += 1
        g = {"name": f"g{self.gcount}", "inputs": [], "inits": [], "nodes": []}
        for _ in range(rng.randrange(0, 3)):
            g["inputs"].append(self.value("x"))
        for _ in range(rng.randrange(0, 3)):
            g["inits"].append(self.value("w", const=True))
        if rng.random() < 0.1 and g["inits"]:
            # an initializer that is also a graph input
            g["inputs"].append(g["inits"][0])
        local = [v["name"] for v in g["inputs"]] + [v["name"] for v in g["inits"]]
        local = list(dict.fromkeys(local))
        nn = rng.randrange(0, self.size + 1)
        for _ in range(nn):
            n = {"name": self.name("n"), "op": rng.choice(["Add", "Mul", "Relu", "If", "Loop", "Custom"]),
                 "inputs": [], "outs": [], "attrs": []}  # fmt: skip
            pool = local + ([x for x in visible] if rng.random() < 0.5 else [])
            for _ in range(rng.randrange(0, 4)):
                if rng.random() < 0.1 or not pool:
                    n["inputs"].append(None)
                else:
                    n["inputs"].append(rng.choice(pool))
            for _ in range(rng.choice([1, 1, 1, 2, 0])):
                n["outs"].append(self.value("v"))
            if rng.random() < 0.15:
                n["domain"] = "custom"
                n["overload"] = rng.choice(["", "ov"])
                n["version"] = rng.choice([None, 1])
            if rng.random() < 0.15:
                n["doc"] = "doc" + n["name"]
            for _ in range(rng.randrange(0, 3)):
                kind = rng.choice(["int", "str", "ints", "tensor", "int"])
                a = {"name": self.name("a"), "kind": kind}
                a["value"] = {"int": rng.randrange(5), "str": "s", "ints": [1, 2], "tensor": rng.randrange(3)}[kind]
                if rng.random() < 0.1:
                    a["doc"] = "adoc"
                if rng.random() < 0.05:
                    a["key"] = a["name"] + "_key"
                n["attrs"].append(a)
            if in_function and rng.random() < 0.25:
                # a reference to an attribute parameter of the enclosing function
                n["attrs"].append({"name": self.name("r"), "kind": "ref", "value": "alpha"})
            if depth > 0 and rng.random() < 0.35:
                vis = list(dict.fromkeys(visible + local))
                if rng.random() < 0.7:
                    n["attrs"].append({"name": self.name("body"), "kind": "graph",
                                       "value": self.graph(depth - 1, vis, unsorted_ok, allow_outer_out=True,
                                                           in_function=in_function)})  # fmt: skip
                else:
                    n["attrs"].append({"name": self.name("branches"), "kind": "graphs",
                                       "value": [self.graph(depth - 1, vis, unsorted_ok) for _ in range(rng.randrange(1, 3))]})  # fmt: skip
            self.metas(n, 0.2)
            if rng.random() < 0.03:
                n["unname"] = True
            if self.nconfigs and rng.random() < 0.3:
                cands = [x for x in n["inputs"] if x is not None] + [o["name"] for o in n["outs"]]
                if NONLOCAL_SPEC_P and (local or visible) and rng.random() < NONLOCAL_SPEC_P:
                    # a value of this graph (or of an enclosing one) that the node does not touch
                    cands = cands + [rng.choice(local + list(visible))]
                    n["nonlocal_spec"] = True
                n["dev"] = []
                for _ in range(rng.choice([1, 1, 2, 3])):
                    # configurations with nothing to remap (no specs / value None) next to ones with values
                    specs = [{"value": rng.choice(cands + [None]) if cands else None, "device": [0, 1]}
                             for _ in range(rng.choice([0, 0, 1, 2]))]  # fmt: skip
                    n["dev"].append({"cfg": rng.randrange(self.nconfigs), "specs": specs,
                                     "stage": rng.choice([None, 0, 1])})  # fmt: skip
            g["nodes"].append(n)
            local += [o["name"] for o in n["outs"]]
        produced = [o["name"] for n in g["nodes"] for o in n["outs"]]
        cands = produced + [v["name"] for v in g["inputs"]]
        g["outputs"] = []
        for _ in range(rng.randrange(0, 3)):
            if cands:
                g["outputs"].append(rng.choice(cands))
        if allow_outer_out and rng.random() < 0.06:
            # an output that nothing defines: cloning this graph must raise
            g["ghost_outputs"] = [self.name("ghost")]
        if rng.random() < 0.3:
            g["doc"] = "gdoc"
        if rng.random() < 0.3:
            g["opsets"] = {"": 18, "custom": 1}
        self.metas(g, 0.2)
        if LATER_SPEC_P and self.nconfigs and len(g["nodes"]) > 1 and rng.random() < LATER_SPEC_P:
            # finding D342: a sharding spec on a value that a LATER node of this graph defines (the graph stays
            # def-before-use sorted: a spec is an annotation, not a use)
            js = [j for j in range(1, len(g["nodes"])) if g["nodes"][j]["outs"]]
            if js:
                j = rng.choice(js)
                n = g["nodes"][rng.randrange(j)]
                n.setdefault("dev", []).append({"cfg": rng.randrange(self.nconfigs), "stage": rng.choice([None, 0]),
                                                "specs": [{"value": rng.choice(g["nodes"][j]["outs"])["name"],
                                                           "device": [0, 1]}]})  # fmt: skip
                n["nonlocal_spec"] = True
                g["later_spec"] = True
        if unsorted_ok and len(g["nodes"]) > 1 and rng.random() < 0.12 and (
                LATER_SPEC_P or not any(n.get("nonlocal_spec") for n in g["nodes"])):  # fmt: skip
            # shuffled graphs may carry non-local specs (a shuffle can also turn a spec on an earlier value into a
            # spec on a later one)
            rng.shuffle(g["nodes"])
            g["unsorted"] = True
        return g


def gen_spec_failing_after_nested(rng):
    """g1(x): a = Relu(x) -> va; i = If(va){g2}.  g2 holds a node with a nested graph g3 that captures values of
    g1, and then fails to clone: an output nothing defines, or a use before definition.  Target: g2 with
    allow_outer_scope_values=True, so the finished g3' nodes consume the ORIGINAL's outer values when g2 fails."""
    sg = SpecGen(rng, 2)
    x, va = sg.value("x"), sg.value("v")
    g3_nodes = []
    for _ in range(rng.randrange(1, 3)):
        g3_nodes.append({"name": sg.name("n"), "op": "Add", "inputs": [rng.choice([va["name"], x["name"]]), x["name"]],
                         "outs": [sg.value("v")], "attrs": []})  # fmt: skip
    g3 = {"name": "g3", "inputs": [], "inits": [], "nodes": g3_nodes, "outputs": [g3_nodes[-1]["outs"][0]["name"]]}
    loop = {"name": sg.name("n"), "op": "Loop", "inputs": [va["name"]] if rng.random() < 0.5 else [],
            "outs": [sg.value("v")], "attrs": [{"name": "body", "kind": "graph", "value": g3}]}  # fmt: skip
    g2_nodes = [loop]
    outputs = [loop["outs"][0]["name"]]
    g2 = {"name": "g2", "inputs": [], "inits": [], "nodes": g2_nodes, "outputs": outputs}
    how = rng.choice(["ghost", "unsorted", "unsorted", "ok", "ok", "ok"])
    nconfigs = 0
    if how == "ok":
        # the clone succeeds and consumes outer-scope values directly, one of them under a sharding spec
        nconfigs = 1
        cap = {"name": sg.name("n"), "op": "Add", "inputs": [va["name"], x["name"], loop["outs"][0]["name"]],
               "outs": [sg.value("v")], "attrs": [],
               "dev": [{"cfg": 0, "stage": rng.choice([None, 0]),
                        "specs": [{"value": rng.choice([va["name"], x["name"]]), "device": [0, 1]}]},
                       {"cfg": 0, "stage": 1, "specs": []}]}  # fmt: skip
        g2_nodes.append(cap)
        outputs.append(cap["outs"][0]["name"])
    elif how == "ghost":
        g2["ghost_outputs"] = [sg.name("ghost")]
    else:
        d = {"name": sg.name("n"), "op": "Relu", "inputs": [loop["outs"][0]["name"]], "outs": [sg.value("v")], "attrs": []}
        b = {"name": sg.name("n"), "op": "Neg", "inputs": [d["outs"][0]["name"]], "outs": [sg.value("v")], "attrs": []}
        g2_nodes += [b, d]  # b uses d's output before d
        g2["unsorted"] = True
    g1 = {"name": "g1", "inputs": [x], "inits": [], "outputs": [],
          "nodes": [{"name": sg.name("n"), "op": "Relu", "inputs": [x["name"]], "outs": [va], "attrs": []},
                    {"name": sg.name("n"), "op": "If", "inputs": [va["name"]], "outs": [sg.value("v")],
                     "attrs": [{"name": "then_branch", "kind": "graph", "value": g2}]}]}  # fmt: skip
    g1["outputs"] = [g1["nodes"][1]["outs"][0]["name"]]
    return {"ntensors": 3, "type_pool": [gen_type(rng) for _ in range(sg.ntypes)],
            "shape_pool": [gen_shape(rng) for _ in range(sg.nshapes)], "nconfigs": nconfigs,
            **({"ir_version": 11} if nconfigs else {}), "graph": g1,
            "functions": [], "views": [],
            "target": {"kind": "subgraph", "name": "g2", "allow": rng.random() < 0.85}}  # fmt: skip


def gen_spec_nonlocal_spec(rng):
    """g1(x, y): a = Relu(x) -> va; b = Neg(va) -> vb with a sharding spec on a value that b does not touch (x, y or
    va's sibling).  Targets: the graph / the model (the spec must follow the value map, D340) or a view of b alone (the
    spec's value lies outside the cloned region: clone must raise, D341)."""
    sg = SpecGen(rng, 2)
    x, y, va, vb, vc = sg.value("x"), sg.value("x"), sg.value("v"), sg.value("v"), sg.value("v")
    tgt = rng.choice([x["name"], y["name"], vc["name"]])
    specs = [{"value": tgt, "device": [0, 1]}]
    if rng.random() < 0.5:
        specs.append({"value": rng.choice([va["name"], vb["name"]]), "device": [0, 1]})
        rng.shuffle(specs)
    nodes = [{"name": sg.name("n"), "op": "Relu", "inputs": [x["name"]], "outs": [va], "attrs": []},
             {"name": sg.name("n"), "op": "Abs", "inputs": [va["name"]], "outs": [vc], "attrs": []},
             {"name": sg.name("n"), "op": "Neg", "inputs": [va["name"]], "outs": [vb], "attrs": [], "nonlocal_spec": True,
              "dev": [{"cfg": 0, "stage": rng.choice([None, 0]), "specs": specs}]}]  # fmt: skip
    g1 = {"name": "g1", "inputs": [x, y], "inits": [], "nodes": nodes, "outputs": [vb["name"], vc["name"]]}
    spec = {"ntensors": 3, "type_pool": [gen_type(rng) for _ in range(sg.ntypes)],
            "shape_pool": [gen_shape(rng) for _ in range(sg.nshapes)], "nconfigs": 1, "ir_version": 11, "graph": g1,
            "functions": [], "views": []}
    r = rng.random()
    if r < 0.5:
        spec["views"].append({"name": "view0", "of": "g1", "nodes": [2], "inputs": [va["name"]], "inits": [],
                              "outputs": [vb["name"]]})
        spec["target"] = {"kind": "view", "name": "view0"}
    elif r < 0.8:
        spec["target"] = {"kind": "graph", "name": "g1", "allow": rng.random() < 0.3}
    else:
        spec["target"] = {"kind": rng.choice(["model", "functionalize"])}
    return spec


def gen_spec_irregular(rng):
    """the two `irregular` walker verdicts that are reachable through the public API (C13_irregular_reachable):
    'own-output-as-input': a GraphView that lists the output of one of its own nodes among its inputs (the value is
    cloned twice: as a graph input and as a node output; the value map's binding is overwritten);
    'stale-init-key': a GraphView made with initializers [w, x] whose second value is renamed to w's name afterwards
    (the keys of the view's dict go stale; Graph(initializers=...) in the cloner files the clones under their NAMES, so
    the clone has one initializer where the source has two: finding D346)."""
    sg = SpecGen(rng, 2)
    x, va, vb = sg.value("x"), sg.value("v"), sg.value("v")
    base = {"ntensors": 3, "type_pool": [gen_type(rng) for _ in range(sg.ntypes)],
            "shape_pool": [gen_shape(rng) for _ in range(sg.nshapes)], "nconfigs": 0, "functions": []}
    if rng.random() < 0.5:
        nodes = [{"name": sg.name("n"), "op": "Relu", "inputs": [x["name"]], "outs": [va], "attrs": []},
                 {"name": sg.name("n"), "op": "Neg", "inputs": [va["name"]], "outs": [vb], "attrs": []}]
        g1 = {"name": "g1", "inputs": [x], "inits": [], "nodes": nodes, "outputs": [vb["name"]]}
        view = {"name": "view0", "of": "g1", "nodes": [0, 1], "inputs": [x["name"], va["name"]], "inits": [],
                "outputs": [vb["name"]]}
        kind = "own-output-as-input"
    else:
        w = sg.value("w")
        w["const"] = 0
        nodes = [{"name": sg.name("n"), "op": "Add", "inputs": [w["name"], x["name"]], "outs": [va], "attrs": []}]
        g1 = {"name": "g1", "inputs": [x], "inits": [w], "nodes": nodes, "outputs": [va["name"]]}
        view = {"name": "view0", "of": "g1", "nodes": [0], "inputs": [], "inits": [w["name"], x["name"]],
                "outputs": [va["name"]], "rename_after": [[x["name"], w["name"]]]}
        kind = "stale-init-key"
    return {**base, "graph": g1, "views": [view], "target": {"kind": "view", "name": "view0"}, "irregular": kind}


def random_sub(rng):
    import random

    return random.Random(rng.randrange(1 << 30))


def gen_spec_later_spec(rng):
    """finding D342.  g1(x): a = Relu(x) -> va; b = Neg(va) -> vb with a sharding spec on vc; c = Abs(va) -> vc: the
    spec targets the output of a LATER node of a closed, def-before-use sorted graph.  Today: allow=True keeps the spec
    on the ORIGINAL's vc, allow=False (graph / model / functionalize) raises."""
    sg = SpecGen(rng, 2)
    x, va, vb, vc = sg.value("x"), sg.value("v"), sg.value("v"), sg.value("v")
    specs = [{"value": vc["name"], "device": [0, 1]}]
    if rng.random() < 0.5:
        specs.append({"value": rng.choice([va["name"], vb["name"]]), "device": [0, 1]})
        rng.shuffle(specs)
    nodes = [{"name": sg.name("n"), "op": "Relu", "inputs": [x["name"]], "outs": [va], "attrs": []},
             {"name": sg.name("n"), "op": "Neg", "inputs": [va["name"]], "outs": [vb], "attrs": [], "nonlocal_spec": True,
              "dev": [{"cfg": 0, "stage": rng.choice([None, 0]), "specs": specs}]},
             {"name": sg.name("n"), "op": "Abs", "inputs": [va["name"]], "outs": [vc], "attrs": []}]  # fmt: skip
    g1 = {"name": "g1", "inputs": [x], "inits": [], "nodes": nodes, "outputs": [vb["name"], vc["name"]],
          "later_spec": True}
    spec = {"ntensors": 3, "type_pool": [gen_type(rng) for _ in range(sg.ntypes)],
            "shape_pool": [gen_shape(rng) for _ in range(sg.nshapes)], "nconfigs": 1, "ir_version": 11, "graph": g1,
            "functions": [], "views": []}
    r = rng.random()
    if r < 0.7:
        spec["target"] = {"kind": "graph", "name": "g1", "allow": rng.random() < 0.6}
    else:
        spec["target"] = {"kind": rng.choice(["model", "functionalize"])}
    return spec


def gen_spec(rng, size=4):
    if NONLOCAL_SPEC_P and rng.random() < 0.04:
        return gen_spec_nonlocal_spec(rng)
    if LATER_SPEC_P and rng.random() < 0.03:
        return gen_spec_later_spec(rng)
    if rng.random() < 0.02:
        return gen_spec_irregular(rng)
    if rng.random() < 0.08:
        # a dedicated stream for C13_functionalize_any / C13_functionalize_hooks: any model, functionalize(pipeline)
        sub = random_sub(rng)
        spec = gen_spec(sub, size)
        spec["target"] = {"kind": "functionalize", "stages": gen_stages(rng)}
        spec.pop("irregular", None)  # (the irregular shapes are about the view target)
        return spec
    if rng.random() < 0.1:
        return gen_spec_failing_after_nested(rng)
    sg = SpecGen(rng, size)
    spec = {
        "ntensors": 3,
        "type_pool": [gen_type(rng) for _ in range(sg.ntypes)],
        "shape_pool": [gen_shape(rng) for _ in range(sg.nshapes)],
        "nconfigs": sg.nconfigs,
        "graph": sg.graph(2, []),
        "functions": [],
        "views": [],
    }
    if sg.nconfigs:
        spec["ir_version"] = 11
    for k in range(rng.choice([0, 0, 1, 2])):
        f = {"domain": "fdom", "name": f"f{k}", "graph": sg.graph(1, [], in_function=True), "attrs": []}
        if rng.random() < 0.5:
            f["attrs"].append({"name": "alpha", "kind": "int", "value": 1})
        if rng.random() < 0.5:
            # an attribute DECLARATION of type GRAPH / GRAPHS with a default value
            if rng.random() < 0.6:
                f["attrs"].append({"name": "default_body", "kind": "graph", "value": sg.graph(0, [])})
            else:
                f["attrs"].append({"name": "default_branches", "kind": "graphs",
                                   "value": [sg.graph(0, []) for _ in range(rng.randrange(1, 3))]})  # fmt: skip
        spec["functions"].append(f)
    if rng.random() < 0.3:
        spec["model_props"] = {"mk": "mv"}
    if rng.random() < 0.2:
        spec["model_meta"] = {"mm": "x"}
    # what to clone
    subs = []

    def collect(g, depth):
        for n in g["nodes"]:
            for a in n["attrs"]:
                if a["kind"] == "graph":
                    subs.append(a["value"]["name"])
                    collect(a["value"], depth + 1)
                elif a["kind"] == "graphs":
                    for x in a["value"]:
                        subs.append(x["name"])
                        collect(x, depth + 1)

    collect(spec["graph"], 0)
    r = rng.random()
    if r < 0.2:
        spec["target"] = {"kind": "model"}
    elif r < 0.35:
        spec["target"] = {"kind": "graph", "name": spec["graph"]["name"], "allow": rng.random() < 0.4}
    elif r < 0.65 and subs:
        spec["target"] = {"kind": "subgraph", "name": rng.choice(subs), "allow": rng.random() < 0.8}
    elif r < 0.75 and spec["functions"]:
        spec["target"] = {"kind": "function", "index": rng.randrange(len(spec["functions"]))}
    elif r < 0.9 and spec["graph"]["nodes"]:
        g = spec["graph"]
        k = len(g["nodes"])
        lo = rng.randrange(k)
        hi = rng.randrange(lo, k)
        idx = list(range(lo, hi + 1))
        inside = [o["name"] for i in idx for o in g["nodes"][i]["outs"]]
        needed = [x for i in idx for x in g["nodes"][i]["inputs"] if x is not None and x not in inside]
        needed = list(dict.fromkeys(needed))
        init_names = {v["name"] for v in g["inits"]}
        if rng.random() < 0.2 and needed:
            needed = needed[:-1]  # a sloppy view: one outer reference is left uncovered
        outs = [x for x in inside if rng.random() < 0.5]
        spec["views"].append({
            "name": "view0", "of": g["name"], "nodes": idx,
            "inputs": [x for x in needed if x not in init_names],
            "inits": [x for x in needed if x in init_names],
            "outputs": outs,
        })  # fmt: skip
        spec["target"] = {"kind": "view", "name": "view0"}
    else:
        spec["target"] = {"kind": "functionalize" if rng.random() < 0.5 else "model"}
    if spec["target"]["kind"] == "functionalize" and rng.random() < 0.6:
        spec["target"]["stages"] = gen_stages(rng)
    if rng.random() < 0.15:
        spec["target"]["deep"] = True
    return spec


def gen_stages(rng):
    """a pipeline for `functionalize`: Sequential / PassManager of in-place stages, functional 'stamp' stages that
    return a NEW ir.Model around the graph they were handed, destructive stages (edit, then return a new model).
    Mostly: a functional first stage followed by in-place stages — the pipeline then DECLARES itself functional
    (Sequential derives changes_input from its first pass only)."""
    r = rng.random()
    if r < 0.55:
        kinds = ["rewrap"] + ["inplace"] * rng.randrange(1, 3)
    elif r < 0.7:
        kinds = ["inplace"] * rng.randrange(1, 3)
    elif r < 0.8:
        kinds = ["inplace", "rewrap"] + (["inplace"] if rng.random() < 0.5 else [])
    elif r < 0.9:
        kinds = ["destructive"] + ["inplace"] * rng.randrange(0, 2)
    else:
        kinds = ["rewrap", "rewrap", "inplace"]
    manager = rng.random() < 0.4
    plan = {"kinds": kinds, "manager": manager, "steps": rng.choice([1, 2, 2]) if manager else 1}
    if rng.random() < 0.45:
        # C13_functionalize_hooks: requires() / ensures() hooks that edit the model they are handed and may raise, the
        # `modified` flags the passes report (True in the first `mod_rounds` rounds) and PassManager's early_stop
        if manager:
            plan["steps"] = rng.choice([1, 2, 3])
        ncalls = plan["steps"] * len(kinds)
        r = rng.random()
        if r < 0.5:
            raise_at = None
        elif r < 0.8:
            raise_at = [rng.choice(["req", "ens"]), rng.randrange(ncalls)]
        else:
            raise_at = [rng.choice(["outer_req", "outer_ens"]), None]
        plan["hooks"] = {"early_stop": manager and rng.random() < 0.5, "mod_rounds": rng.randrange(0, plan["steps"] + 1),
                         "raise": raise_at, "outer": rng.random() < 0.5 or bool(raise_at and raise_at[0].startswith("outer"))}  # fmt: skip
    return plan


def gen_edits(rng, heap: Heap, b: Built, side_root, n_edits):
    """edits whose arguments are objects of `side_root` (impl raw ids)"""
    graphs, nodes, values = walk(side_root)
    graphs = [g for g in graphs if isinstance(g, ir.Graph)]
    R = heap.ids  # noqa: N806
    ids = lambda xs: [R[id(x)] for x in xs if id(x) in R]  # noqa: E731
    gv, nv, vv = ids(graphs), ids(nodes), ids(values)
    owners = gv + nv + vv
    fv, mv = [], []
    if isinstance(side_root, ir.Model) and id(side_root) in R:
        owners.append(R[id(side_root)])
        mv = [R[id(side_root)]]
        fv = ids(list(side_root.functions.values()))
    elif isinstance(side_root, ir.Function) and id(side_root) in R:
        fv = [R[id(side_root)]]
    edits = []
    fresh = 0
    for _ in range(n_edits):
        kinds = []
        if vv:
            kinds += ["setName", "setType", "setDtype", "setDtype", "setTypeDenot", "setShape", "setDim", "setDim",
                      "setDimDenot", "setConst", "setDoc"]  # fmt: skip
        if owners:
            kinds += ["dictSet", "dictSet", "dictDel", "metaInvalidate"]
        if nv:
            kinds += ["replaceInput", "replaceInput", "setNodeName", "setOpType", "setAttr", "delAttr", "attrMetaSet"]
        if nv:
            kinds += ["setNodeDomain", "setNodeOverload", "setNodeVersion", "setNodeDoc", "setDev"]
        if fv:
            kinds += ["setFuncName"]
        if mv:
            kinds += ["setModelHeader"]
        if gv:
            kinds += ["setGraphName", "setOpset", "popOutput", "setGraphDoc"]
            if nv:
                kinds += ["removeNode", "appendNode"]
            if vv:
                kinds += ["appendOutput"]
        # the extended alphabet (Edit2): about a third of the edits
        kinds2 = []
        if gv:
            kinds2 += ["popInput", "delInit", "sort"]
            if vv:
                kinds2 += ["appendInput", "setInit", "setInit", "registerInit"]
            if nv:
                kinds2 += ["insertBefore", "insertAfter"]
        if vv:
            kinds2 += ["replaceAllUses", "replaceAllUses"]
        if nv:
            kinds2 += ["resizeInputs", "resizeOutputs"]
        if mv and fv:
            kinds2 += ["putFunc", "delFunc"]
        # the third alphabet (Edit3): slices of graph.inputs / outputs, initializers.pop / clear / update, extend,
        # remove(safe=True), convenience.replace_all_uses_with with several pairs, convenience.rename_values
        kinds3 = []
        if gv:
            kinds3 += ["popInit", "clearInits"]
            if vv:
                kinds3 += ["setInputsSlice", "setOutputsSlice", "updateInits"]
            if nv:
                kinds3 += ["extendNodes", "removeSafe", "removeSafe", "replaceNode", "replaceNode"]
        if vv:
            kinds3 += ["rauwMulti", "renameValues", "renameValues"]
        # the fourth alphabet (Edit4): item-level calls on graph.inputs / outputs, initializers.setdefault, extended
        # slices, replace_nodes_and_values with several old / new nodes (share: env C13_EDIT4_P, default 0.15)
        kinds4 = []
        if gv:
            kinds4 += ["delInputAt", "delOutputAt", "clearInputs", "clearOutputs", "delInputsStep", "delOutputsStep"]
            if vv:
                kinds4 += ["insertInput", "insertOutput", "removeInput", "removeOutput", "setInputAt", "setOutputAt",
                           "extendInputs", "extendOutputs", "setdefaultInit", "setdefaultInit", "setInputsStep",
                           "setInputsStep", "setOutputsStep", "setOutputsStep"]  # fmt: skip
            if nv:
                kinds4 += ["replaceNodes", "replaceNodes", "replaceNodes"]
        tgt4 = b.spec.get("target", {}) if isinstance(b.spec, dict) else {}
        if tgt4.get("kind") == "functionalize" and tgt4.get("stages"):
            kinds4 = []  # staged pipelines are modelled over Edit2 (`functionalizeAny`): no calls of the later alphabets
        if not kinds and not kinds2:
            break
        edit4_p = float(__import__("os").environ.get("C13_EDIT4_P", "0.15") or 0)
        if kinds4 and edit4_p and rng.random() < edit4_p:
            k = rng.choice(kinds4)
        elif kinds3 and EDIT3_P and rng.random() < EDIT3_P:
            k = rng.choice(kinds3)
        else:
            k = rng.choice(kinds2) if kinds2 and (not kinds or rng.random() < 0.35) else rng.choice(kinds)
        e = {"e": k}
        if k == "setName":
            e.update(v=rng.choice(vv), s=rng.choice([f"renamed{fresh}", "w1", "x1", "", None]))
            fresh += 1
        elif k == "setType":
            e.update(v=rng.choice(vv), t=rng.choice([None, gen_type(rng), gen_type(rng)]))
        elif k == "setDtype":
            e.update(v=rng.choice(vv), d=rng.choice(_DTYPES))
        elif k == "setTypeDenot":
            e.update(v=rng.choice(vv), s=rng.choice([None, "IMAGE"]))
        elif k == "setShape":
            e.update(v=rng.choice(vv), t=rng.choice([None, gen_shape(rng), gen_shape(rng)]))
        elif k == "setDim":
            e.update(v=rng.choice(vv), i=rng.randrange(0, 3), d=rng.choice([5, 7, "K", None]))
        elif k == "setDimDenot":
            e.update(v=rng.choice(vv), i=rng.randrange(0, 3), s=rng.choice([None, "DATA_FEATURE"]))
        elif k == "setConst":
            e.update(v=rng.choice(vv), t=rng.choice([None, 0, 1, 2]))
        elif k == "setDoc":
            e.update(v=rng.choice(vv), s=rng.choice([None, "newdoc"]))
        elif k == "dictSet":
            e.update(o=rng.choice(owners), which=rng.choice(["props", "mstore"]), key=rng.choice(["a", "k", "new"]),
                     x=rng.choice(["1", "edited"]))  # fmt: skip
        elif k == "dictDel":
            e.update(o=rng.choice(owners), which=rng.choice(["props", "mstore"]), key=rng.choice(["a", "b", "k", "l"]))
        elif k == "metaInvalidate":
            e.update(o=rng.choice(owners), key=rng.choice(["k", "l", "q"]))
        elif k == "replaceInput":
            e.update(n=rng.choice(nv), i=rng.randrange(0, 3), v=rng.choice(vv + [None]) if vv else None)
        elif k == "setNodeName":
            e.update(n=rng.choice(nv), s=rng.choice([None, f"nn{fresh}"]))
            fresh += 1
        elif k == "setOpType":
            e.update(n=rng.choice(nv), s=rng.choice(["Sub", "Neg"]))
        elif k == "setAttr":
            n = rng.choice(nv)
            keys = list(heap.obj(n).attributes.keys())
            e.update(n=n, key=rng.choice(keys + ["fresh_attr"]), val=rng.randrange(100))
        elif k == "delAttr":
            n = rng.choice(nv)
            keys = list(heap.obj(n).attributes.keys())
            e.update(n=n, key=rng.choice(keys + ["missing"]))
        elif k == "attrMetaSet":
            n = rng.choice(nv)
            keys = list(heap.obj(n).attributes.keys())
            e.update(n=n, key=rng.choice(keys + ["missing"]), mk="z", x="1")
        elif k == "setGraphName":
            e.update(g=rng.choice(gv), s=rng.choice([None, "gg"]))
        elif k == "setOpset":
            e.update(g=rng.choice(gv), dom=rng.choice(["", "custom", "new.domain"]), ver=rng.choice([1, 20]))
        elif k == "removeNode":
            e.update(g=rng.choice(gv), n=rng.choice(nv))
        elif k == "appendNode":
            e.update(g=rng.choice(gv), name=f"app{fresh}", opname="Identity",
                     inputs=[rng.choice(vv + [None]) for _ in range(rng.randrange(0, 3))] if vv else [],
                     outs=[f"app{fresh}_o{j}" for j in range(rng.randrange(0, 3))])  # fmt: skip
            fresh += 1
        elif k == "appendOutput":
            e.update(g=rng.choice(gv), v=rng.choice(vv))
        elif k == "popOutput":
            e.update(g=rng.choice(gv))
        elif k == "setNodeDomain":
            e.update(n=rng.choice(nv), s=rng.choice(["", "custom", "other.domain"]))
        elif k == "setNodeOverload":
            e.update(n=rng.choice(nv), s=rng.choice(["", "ov2"]))
        elif k == "setNodeVersion":
            e.update(n=rng.choice(nv), ver=rng.choice([None, 1, 21]))
        elif k == "setNodeDoc":
            e.update(n=rng.choice(nv), s=rng.choice([None, "node doc"]))
        elif k == "setGraphDoc":
            e.update(g=rng.choice(gv), s=rng.choice([None, "graph doc"]))
        elif k == "setFuncName":
            e.update(f=rng.choice(fv), s=f"fn{fresh}")
            fresh += 1
        elif k == "setModelHeader":
            e.update(mo=rng.choice(mv), field=rng.choice(["producer_name", "doc_string", "domain"]),
                     s=rng.choice([None, f"hdr{fresh}"]))  # fmt: skip
            fresh += 1
        elif k == "appendInput":
            e.update(g=rng.choice(gv), v=rng.choice(vv))
        elif k == "popInput":
            e.update(g=rng.choice(gv))
        elif k in ("setInit", "registerInit"):
            g = rng.choice(gv)
            gr = heap.obj(g)
            # mostly values that can be initializers (no producer): inputs / initializers of that graph
            cands = [R[id(x)] for x in list(gr.inputs) + list(gr.initializers.values()) if id(x) in R]
            v = rng.choice(cands) if cands and rng.random() < 0.7 else rng.choice(vv)
            e.update(g=g, v=v)
            if k == "setInit":
                nm = heap.obj(v).name
                e.update(key=nm if (nm and rng.random() < 0.75) else rng.choice(["w1", "fresh_key", ""]))
        elif k == "delInit":
            g = rng.choice(gv)
            e.update(g=g, key=rng.choice(list(heap.obj(g).initializers.keys()) + ["missing"]))
        elif k == "sort":
            plain = [g for g in gv if not any(a.type in (ir.AttributeType.GRAPH, ir.AttributeType.GRAPHS)
                                              for n in heap.obj(g) for a in n.attributes.values() if not a.is_ref())]
            e.update(g=rng.choice(plain) if plain and rng.random() < 0.5 else rng.choice(gv))
            nested = [x for x in walk(heap.obj(e["g"]))[0][1:] if isinstance(x, ir.Graph) and len(x) > 1 and id(x) in R]
            if nested and rng.random() < 0.6:
                # un-sort a nested graph first (its first node is moved to the end), so that sorting the outer graph
                # has something to re-link in the nest
                ng = rng.choice(nested)
                first = next(iter(ng))
                if id(first) in R:
                    edits.append({"e": "extendNodes", "g": R[id(ng)], "ns": [R[id(first)]]})
        elif k in ("setInputsSlice", "setOutputsSlice"):
            g = rng.choice(gv)
            gr = heap.obj(g)
            cur = list(gr.inputs if k == "setInputsSlice" else gr.outputs)
            a = rng.randrange(0, len(cur) + 1)
            bb = rng.randrange(a, len(cur) + 1)
            cands = [R[id(x)] for x in list(gr.inputs) + list(gr.initializers.values()) + list(gr.outputs) if id(x) in R]
            vs = [rng.choice(cands) if cands and rng.random() < 0.7 else rng.choice(vv) for _ in range(rng.randrange(0, 3))]
            e.update(g=g, a=a, b=bb, vs=vs)
        elif k == "popInit":
            g = rng.choice(gv)
            e.update(g=g, key=rng.choice(list(heap.obj(g).initializers.keys()) + ["missing"]))
        elif k == "clearInits":
            e.update(g=rng.choice(gv))
        elif k == "updateInits":
            g = rng.choice(gv)
            gr = heap.obj(g)
            cands = [R[id(x)] for x in list(gr.inputs) + list(gr.initializers.values()) if id(x) in R]
            items = []
            for _ in range(rng.randrange(1, 3)):
                v = rng.choice(cands) if cands and rng.random() < 0.75 else rng.choice(vv)
                nm = heap.obj(v).name
                items.append([nm if (nm and rng.random() < 0.8) else rng.choice(["w1", "fresh_key", ""]), v])
            e.update(g=g, items=items)
        elif k in ("extendNodes", "removeSafe"):
            g = rng.choice(gv)
            own = [R[id(x)] for x in heap.obj(g) if id(x) in R]
            ns = [rng.choice(own) if own and rng.random() < 0.8 else rng.choice(nv) for _ in range(rng.randrange(1, 3))]
            e.update(g=g, ns=ns)
        elif k == "replaceNode":
            g = rng.choice(gv)
            own = [R[id(x)] for x in heap.obj(g) if id(x) in R]
            n = rng.choice(own) if own and rng.random() < 0.85 else rng.choice(nv)
            node = heap.obj(n)
            ins = [None if x is None else R.get(id(x)) for x in node.inputs]
            if any(x is None and y is not None for x, y in zip(ins, node.inputs)) or rng.random() < 0.2:
                ins = [rng.choice(vv + [None]) for _ in range(rng.randrange(0, 3))] if vv else []
            k_out = len(node.outputs) if rng.random() < 0.85 else rng.randrange(0, 3)
            e.update(g=g, n=n, name=f"rep{fresh}", opname="Identity", inputs=ins,
                     outs=[f"rep{fresh}_o{j}" for j in range(k_out)])
            fresh += 1
        elif k == "rauwMulti":
            outs_v = [R[id(x)] for g in gv for x in heap.obj(g).outputs if id(x) in R]
            pairs = [[rng.choice(outs_v) if outs_v and rng.random() < 0.5 else rng.choice(vv), rng.choice(vv)]
                     for _ in range(rng.randrange(1, 3))]
            if rng.random() < 0.5:
                # a chain: the second pair replaces the replacement of the first (whether it is accepted depends on
                # the ownership effect of the first pair, which the call must simulate before applying anything)
                pairs = [pairs[0], [pairs[0][1], rng.choice(vv)]]
            owned_by = {}
            for g in gv:
                gr = heap.obj(g)
                for x in list(gr.inputs) + list(gr.outputs) + list(gr.initializers.values()):
                    if id(x) in R:
                        owned_by.setdefault(R[id(x)], g)
            outs_flag = rng.random() < 0.75
            if len(gv) > 1 and rng.random() < 0.4:
                # an ownership chain: `a` is an output of G, `b` a free value, `c` is owned by ANOTHER graph.  The first
                # pair makes `b` an output of G, so the second pair must be refused - before anything is applied
                g = rng.choice(gv)
                a_c = [R[id(x)] for x in heap.obj(g).outputs if id(x) in R]
                b_c = [v for v in vv if v not in owned_by]
                c_c = [v for v, og in owned_by.items() if og != g]
                if a_c and b_c and c_c:
                    bb = rng.choice(b_c)
                    pairs = [[rng.choice(a_c), bb], [bb, rng.choice(c_c)]]
                    outs_flag = True
            e.update(pairs=pairs, outs=outs_flag)
        elif k == "renameValues":
            pairs = []
            for _ in range(rng.randrange(1, 3)):
                pairs.append([rng.choice(vv), rng.choice([f"rn{fresh}", "w1", "x1", ""])])
                fresh += 1
            if len(pairs) == 2 and rng.random() < 0.3:
                # a swap of two names
                n0, n1 = heap.obj(pairs[0][0]).name, heap.obj(pairs[1][0]).name
                if n0 and n1:
                    pairs = [[pairs[0][0], n1], [pairs[1][0], n0]]
            e.update(pairs=pairs)
        elif k in ("insertInput", "insertOutput", "removeInput", "removeOutput", "delInputAt", "delOutputAt", "setInputAt",
                   "setOutputAt", "extendInputs", "extendOutputs", "clearInputs", "clearOutputs", "setInputsStep",
                   "setOutputsStep", "delInputsStep", "delOutputsStep"):  # fmt: skip
            g = rng.choice(gv)
            gr = heap.obj(g)
            cur = list(gr.inputs if "Input" in k else gr.outputs)
            n_cur = len(cur)
            cands = [R[id(x)] for x in list(gr.inputs) + list(gr.initializers.values()) + list(gr.outputs) if id(x) in R]
            pick = lambda: rng.choice(cands) if cands and rng.random() < 0.7 else rng.choice(vv)  # noqa: E731
            e.update(g=g)
            if k.startswith("insert"):
                e.update(i=rng.randrange(-n_cur - 2, n_cur + 3), v=pick())
            elif k.startswith("remove"):
                listed = [R[id(x)] for x in cur if id(x) in R]
                e.update(v=rng.choice(listed) if listed and rng.random() < 0.75 else rng.choice(vv))
            elif k.endswith("At"):
                e.update(i=rng.randrange(-n_cur - 1, n_cur + 1))
                if k.startswith("set"):
                    e.update(v=pick())
            elif k.startswith("extend"):
                e.update(vs=[pick() for _ in range(rng.randrange(0, 3))])
            elif k.endswith("Step"):
                bound = lambda: None if rng.random() < 0.35 else rng.randrange(-n_cur - 1, n_cur + 2)  # noqa: E731
                a, bb = bound(), bound()
                step = rng.choice([2, 2, -1, -1, -2, 3, 1, 0] if k.startswith("set") else [1, 1, 2, 2, -1, -2, 3, 0])
                e.update(a=a, b=bb, step=step)
                if k.startswith("set"):
                    n_sel = len(range(*slice(a, bb, step).indices(n_cur))) if step else 0
                    # an extended slice takes exactly as many values as it selects (mostly respected)
                    e.update(vs=[pick() for _ in range(n_sel if rng.random() < 0.75 else rng.randrange(0, 3))])
        elif k == "setdefaultInit":
            g = rng.choice(gv)
            gr = heap.obj(g)
            cands = [R[id(x)] for x in list(gr.inputs) + list(gr.initializers.values()) if id(x) in R]
            v = rng.choice(cands) if cands and rng.random() < 0.7 else rng.choice(vv)
            nm = heap.obj(v).name
            keys = list(gr.initializers.keys())
            e.update(g=g, v=v, key=nm if (nm and rng.random() < 0.6) else rng.choice(keys + ["w1", "fresh_key", ""]))
        elif k == "replaceNodes":
            g = rng.choice(gv)
            own = [R[id(x)] for x in heap.obj(g) if id(x) in R]
            n_old = rng.randrange(1, 3)
            if own and rng.random() < 0.85:
                p0 = rng.randrange(len(own))
                olds = own[p0 : p0 + n_old]  # consecutive nodes of the graph
            else:
                olds = [rng.choice(nv) for _ in range(n_old)]
            anchor = olds[-1] if rng.random() < 0.8 else rng.choice(own or nv)
            ovs = [R[id(x)] for n in olds for x in heap.obj(n).outputs if id(x) in R]
            first = heap.obj(olds[0])
            ins = [None if x is None else R.get(id(x)) for x in first.inputs]
            if any(x is None and y is not None for x, y in zip(ins, first.inputs)) or rng.random() < 0.2:
                ins = [rng.choice(vv + [None]) for _ in range(rng.randrange(0, 3))] if vv else []
            n_new = rng.randrange(1, 4)
            news = []
            for j in range(n_new):
                last = j == n_new - 1
                k_out = len(ovs) if (last and rng.random() < 0.85) else rng.randrange(1 if not last else 0, 3)
                nins = ins if j == 0 else [[j - 1, 0]] + ([rng.choice(vv + [None])] if vv and rng.random() < 0.3 else [])
                news.append({"name": f"rpn{fresh}_{j}", "opname": "Identity", "inputs": nins,
                             "outs": [f"rpn{fresh}_{j}_o{i}" for i in range(k_out)]})  # fmt: skip
            n_last = len(news[-1]["outs"])
            if n_last and rng.random() < 0.85:
                nvs = [[n_new - 1, i] for i in range(min(n_last, len(ovs)))]
                if rng.random() < 0.85:
                    ovs = ovs[: len(nvs)]
            else:
                nvs = [[kk, i] for kk, nn in enumerate(news) for i in range(len(nn["outs"]))][: rng.randrange(0, 3)]
            e.update(g=g, anchor=anchor, ns=olds, news=news, ovs=ovs, nvs=nvs)
            fresh += 1
        elif k in ("insertBefore", "insertAfter"):
            g = rng.choice(gv)
            own = [R[id(x)] for x in heap.obj(g) if id(x) in R]
            e.update(g=g, anchor=rng.choice(own) if own and rng.random() < 0.85 else rng.choice(nv),
                     n=rng.choice(own) if own and rng.random() < 0.5 else rng.choice(nv))
        elif k == "replaceAllUses":
            e.update(v=rng.choice(vv), r=rng.choice(vv), outs=rng.random() < 0.6)
        elif k == "resizeInputs":
            e.update(n=rng.choice(nv), size=rng.randrange(0, 5))
        elif k == "resizeOutputs":
            e.update(n=rng.choice(nv), size=rng.randrange(0, 4))
        elif k == "putFunc":
            e.update(mo=rng.choice(mv), f=rng.choice(fv))
        elif k == "delFunc":
            e.update(mo=rng.choice(mv), pos=rng.randrange(0, 3))
        elif k == "setDev":
            n = rng.choice(nv)
            node = heap.obj(n)
            cands = [R[id(x)] for x in list(node.inputs) + list(node.outputs) if x is not None and id(x) in R]
            e.update(n=n, devspec=[
                {"cfg": rng.randrange(len(b.configs)) if b.configs else None, "stage": rng.choice([None, 0, 1]),
                 "specs": [{"value": rng.choice(cands + [None]) if cands else None} for _ in range(rng.randrange(0, 3))]}
                for _ in range(rng.randrange(0, 3))])  # fmt: skip
        edits.append(e)
    return edits


# --------------------------------------------------------------------------- one case, real side


def real_case(spec, histories_seed, n_hist, n_edits, out, fixed_plans=None):
    """Runs the real code.  Returns a dict with everything the model comparison needs."""
    import random

    rng = random.Random(histories_seed)
    t = spec["target"]
    kind = "model" if t["kind"] == "functionalize" else t["kind"]
    tag = f"{t['kind']}{':allow' if t.get('allow') else ''}{':deep' if t.get('deep') else ''}"

    def fresh_build():
        b = Built(spec)
        heap = Heap()
        for r in b.roots():
            heap.add_root(r)
        src = b.target()
        src_id = heap.add_root(src)
        for t in b.tensors:  # every tensor `setConst` may assign is a cell of the initial heap
            heap.ref("tensor", t)
        # serialization renames the tensor of every initializer to the value's name (serde.py
        # serialize_graph_into): do it once up front so that later serializations by the oracle are no-ops
        for r in b.roots():
            serialize(r)
        world0 = heap.dump()
        return b, heap, src, src_id, world0

    b, heap, src, src_id, world0 = fresh_build()
    n0 = len(world0)
    root_ids = [heap.add_root(r) for r in b.roots()] + [src_id] + [heap.ref("tensor", t) for t in b.tensors]
    pre_cells = {}
    all_roots = b.roots()
    for r in all_roots:
        for k, s in cells_of(r).items():
            pre_cells.setdefault(k, set()).update(s)
    src_ser = serialize(src)
    snap_all_before = [snapshot(r) for r in all_roots]
    users_before = users_of(all_roots)
    _defined, outer, ordered = source_analysis(src)
    step = {"model": {"op": "modelClone", "mo": src_id}, "function": {"op": "funcClone", "f": src_id}}.get(kind) or {
        "op": "graphClone", "g": src_id, "allow": bool(t.get("allow"))}  # fmt: skip
    src_values = [heap.ids[id(v)] for v in walk(src)[2] if id(v) in heap.ids]
    res = {"spec": spec, "world0": world0, "n0": n0, "roots": root_ids, "step": step, "tag": tag, "hist": [],
           "src_values": src_values,
           "src_serializes": isinstance(src_ser, bytes),
           "src_ser_exc": None if isinstance(src_ser, bytes) else src_ser[1], "ser_excuse": ser_excuse(src)}
    later = later_spec_values(src)
    out.count(f"d342_shape={bool(later)}")
    tap = _VmapTap()
    try:
        with tap:
            clone = do_clone_kind(b, kind, t)
        res["outcome"] = "ok"
    except Exception as e:  # noqa: BLE001
        clone = None
        res["outcome"] = "raised"
        chain = []
        x = e
        root_msg = ""
        while x is not None and len(chain) < 20:
            chain.append(type(x).__name__)
            root_msg = str(x)
            x = x.__cause__
        res["exc"] = ">".join(chain)
        # "a clear error": the documented wrapper (RuntimeError naming the cloning step) around the error that
        # names the offending value / output / container rule.  Anything else (AttributeError, AssertionError,
        # IndexError, a bare KeyError, ...) is an accident, not an error report.
        root_ok = {"ValueError", "KeyError", "TypeError"}
        if not (chain[0] == "RuntimeError" and len(chain) >= 2 and set(chain[:-1]) == {"RuntimeError"}
                and chain[-1] in root_ok):
            out.fail(f"error-class:{'>'.join(dict.fromkeys(chain))}:{t['kind']}",
                     "clone() failed with something other than the documented error report",
                     {"spec": spec, "chain": chain})  # fmt: skip
        out.count(f"exc_root={chain[-1]}")
    allow = bool(t.get("allow"))
    sig_shape = f"{'outer' if outer else 'closed'}:{'sorted' if ordered else 'unsorted'}:allow={allow}:{tag}"
    if clone is None:
        # a clear error is expected exactly when a reference cannot be resolved
        if not outer and ordered:
            if later and "targeted by a sharding spec" in root_msg:
                # finding D342: a spec on a value defined by a LATER node makes clone(allow_outer_scope_values=False)
                # raise on a closed, sorted source (C13_spec_unbound_D342: the model does the same)
                out.count("observation=D342:allow=False:raises-on-closed-sorted-source")
            else:
                out.fail(f"raises:{sig_shape}", "clone raised on a closed, def-before-use source", {"spec": spec, "exc": res["exc"]})
        # a failed clone must not have changed the source
        if [snapshot(r) for r in all_roots] != snap_all_before:
            out.fail(f"failed-clone-side-effect:{sig_shape}", "a raising clone changed the original", {"spec": spec})
        elif users_of(all_roots) != users_before:
            out.fail(f"failed-clone-leaves-users:{sig_shape}",
                     "a raising clone left its half-built nodes registered as users of values of the original",
                     {"spec": spec})  # fmt: skip
        res["world1"] = heap.dump()
        res["clone_id"] = None
        return res
    if outer and not allow:
        out.fail(f"no-error:{sig_shape}", "outer reference, not allowed, but clone() returned", {"spec": spec})
    if allow and outer:
        out.count("ok_clone_with_captured_outer_values")
        own = {id(v) for v in walk(clone)[2]}
        if any(sp.value is not None and id(sp.value) not in own
               for n in walk(clone)[1] for c in n.device_configurations for sp in c.sharding_specs):
            out.count("ok_clone_with_sharding_spec_on_captured_value")
    clone_id = heap.add_root(clone)
    res["clone_id"] = clone_id
    res["world1"] = heap.dump()
    entangled = check_clone_oracle(out, spec, src, clone, pre_cells, src_ser, tag, later)
    if step["op"] == "graphClone" and len(tap.maps) == 1 and isinstance(tap.maps[0], dict):
        # C13_wiring_image: the REAL cloner's final value map, as (source value, clone value) heap ids, and the wiring
        # oracle on the real objects
        vm = tap.maps[0]
        res["vmap"] = sorted((heap.ids.get(id(k), -1), heap.ids.get(id(v), -1)) for k, v in vm.items())
        if spec.get("irregular"):
            # the walker makes no claim here (C13_irregular_reachable): the wiring image / bijection may fail
            out.count(f"observation=irregular-shape:{spec['irregular']}")
        else:
            check_wiring(out, spec, src, clone, {id(k): v for k, v in vm.items()}, allow, tag)
    elif step["op"] == "graphClone":
        out.count("value_map_not_captured")
    elif step["op"] == "funcClone" and len(tap.maps) == 1 and isinstance(tap.maps[0], dict):
        # C13_wiring_image_function: ONE cloner for the body and the graph-valued attribute declarations
        vm = tap.maps[0]
        res["vmaps"] = [sorted((heap.ids.get(id(k), -1), heap.ids.get(id(v), -1)) for k, v in vm.items())]
        check_wiring(out, spec, src, clone, {id(k): v for k, v in vm.items()}, False, tag)
    elif step["op"] == "modelClone" and tap.maps and all(isinstance(m_, dict) for m_ in tap.maps):
        # C13_wiring_image_model: one cloner for the main graph, then one per function, in order
        res["vmaps"] = [sorted((heap.ids.get(id(k), -1), heap.ids.get(id(v), -1)) for k, v in vm.items())
                        for vm in tap.maps]  # fmt: skip
        check_wiring_model(out, spec, src, clone, tap.maps, tag)
    elif step["op"] in ("funcClone", "modelClone"):
        out.count("value_map_not_captured")
    # cloning must not change what the source owns (usage records by clone nodes are excluded by snapshot())
    if [snapshot(r) for r in all_roots] != snap_all_before:
        out.fail(f"clone-side-effect:{sig_shape}", "clone() changed the original", {"spec": spec})
    if serialize(src) != src_ser:
        out.fail(f"clone-side-effect-ser:{sig_shape}", "clone() changed the serialized original", {"spec": spec})
    # edit histories: generated on this build, replayed on fresh builds (ids are deterministic)
    plans = []
    if entangled:
        # the clone shares objects with the original (reported above): "edits of one copy leave the other
        # unchanged" has no independent copy to talk about
        out.count("histories_skipped_entangled_clone")
        n_hist = 0
    if spec.get("irregular"):
        n_hist = 0  # the stream is about the walker's `irregular` verdicts and the clone itself
    for h in range(n_hist):
        side = "clone" if h % 2 == 0 else "orig"
        plans.append((side, gen_edits(rng, heap, b, clone if side == "clone" else src, n_edits)))
    if fixed_plans is not None and not entangled:
        plans = [(sd, ed) for sd, ed in fixed_plans] + plans
    for side, edits in plans:
        b2, heap2, src2, src_id2, _w = fresh_build()
        roots2 = b2.roots()
        st = {}

        def edit_clone(clone2):
            cid2 = heap2.add_root(clone2)
            w1 = heap2.dump()
            assert cid2 == clone_id and len(w1) == len(res["world1"]), "non-deterministic build"
            st["others"] = (roots2 + [src2]) if side == "clone" else [clone2]
            if "before" not in st:
                st["before"] = ([snapshot(r) for r in st["others"]], [serialize(r) for r in st["others"]])
                st["lax_before"] = [snapshot(r, shared_state=False) for r in st["others"]]
                st["t_before"] = [snapshot(r, tensor_names=True, attr_state=False) for r in st["others"]]
                st["a_before"] = [snapshot(r, tensor_names=False, attr_state=True) for r in st["others"]]
            st["outcomes"] = [apply_edit(heap2, b2, e) for e in edits]

        if t["kind"] == "functionalize" and side == "clone" and t.get("stages"):
            # C13_functionalize_any: functionalize(Sequential(...) / PassManager(...)) of stages that edit the model they
            # are handed and / or return a NEW ir.Model built around its graph; the edit history is split over the
            # editing stages.  Oracle: deep snapshot (and serialized proto) of the input model before / after.
            runner = run_hooked_functionalize if t["stages"].get("hooks") else run_staged_functionalize
            entry = runner(out, spec, t, edits, b2, heap2, roots2, src2, clone_id, len(res["world1"]), tag)
            if entry is not None:
                res["hist"].append(dict(entry, side=side))
            continue
        if t["kind"] == "functionalize" and side == "clone":
            # the edit history IS the wrapped pass; the original is observed before the call and after it
            st["others"] = roots2 + [src2]
            st["before"] = ([snapshot(r) for r in st["others"]], [serialize(r) for r in st["others"]])
            st["lax_before"] = [snapshot(r, shared_state=False) for r in st["others"]]
            st["t_before"] = [snapshot(r, tensor_names=True, attr_state=False) for r in st["others"]]
            st["a_before"] = [snapshot(r, tensor_names=False, attr_state=True) for r in st["others"]]

            class EditPass(ir.passes.InPlacePass):
                def call(self, model):
                    if model is b2.model:
                        st["same"] = True
                    else:
                        edit_clone(model)
                    return ir.passes.PassResult(model, True)

            try:
                ir.passes.functionalize(EditPass())(b2.model)
            except ir.passes.PassError:
                st.setdefault("same", True)  # the pass infrastructure itself noticed
            if st.get("same"):
                out.fail("functionalize:pass-ran-on-input", "functionalize ran the pass on its input model, not on a clone",
                         {"spec": spec})  # fmt: skip
                continue
        else:
            edit_clone(do_clone_kind(b2, kind, t))
        others = st["others"]
        world2 = heap2.dump()  # before the oracle serializes anything (serialization renames shared tensors)
        lax_after = [snapshot(r, shared_state=False) for r in others]
        t_after = [snapshot(r, tensor_names=True, attr_state=False) for r in others]
        a_after = [snapshot(r, tensor_names=False, attr_state=True) for r in others]
        after = ([snapshot(r) for r in others], [serialize(r) for r in others])
        if after != st["before"]:
            victim = "original" if side == "clone" else "clone"
            if lax_after == st["lax_before"] and after[1] == st["before"][1]:
                # only the state of objects the two copies share by design differs
                kinds = []
                if t_after != st["t_before"]:
                    kinds.append("tensor-name")
                if a_after != st["a_before"]:
                    kinds.append("attr-meta")
                out.fail(f"frame:shared-{'+'.join(kinds) or 'state'}:{side}-edited:{tag}",
                         f"editing the {side} changed a tensor name / Attr.meta that the {victim} shares",
                         {"spec": spec, "side": side, "edits": edits})  # fmt: skip
            else:
                # find the first responsible edit for the signature
                culprit = culprit_edit(spec, kind, t, side, edits)
                out.fail(f"frame:{side}-edited:{culprit}:{tag}", f"editing the {side} changed the {victim}",
                         {"spec": spec, "side": side, "edits": edits})  # fmt: skip
        res["hist"].append({"side": side, "edits": edits, "outcomes": st["outcomes"], "world2": world2,
                            "tr": [translate_edit_later(heap2, b2, e) for e in edits]})  # fmt: skip
    return res


STAGE_FLAGS = {"inplace": (True, True), "rewrap": (False, False), "destructive": (False, True)}


def _has_subgraphs(heap, e):
    try:
        return len(walk(heap.obj(e["g"]))[0]) > 1
    except Exception:  # noqa: BLE001
        return True


def run_staged_functionalize(out, spec, t, edits, b2, heap2, roots2, src2, clone_id, n_world1, tag):
    """`functionalize(P)(model)` on a fresh build, P = Sequential / PassManager of the stages of `t["stages"]`.
    Returns the history entry for the model comparison, or None when the input model was altered (reported)."""
    plan = t["stages"]
    kinds, steps = list(plan["kinds"]), int(plan.get("steps", 1))
    instances = [k for _ in range(steps) for k in kinds]
    edits = [e for e in edits if e["e"] not in EDIT3_KINDS and not (e["e"] == "sort" and _has_subgraphs(heap2, e))]
    carriers = [i for i, k in enumerate(instances) if k in ("inplace", "destructive")]
    chunks: dict[int, list] = {i: [] for i in range(len(instances))}
    for j, e in enumerate(edits):
        if carriers:
            chunks[carriers[min(j * len(carriers) // len(edits), len(carriers) - 1)]].append(e)
    st: dict = {"inst": 0, "outcomes": [], "ran": []}
    others = roots2 + [src2]
    before = ([snapshot(r) for r in others], [serialize(r) for r in others])
    lax_before = [snapshot(r, shared_state=False) for r in others]
    t_before = [snapshot(r, tensor_names=True, attr_state=False) for r in others]
    a_before = [snapshot(r, tensor_names=False, attr_state=True) for r in others]
    label = ("PassManager" if plan.get("manager") else "Sequential") + ":" + "+".join(kinds) + f":steps={steps}"
    case = {"spec": spec, "side": "clone", "edits": edits}

    def begin(model, edits_here):
        i = st["inst"]
        st["inst"] += 1
        st["ran"].append(i)
        if "first" not in st:
            st["first"] = model
            if model is b2.model or model.graph is b2.model.graph:
                # the pipeline was handed the caller's model (or a model around the caller's graph), not a clone
                st["same"] = True
            else:
                cid2 = heap2.add_root(model)
                w1 = heap2.dump()
                assert cid2 == clone_id and len(w1) == n_world1, "non-deterministic build"
        if not edits_here:
            return
        if st.get("same"):
            # whatever an editing stage does now, it does to the caller's model: a plain in-place edit of the
            # model it was handed (no object ids involved)
            g = model.graph
            g.doc_string = f"edited by stage {i}"
            for n in g:
                n.doc_string = f"edited by stage {i}"
                break
            return
        for e in chunks.get(i, []):
            st["outcomes"].append(apply_edit(heap2, b2, e))

    def rewrap(model):
        # a new model object around the SAME graph and functions (what a functional "stamp" pass typically does)
        return ir.Model(model.graph, ir_version=model.ir_version, producer_name="stamped",
                        producer_version=model.producer_version, domain=model.domain, model_version=model.model_version,
                        doc_string=model.doc_string, functions=list(model.functions.values()),
                        metadata_props=dict(model.metadata_props),
                        device_configurations=model.device_configurations)  # fmt: skip

    class InPlaceStage(ir.passes.InPlacePass):
        def call(self, model):
            begin(model, True)
            return ir.passes.PassResult(model, True)

    class StampStage(ir.passes.FunctionalPass):
        def call(self, model):
            begin(model, False)
            return ir.passes.PassResult(rewrap(model), True)

    class DestructiveStage(ir.passes.PassBase):
        in_place = False
        changes_input = True

        def call(self, model):
            begin(model, True)
            return ir.passes.PassResult(rewrap(model), True)

    passes = [{"inplace": InPlaceStage, "rewrap": StampStage, "destructive": DestructiveStage}[k]() for k in kinds]
    pipeline = (ir.passes.PassManager(passes, steps=steps, early_stop=False) if plan.get("manager")
                else ir.passes.Sequential(*passes))  # fmt: skip
    out.count(f"functionalize_pipeline={label}")
    out.count(f"pipeline_declares=in_place={pipeline.in_place}:changes_input={pipeline.changes_input}")
    result = None
    try:
        result = ir.passes.functionalize(pipeline)(b2.model)
    except ir.passes.PassError as e:
        st["pass_error"] = repr(e)[:200]
    world2 = heap2.dump() if not st.get("same") else None
    final_id = None
    if result is not None and not st.get("same"):
        final_id = heap2.add_root(result.model)
        world2 = heap2.dump()
    # the oracle: the input model (and everything else that existed) is what it was
    lax_after = [snapshot(r, shared_state=False) for r in others]
    t_after = [snapshot(r, tensor_names=True, attr_state=False) for r in others]
    a_after = [snapshot(r, tensor_names=False, attr_state=True) for r in others]
    after = ([snapshot(r) for r in others], [serialize(r) for r in others])
    bad = False
    if after != before:
        if lax_after == lax_before and after[1] == before[1]:
            # only the state of objects the two copies share by design differs (tensor names D113, Attr.meta D114)
            shared = []
            if t_after != t_before:
                shared.append("tensor-name")
            if a_after != a_before:
                shared.append("attr-meta")
            out.fail(f"frame:shared-{'+'.join(shared) or 'state'}:clone-edited:{tag}",
                     "editing the clone changed a tensor name / Attr.meta that the original shares", case)
        else:
            bad = True
            out.fail(f"functionalize:input-changed:{label}",
                     "functionalize(pipeline)(model) changed its input model (deep snapshot / serialized proto differ)", case)
    if st.get("same"):
        bad = True
        out.fail(f"functionalize:pass-ran-on-input:{label}",
                 "functionalize handed the caller's model (or a model around the caller's graph) to the wrapped pass", case)
    if result is not None and not bad:
        if result.model is b2.model:
            bad = True
            out.fail(f"functionalize:returned-input:{label}", "functionalize returned its input model object", case)
        else:
            # later edits of the returned model must not reach the input either (after the heap was dumped)
            rg = result.model.graph
            rg.doc_string = "edited later"
            for v in rg.inputs:
                v.doc_string = "edited later"
            for n in rg:
                n.doc_string = "edited later"
                break
            # (tensor names are excluded: serializing renames the tensors the two copies share, D113)
            later = ([snapshot(r, shared_state=False) for r in others], [serialize(r) for r in others])
            if later != (lax_after, after[1]):
                bad = True
                out.fail(f"functionalize:later-edit-reaches-input:{label}",
                         "editing the model returned by functionalize(pipeline) changed the input model", case)
    if bad or result is None:
        if result is None and not bad:
            out.count("functionalize_pipeline_pass_error")
        return None
    hdr = world2[final_id]["header"]
    stages = []
    for i, k in enumerate(instances):
        ip, ci = STAGE_FLAGS[k]
        stages.append({"kind": "inplace" if k == "inplace" else "rewrap", "inPlace": ip, "changesInput": ci, "header": hdr,
                       "tr": [translate_edit_later(heap2, b2, e) for e in chunks.get(i, [])]})  # fmt: skip
    return {"outcomes": st["outcomes"], "world2": world2, "tr": [translate_edit_later(heap2, b2, e) for e in edits],
            "stages": stages, "final_id": final_id, "edits": edits}


def run_hooked_functionalize(out, spec, t, edits, b2, heap2, roots2, src2, clone_id, n_world1, tag):
    """C13_functionalize_hooks: `functionalize(P)(model)` on a fresh build where every pass of P - and P itself, a
    subclass of Sequential / PassManager - overrides requires() / ensures() with hooks that perform a share of the edit
    history on the model they are handed and may raise; passes report `modified=True` in the first `mod_rounds` rounds
    only, PassManager runs with `early_stop`.  Returns the history entry for the model comparison (also when the
    pipeline raised: the heap after the raising call is compared too)."""
    plan = t["stages"]
    hk = plan["hooks"]
    kinds, steps = list(plan["kinds"]), int(plan.get("steps", 1))
    manager = bool(plan.get("manager"))
    early = bool(hk.get("early_stop")) and manager
    edits = [e for e in edits if e["e"] not in EDIT3_KINDS and e["e"] not in globals().get("EDIT4_KINDS", ())
             and not (e["e"] == "sort" and _has_subgraphs(heap2, e))]  # fmt: skip
    slots = [("outer_req", None)] if hk.get("outer") else []
    for r in range(steps):
        for j, k in enumerate(kinds):
            c = r * len(kinds) + j
            slots.append(("req", c))
            if k in ("inplace", "destructive"):
                slots.append(("call", c))
            slots.append(("ens", c))
    if hk.get("outer"):
        slots.append(("outer_ens", None))
    chunks: dict = {sl: [] for sl in slots}
    for j, e in enumerate(edits):
        chunks[slots[min(j * len(slots) // len(edits), len(slots) - 1)]].append(e)
    raise_at = tuple(hk["raise"]) if hk.get("raise") else None
    st: dict = {"next": 0, "cur": -1, "outcomes": [], "ran": [], "done": set(), "hdr": {}}
    others = roots2 + [src2]
    before = ([snapshot(r) for r in others], [serialize(r) for r in others])
    lax_before = [snapshot(r, shared_state=False) for r in others]
    t_before = [snapshot(r, tensor_names=True, attr_state=False) for r in others]
    a_before = [snapshot(r, tensor_names=False, attr_state=True) for r in others]
    label = (("PassManager" if manager else "Sequential") + ":hooks:" + "+".join(kinds)
             + f":steps={steps}:early_stop={early}")  # fmt: skip
    case = {"spec": spec, "side": "clone", "edits": edits}

    def see(model):
        if "first" not in st:
            st["first"] = model
            if model is b2.model or model.graph is b2.model.graph:
                st["same"] = True
            else:
                cid2 = heap2.add_root(model)
                w1 = heap2.dump()
                assert cid2 == clone_id and len(w1) == n_world1, "non-deterministic build"

    def run_slot(slot, model):
        see(model)
        st["ran"].append(slot)
        if st.get("same"):
            model.graph.doc_string = f"edited by {slot}"
        else:
            for e in chunks.get(slot, []):
                st["outcomes"].append(apply_edit(heap2, b2, e))
                st["done"].add(id(e))
        if raise_at == slot:
            raise RuntimeError(f"hook {slot} raises")

    def modified():
        return (st["cur"] // len(kinds)) < int(hk.get("mod_rounds", 0))

    def rewrap(model):
        return ir.Model(model.graph, ir_version=model.ir_version, producer_name="stamped",
                        producer_version=model.producer_version, domain=model.domain, model_version=model.model_version,
                        doc_string=model.doc_string, functions=list(model.functions.values()),
                        metadata_props=dict(model.metadata_props),
                        device_configurations=model.device_configurations)  # fmt: skip

    class Hooks:
        def requires(self, model):
            st["cur"] = st["next"]
            st["next"] += 1
            run_slot(("req", st["cur"]), model)

        def ensures(self, model):
            if model is not st.get("result"):
                # `ensures(result.model)`: callPassH hands the hook the model the stage RETURNED
                st["ensures_wrong_model"] = True
            run_slot(("ens", st["cur"]), model)

    def result_of(model):
        st["result"] = model
        # the header fields of the model this call returns (a rewrap copies what earlier setModelHeader edits left)
        st["hdr"][st["cur"]] = heap2.payload(("hdr", (model.ir_version, model.producer_name, model.producer_version,
                                                       model.domain, model.model_version, model.doc_string)))  # fmt: skip
        return ir.passes.PassResult(model, modified())

    class InPlaceStage(Hooks, ir.passes.InPlacePass):
        def call(self, model):
            run_slot(("call", st["cur"]), model)
            return result_of(model)

    class StampStage(Hooks, ir.passes.FunctionalPass):
        def call(self, model):
            see(model)
            return result_of(rewrap(model))

    class DestructiveStage(Hooks, ir.passes.PassBase):
        in_place = False
        changes_input = True

        def call(self, model):
            run_slot(("call", st["cur"]), model)
            return result_of(rewrap(model))

    class OuterHooks:
        def requires(self, model):
            if hk.get("outer"):
                run_slot(("outer_req", None), model)

        def ensures(self, model):
            if hk.get("outer"):
                run_slot(("outer_ens", None), model)

    class SeqH(OuterHooks, ir.passes.Sequential):
        pass

    class MgrH(OuterHooks, ir.passes.PassManager):
        pass

    passes = [{"inplace": InPlaceStage, "rewrap": StampStage, "destructive": DestructiveStage}[k]() for k in kinds]
    pipeline = MgrH(passes, steps=steps, early_stop=early) if manager else SeqH(*passes)
    out.count(f"functionalize_pipeline={label}")
    out.count(f"hooks_raise_at={raise_at[0] if raise_at else None}")
    result, exc_kind = None, None
    try:
        result = ir.passes.functionalize(pipeline)(b2.model)
    except Exception as e:  # noqa: BLE001
        # PassError (Sequential / PassManager wrap what a pass raises) or Pre/PostconditionError (the pipeline's own
        # hooks); anything else is an exception the pass infrastructure let escape: named as it is, the model will differ
        x, names = e, []
        while x is not None and len(names) < 10:
            names.append(type(x).__name__)
            x = x.__cause__
        exc_kind = next((n for n in names if n in ("PreconditionError", "PostconditionError")), names[0])
        if not isinstance(e, (ir.passes.PassError, ir.passes.InvariantError)):
            exc_kind = "escaped:" + names[0]
    final_id = None
    if result is not None and not st.get("same"):
        final_id = heap2.add_root(result.model)
    world2 = heap2.dump() if not st.get("same") else None
    rounds_real = (st["next"] + len(kinds) - 1) // len(kinds)
    out.count(f"hooks_outcome={exc_kind or 'ok'}:rounds={rounds_real}/{steps}")
    # the oracle: the input model (and everything else that existed) is what it was, also after a raising pipeline
    lax_after = [snapshot(r, shared_state=False) for r in others]
    t_after = [snapshot(r, tensor_names=True, attr_state=False) for r in others]
    a_after = [snapshot(r, tensor_names=False, attr_state=True) for r in others]
    after = ([snapshot(r) for r in others], [serialize(r) for r in others])
    bad = False
    if after != before:
        if lax_after == lax_before and after[1] == before[1]:
            # only the state of objects the two copies share by design differs (tensor names D113, Attr.meta D114)
            shared = []
            if t_after != t_before:
                shared.append("tensor-name")
            if a_after != a_before:
                shared.append("attr-meta")
            out.fail(f"frame:shared-{'+'.join(shared) or 'state'}:clone-edited:{tag}",
                     "editing the clone changed a tensor name / Attr.meta that the original shares", case)
        else:
            bad = True
            out.fail(f"functionalize:input-changed:{label}",
                     "functionalize(pipeline with hooks)(model) changed its input model", case)
    if st.get("same"):
        bad = True
        out.fail(f"functionalize:pass-ran-on-input:{label}",
                 "functionalize handed the caller's model (or a model around the caller's graph) to a hook / pass", case)
    if result is not None and result.model is b2.model:
        bad = True
        out.fail(f"functionalize:returned-input:{label}", "functionalize returned its input model object", case)
    # early_stop / steps: the number of rounds that ran is what PassManager promises
    if exc_kind is None and not bad:
        mr = int(hk.get("mod_rounds", 0))
        want = steps if not early else min(steps, mr + 1)
        if rounds_real != want:
            out.fail(f"functionalize:rounds:{label}", f"{rounds_real} rounds ran, {want} expected from the modified flags", case)
    if st.get("ensures_wrong_model"):
        out.disagree("ensures() was handed a model other than result.model (callPassH: the model the stage returned)",
                     case, "result.model", "another model")
    if bad:
        return None
    m0 = b2.model
    hdr = heap2.payload(("hdr", (m0.ir_version, "stamped", m0.producer_version, m0.domain, m0.model_version, m0.doc_string)))
    # (apply_edit fills in the model-side fields of an edit - payload ids - when it RUNS: only the edits that ran are sent;
    # a model that runs a hook / round the real code did not reach is caught by the outcome / round count comparison)
    tr = lambda sl: [translate_edit_later(heap2, b2, e) for e in chunks.get(sl, []) if id(e) in st["done"]]  # noqa: E731
    rounds = []
    for r in range(steps):
        ps = []
        for j, k in enumerate(kinds):
            c = r * len(kinds) + j
            ip, ci = STAGE_FLAGS[k]
            ps.append({"kind": "inplace" if k == "inplace" else "rewrap", "inPlace": ip, "changesInput": ci,
                       "header": st["hdr"].get(c, hdr),
                       "modified": r < int(hk.get("mod_rounds", 0)), "tr": tr(("call", c)),
                       "requires": {"tr": tr(("req", c)), "raises": raise_at == ("req", c)},
                       "ensures": {"tr": tr(("ens", c)), "raises": raise_at == ("ens", c)}})  # fmt: skip
        rounds.append(ps)
    return {"outcomes": st["outcomes"], "world2": world2,
            "tr": [translate_edit_later(heap2, b2, e) for e in edits if id(e) in st["done"]],
            "hooks": {"rounds": rounds, "steps": steps, "earlyStop": early, "exc": exc_kind, "rounds_real": rounds_real,
                      "outerRequires": {"tr": tr(("outer_req", None)), "raises": raise_at == ("outer_req", None)},
                      "outerEnsures": {"tr": tr(("outer_ens", None)), "raises": raise_at == ("outer_ens", None)}},
            "stages": True, "final_id": final_id, "edits": edits}


def do_clone_kind(b, kind, t):
    deep = bool(t.get("deep"))
    tgt = b.target()
    if kind in ("model", "function", "view"):
        return tgt.clone(deep_copy=deep)
    return tgt.clone(allow_outer_scope_values=bool(t.get("allow")), deep_copy=deep)


def translate_edit_later(heap, b, e):
    """everything of translate_edit that needs the real heap (payload / tensor ids); ids mapped later"""
    r = dict(e)
    if e["e"] == "setConst":
        r["t"] = None if e["t"] is None else heap.ref("tensor", b.tensors[e["t"]])
    if e["e"] == "setAttr":
        r["p"] = heap.payload(("INT", repr(int(e["val"]))))
    if e["e"] == "sort" and e.get("nest"):
        r["e"] = "sortDeep"  # `Edit3.sortDeep`: the graph has nested graphs
    return r


def culprit_edit(spec, kind, t, side, edits):
    """replay prefixes to name the first edit kind after which the other copy differs"""
    for k in range(1, len(edits) + 1):
        b = Built(spec)
        heap = Heap()
        for r in b.roots():
            heap.add_root(r)
        src = b.target()
        heap.add_root(src)
        for tn in b.tensors:
            heap.ref("tensor", tn)
        heap.dump()
        clone = do_clone_kind(b, kind, t)
        heap.add_root(clone)
        heap.dump()
        others = (b.roots() + [src]) if side == "clone" else [clone]
        before = ([snapshot(r) for r in others], [serialize(r) for r in others])
        for e in edits[:k]:
            apply_edit(heap, b, e)
        after = ([snapshot(r) for r in others], [serialize(r) for r in others])
        if before != after:
            return edits[k - 1]["e"]
    return "?"


def map_ids(e, m):
    r = {"op": "edit"}
    for k, x in e.items():
        if (k in _ID_FIELDS or (k == "t" and e["e"] == "setConst")) and x is not None:
            r[k] = m.get(x, 10**9)
        elif k == "inputs":
            r[k] = [None if y is None else m.get(y, 10**9) for y in x]
        elif k in ("vs", "ns", "nest", "ovs"):
            r[k] = [m.get(y, 10**9) for y in x]
        elif k == "news":  # `Edit4.replaceNodes`: an input is None, a value id, or [k, j] (output j of the k-th new node)
            r[k] = [dict(nn, inputs=[y if (y is None or isinstance(y, list)) else m.get(y, 10**9) for y in nn["inputs"]])
                    for nn in x]  # fmt: skip
        elif k == "pairs" and e["e"] == "rauwMulti":
            r[k] = [[m.get(a, 10**9), m.get(bb, 10**9)] for a, bb in x]
        elif k == "pairs" and e["e"] == "renameValues":
            r[k] = [[m.get(a, 10**9), nm] for a, nm in x]
        elif k == "items":
            r[k] = [[key, m.get(v, 10**9)] for key, v in x]
        elif k == "dev":
            r[k] = [{"cfg": d["cfg"], "specs": [[None if v is None else m.get(v, 10**9), p] for v, p in d["specs"]]}
                    for d in x]  # fmt: skip
        elif k in ("devspec", "field", "pos"):
            continue
        else:
            r[k] = x
    return r


# --------------------------------------------------------------------------- worker / run


def _worker(args):
    seeds, n_hist, n_edits, size = args
    import logging
    import random

    logging.disable(logging.CRITICAL)  # the serializer warns about every value without a type

    part = Part()
    results = []
    for s in seeds:
        spec = None
        try:
            rng = random.Random(s)
            spec = gen_spec(rng, size)
            if _GIVE_UP["on"]:
                # every further case may burn the CPU budget again; the non-termination is reported with its input
                part.count("skipped_after_nontermination")
                continue
            try:
                results.append(cpu_guarded(lambda: real_case(spec, s + 1, n_hist, n_edits, part)))  # noqa: B023
            except _Hang:
                _GIVE_UP["on"] = True
                part.fail(f"nontermination:real-case:{spec['target']['kind']}",
                          f"the real code did not finish a clone / edit case within {CPU_BUDGET_CASE:.0f}s of CPU time",
                          {"spec": spec})  # fmt: skip
        except Exception as e:  # noqa: BLE001
            # name the case: `gen_spec(random.Random(<seed>), <size>)` / `real_case(spec, <seed>+1, ..)` replays it
            import traceback

            raise RuntimeError(
                f"C13 harness worker failed on case seed={s} size={size} n_hist={n_hist} n_edits={n_edits} "
                f"(replay: harness.c13.replay_seed({s}, {size}, {n_hist}, {n_edits})); "
                f"target={None if spec is None else spec.get('target')}\n{traceback.format_exc()}"
            ) from None
    return part, results


def replay_seed(seed: int, size: int = 4, n_hist: int = 2, n_edits: int = 6):
    """re-run one generated case in-process (development aid for a crashed worker)"""
    import random

    part = Part()
    spec = gen_spec(random.Random(seed), size)
    res = real_case(spec, seed + 1, n_hist, n_edits, part)
    return spec, res, part


def compare_cases(ctx: Ctx, results):
    # round 1: the clone itself
    reqs = [{"m": "clone.run", "world": r["world0"],
             "script": [{"op": "wellFormed"}, {"op": "wellFormed2"}, r["step"], {"op": "devLocal"}, {"op": "closedW"}]}
            for r in results]
    outs = lean_batch_parallel(reqs)
    reqs2, idx2 = [], []
    for r, o in zip(results, outs):
        spec = r["spec"]
        t = spec["target"]
        nontrivial = bool(spec["graph"]["nodes"])
        if "err" in o:
            ctx.disagree("driver error", {"spec": spec}, o, None)
            continue
        if o["outcomes"][0]["r"] != "ok":
            # hypothesis `wellFormed w` of C13_frame_orig_edited must hold of every abstracted real heap
            ctx.disagree("abstracted heap has a dangling pointer (wellFormed = false)", {"spec": spec}, o["outcomes"][0], None)
            continue
        if o["outcomes"][1]["r"] != "ok":
            # hypothesis `wellFormed2 w` of C13_frame_orig_edited_ext
            ctx.disagree("abstracted heap has a dangling pointer (wellFormed2 = false)", {"spec": spec}, o["outcomes"][1], None)
            continue
        ctx.count("hyp_wellFormed2=True")
        nfa = sum(1 for f in spec.get("functions", []) for a in f.get("attrs", []) if a["kind"] in ("graph", "graphs"))
        if nfa and t["kind"] in ("function", "model", "functionalize"):
            ctx.count(f"function_graph_attr_decls:target={t['kind']}")
        # hypothesis `devLocalW w` of C13_closed_sharding (evaluated on the heap after the clone step: the clone must
        # satisfy it again whenever the source did)
        ctx.count(f"hyp_devLocalW={o['outcomes'][3]['r'] == 'ok'}")
        # `closedW` (C13_irregular_reasons: no 'dangling pointer' verdict on a closed heap), on the heap after the clone
        # step: every pointer field of every cell names a cell; must hold of every abstracted real heap
        if o["outcomes"][4]["r"] != "ok":
            ctx.disagree("abstracted heap has a pointer field that names no cell (closedW = false)", {"spec": spec},
                         o["outcomes"][4], None)  # fmt: skip
        else:
            ctx.count("hyp_closedW=True")
        oc = o["outcomes"][2]
        ctx.case(spec, nontrivial, sample={"target": t, "graph": spec["graph"]["name"], "outcome": r["outcome"]},
                 target=r["tag"], outcome=r["outcome"], model_outcome=oc["r"],
                 nodes=min(len(spec["graph"]["nodes"]), 6))  # fmt: skip
        if oc["r"] in ("unsupported", "fuel"):
            ctx.count("model_unsupported")
            continue
        if oc["r"] != r["outcome"]:
            ctx.disagree(f"clone outcome: model {oc['r']} ({oc.get('why')}), implementation {r['outcome']} ({r.get('exc')})",
                         {"spec": spec}, oc, r["outcome"])  # fmt: skip
            continue
        if oc["r"] == "raised":
            ctx.count(f"model_raise_why={oc.get('why')}")
            cm, _ = canon(o["world"], r["roots"])
            ci, _ = canon(r["world1"], r["roots"])
            if cm != ci:
                ctx.disagree("heap after a raising clone", {"spec": spec}, first_diff(cm, ci), None)
            continue
        mroots = r["roots"] + [oc["id"]]
        iroots = r["roots"] + [r["clone_id"]]
        cm, om = canon(o["world"], mroots)
        ci, oi = canon(r["world1"], iroots)
        if cm != ci:
            ctx.disagree("heap after clone", {"spec": spec}, first_diff(cm, ci), None)
            continue
        m = dict(zip(oi, om))  # impl raw id -> model raw id
        for h in r["hist"]:
            edits = [map_ids(e, m) for e in h["tr"] if e["e"] not in ORACLE_ONLY]
            if r["spec"]["target"]["kind"] == "functionalize" and h["side"] == "clone" and h.get("hooks"):
                # `IrVerif.Clone.functionalizeHooks` (C13_functionalize_hooks): one pass list per round, every call with
                # the histories of its requires / call / ensures, the raise flags and the `modified` flag it reports
                hk = h["hooks"]
                mid = lambda trs: [map_ids(e, m) for e in trs if e["e"] not in ORACLE_ONLY]  # noqa: E731
                hook = lambda x: {"edits": mid(x["tr"]), "raises": bool(x["raises"])}  # noqa: E731
                reqs2.append({"m": "clone.functionalizeHooks", "world": r["world0"], "mo": r["step"]["mo"],
                              "steps": hk["steps"], "earlyStop": hk["earlyStop"],
                              "outerRequires": hook(hk["outerRequires"]), "outerEnsures": hook(hk["outerEnsures"]),
                              "rounds": [{"passes": [{"kind": sg["kind"], "inPlace": sg["inPlace"],
                                                      "changesInput": sg["changesInput"], "header": sg["header"],
                                                      "modified": sg["modified"], "edits": mid(sg["tr"]),
                                                      "requires": hook(sg["requires"]), "ensures": hook(sg["ensures"])}
                                                     for sg in ps]} for ps in hk["rounds"]]})  # fmt: skip
            elif r["spec"]["target"]["kind"] == "functionalize" and h["side"] == "clone" and h.get("stages"):
                # `IrVerif.Clone.functionalizeAny` (C13_functionalize_any): every stage instance with its edits
                reqs2.append({"m": "clone.functionalizeAny", "world": r["world0"], "mo": r["step"]["mo"],
                              "stages": [{"kind": sg["kind"], "inPlace": sg["inPlace"], "changesInput": sg["changesInput"],
                                          "header": sg["header"],
                                          "edits": [map_ids(e, m) for e in sg["tr"] if e["e"] not in ORACLE_ONLY]}
                                         for sg in h["stages"]]})  # fmt: skip
            elif r["spec"]["target"]["kind"] == "functionalize" and h["side"] == "clone":
                # `IrVerif.Clone.functionalize`: the pass is the edit history
                reqs2.append({"m": "clone.functionalize4" if any(x["e"] in EDIT4_KINDS for x in edits) else "clone.functionalize",
                              "world": r["world0"], "mo": r["step"]["mo"], "edits": edits})  # fmt: skip
            else:
                reqs2.append({"m": "clone.history4" if any(x["e"] in EDIT4_KINDS for x in edits) else "clone.history",
                              "world": r["world0"], "clone": r["step"], "edits": edits})  # fmt: skip
            idx2.append((r, h, mroots, iroots))
    # the serialization model (C13_faithful_serialize): defined on the abstracted heap? same for clone and original?
    sreqs, sres = [], []
    for r in results:
        if r["step"]["op"] == "graphClone" and r["outcome"] == "ok":
            sreqs.append({"m": "clone.ser", "world": r["world0"], "clone": r["step"], "src": r["step"]["g"], "k": 8})
            sres.append(r)
    for r, o in zip(sres, lean_batch_parallel(sreqs)):
        if "err" in o or o["outcome"]["r"] != "ok":
            continue
        real_ok = r.get("src_serializes", False)
        ctx.count(f"serGraph_defined={o['defined']}:real_serializes={real_ok}")
        if real_ok and not o["defined"]:
            # the observation function is stricter than serde only where a container is inconsistent
            if r.get("ser_excuse"):
                ctx.count(f"serGraph_undefined_because={r['ser_excuse']}")
            else:
                ctx.disagree("serGraph undefined on a heap the real serializer accepts, and no container is inconsistent",
                             {"spec": r["spec"]}, o, None)  # fmt: skip
        if o["defined"] and not real_ok:
            ctx.count(f"serGraph_defined_but_serde_raises={r.get('src_ser_exc')}")
        if o["defined"] and not (o.get("equal") and o.get("same_after")):
            ctx.disagree("serGraph(clone) != serGraph(original) although defined (contradicts C13_faithful_serialize)",
                         {"spec": r["spec"]}, o, None)  # fmt: skip
    # the scope walker (C13_clone_succeeds / C13_clone_raises_iff): its verdict on the SOURCE heap must be the outcome
    # of the real clone and of the model's clone, message included, unless it answers `irregular` (no claim)
    vreqs, vres = [], []
    for r, o in zip(results, outs):
        if "err" in o or o["outcomes"][0]["r"] != "ok" or o["outcomes"][1]["r"] != "ok":
            continue
        if r["step"]["op"] == "graphClone":
            vreqs.append({"m": "clone.verdict", "world": r["world0"], "g": r["step"]["g"], "allow": r["step"]["allow"]})
            vres.append((r, o["outcomes"][2]))
        elif r["step"]["op"] == "funcClone":  # funcVerdict (C13_function_clone_*)
            vreqs.append({"m": "clone.verdict", "world": r["world0"], "f": r["step"]["f"]})
            vres.append((r, o["outcomes"][2]))
        elif r["step"]["op"] == "modelClone":  # modelVerdict (C13_model_clone_*), also what functionalize runs
            vreqs.append({"m": "clone.verdict", "world": r["world0"], "mo": r["step"]["mo"]})
            vres.append((r, o["outcomes"][2]))
    for (r, oc), v in zip(vres, lean_batch_parallel(vreqs)):
        if "err" in v:
            ctx.disagree("driver error (verdict)", {"spec": r["spec"]}, v, None)
            continue
        pre = {"funcClone": "func_", "modelClone": "model_"}.get(r["step"]["op"], "")
        ctx.count(f"{pre}verdict={v['v']}:real={r['outcome']}")
        if v["v"] == "irregular":
            ctx.count(f"verdict_irregular_because={v.get('why')}")
            continue
        if v["v"] != oc["r"] or (v["v"] in ("raised", "unsupported") and v.get("why") != oc.get("why")):
            ctx.disagree(f"walker verdict {v['v']} ({v.get('why')}) but the model's clone answers {oc['r']} ({oc.get('why')})",
                         {"spec": r["spec"]}, v, oc)
        elif v["v"] in ("ok", "raised") and v["v"] != r["outcome"]:
            ctx.disagree(f"walker verdict {v['v']} ({v.get('why')}) but the real clone {r['outcome']} ({r.get('exc')})",
                         {"spec": r["spec"]}, v, r["outcome"])
        elif v["v"] == "ok" and r["step"]["op"] == "modelClone":
            pass  # one value map per function: no single bound list
        elif v["v"] == "ok":
            # C13_value_map_bijection: the keys of the value map are the walker's bound list; on the real objects these
            # are exactly the values the cloned region defines (inputs, initializers, node outputs at any depth), once each
            if sorted(v["bound"]) != sorted(set(r["src_values"])) or len(set(v["bound"])) != len(v["bound"]):
                ctx.disagree("walker's bound list is not the set of values the source region defines",
                             {"spec": r["spec"]}, sorted(v["bound"]), sorted(r["src_values"]))
            else:
                ctx.count("bound_list_is_region_values=True")
    # C13_wiring_image / C13_value_map_bijection: the model's final value map is the REAL cloner's final value map (up
    # to the renaming that relates the two heaps)
    wreqs, wres = [], []
    for r, o in zip(results, outs):
        if r.get("vmap") is None or "err" in o or o["outcomes"][2]["r"] != "ok" or r["outcome"] != "ok":
            continue
        wreqs.append({"m": "clone.vmap", "world": r["world0"], "g": r["step"]["g"], "allow": r["step"]["allow"]})
        wres.append((r, o))
    for (r, o), v in zip(wres, lean_batch_parallel(wreqs)):
        if "err" in v or v["outcome"]["r"] != "ok":
            ctx.disagree("driver error / outcome (vmap)", {"spec": r["spec"]}, v.get("outcome", v), None)
            continue
        cm, om = canon(v["world"], r["roots"] + [v["outcome"]["id"]])
        ci, oi = canon(r["world1"], r["roots"] + [r["clone_id"]])
        if cm != ci:
            continue  # reported as "heap after clone" above
        m = dict(zip(oi, om))
        real = sorted((m.get(a, -1), m.get(b, -2)) for a, b in r["vmap"])
        model = sorted((a, b) for a, b in v["vm"])
        if r["spec"].get("irregular"):
            # the walker makes no claim: the model's map (a list, latest binding first) may bind a value twice where
            # the real dict overwrites (C13_irregular_reachable); compare what lookups see
            model = sorted(dict((a, b) for a, b in v["vm"]).items())
        if real != model:
            ctx.disagree("final value map: model vs the real Cloner._value_map", {"spec": r["spec"]}, model, real)
        else:
            ctx.count(f"value_map_equal=True:size={min(len(model), 8)}")
    # C13_wiring_image_function / C13_wiring_image_model: one value map per cloner (`funcCloneCore`, `modelCloneTrace`)
    wreqs, wres = [], []
    for r, o in zip(results, outs):
        if r.get("vmaps") is None or "err" in o or o["outcomes"][2]["r"] != "ok" or r["outcome"] != "ok":
            continue
        key = "f" if r["step"]["op"] == "funcClone" else "mo"
        wreqs.append({"m": "clone.vmap", "world": r["world0"], key: r["step"][key]})
        wres.append((r, o))
    for (r, o), v in zip(wres, lean_batch_parallel(wreqs)):
        if "err" in v or v["outcome"]["r"] != "ok" or not v.get("same"):
            ctx.disagree("driver error / outcome (vmaps of Function.clone / Model.clone)", {"spec": r["spec"]},
                         {k: v.get(k) for k in ("err", "outcome", "same")}, None)  # fmt: skip
            continue
        cm, om = canon(v["world"], r["roots"] + [v["outcome"]["id"]])
        ci, oi = canon(r["world1"], r["roots"] + [r["clone_id"]])
        if cm != ci:
            continue  # reported as "heap after clone" above
        m = dict(zip(oi, om))
        real = [sorted((m.get(a, -1), m.get(b, -2)) for a, b in vm) for vm in r["vmaps"]]
        model = [sorted((a, b) for a, b in vm) for vm in v["vms"]]
        pre = "func" if r["step"]["op"] == "funcClone" else "model"
        if real != model:
            ctx.disagree(f"final value maps ({pre}): model vs the real Cloner._value_map of every cloner",
                         {"spec": r["spec"]}, model, real)  # fmt: skip
        else:
            ctx.count(f"{pre}_value_maps_equal=True:cloners={min(len(model), 4)}")
    outs2 = lean_batch_parallel(reqs2)
    for (r, h, mroots, iroots), o in zip(idx2, outs2):
        spec = r["spec"]
        case = {"spec": spec, "side": h["side"], "edits": h["edits"]}
        if "err" in o:
            ctx.disagree("driver error (edits)", case, o, None)
            continue
        via_functionalize = "outcomes" not in o  # `clone.functionalize` answers the final heap only
        mo = None if via_functionalize else [x["r"] for x in o["outcomes"][1:]]
        ctx.case(case, bool(h["edits"]), side=h["side"], hist_len=len(h["edits"]))
        for e, oc in zip(h["edits"], [] if h.get("hooks") else h["outcomes"]):
            ctx.count(f"edit={e['e']}:{oc}")
        keep = [i for i, e in enumerate(h["edits"]) if e["e"] not in ORACLE_ONLY]
        if not h.get("hooks"):  # (a hook pipeline records the outcomes of the edits that RAN: not aligned with the plan)
            h = dict(h, edits=[h["edits"][i] for i in keep], outcomes=[h["outcomes"][i] for i in keep])
        if via_functionalize:
            ctx.count("via_model_functionalize")
            if o.get("declined"):
                ctx.count("model_unsupported_edit")
                continue
        elif "unsupported" in mo:
            ctx.count("model_unsupported_edit")
            continue
        if not via_functionalize and mo != h["outcomes"]:
            k = next(i for i, (a, c) in enumerate(zip(mo, h["outcomes"])) if a != c)
            ctx.disagree(f"edit outcome #{k} {h['edits'][k]['e']}: model {mo[k]}, implementation {h['outcomes'][k]}",
                         case, o["outcomes"][k + 1], h["outcomes"][k])  # fmt: skip
            continue
        if h.get("hooks"):
            # C13_functionalize_hooks: outcome (ok / PreconditionError / PostconditionError), number of rounds, heap
            hk = h["hooks"]
            ctx.count("via_model_functionalizeHooks")
            if not o.get("agrees", True):
                ctx.disagree("driver: the round-by-round run differs from functionalizeHooks", case, o["outcome"], None)
                continue
            want = "ok" if hk["exc"] is None else "raised"
            if o["outcome"]["r"] != want or (want == "raised" and o["outcome"].get("why") != hk["exc"]):
                ctx.disagree(f"functionalize(pipeline with hooks): model {o['outcome']}, implementation {hk['exc'] or 'returned'}",
                             case, o["outcome"], hk["exc"])  # fmt: skip
                continue
            if o["rounds"] != hk["rounds_real"]:
                ctx.disagree(f"functionalize(pipeline with hooks): model ran {o['rounds']} rounds, implementation "
                             f"{hk['rounds_real']}", case, o["rounds"], hk["rounds_real"])  # fmt: skip
                continue
            ctx.count(f"hooks_model_outcome={o['outcome'].get('why', 'ok')}:rounds={o['rounds']}")
            if want == "ok":
                mroots = mroots + [o["outcome"]["id"]]
                iroots = iroots + [h["final_id"]]
        elif h.get("stages"):
            # the model returned by the pipeline is a root too
            ctx.count("via_model_functionalizeAny")
            if o["outcome"]["r"] != "ok":
                ctx.disagree(f"functionalize(pipeline): model {o['outcome']}, implementation returned", case, o["outcome"], "ok")
                continue
            mroots = mroots + [o["outcome"]["id"]]
            iroots = iroots + [h["final_id"]]
        cm, _ = canon(o["world"], mroots)
        ci, _ = canon(h["world2"], iroots)
        if cm != ci:
            ctx.disagree(f"heap after edits on the {h['side']}", case, first_diff(cm, ci), None)


def run(ctx: Ctx) -> None:
    ctx.rule = (
        "random IR specs (model/graph/subgraph/function/view/functionalize targets); a case is one clone or one "
        "edit history; non-trivial = the main graph has >= 1 node (clone) / the history has >= 1 edit; distinct "
        "by spec (+ history)"
    )
    for obj in load_corpus("C13"):
        replay(ctx, obj)
    n = ctx.pick(600, 6000)
    base = ctx.rng.randrange(1 << 30)
    seeds = [base + 7 * i for i in range(n)]
    chunks = [seeds[i::32] for i in range(32)]
    parts = pmap(_worker, [(c, ctx.pick(2, 4), ctx.pick(6, 8), 4) for c in chunks])
    results = []
    for part, res in parts:
        ctx.merge(part)
        results += res
    compare_cases(ctx, results)
    # deep_copy of the objects stored in `meta` (C13_deep_copy_meta_*): own stream, own model (IrVerif.Clone.Meta)
    from harness.c13_meta import run_meta

    run_meta(ctx)


def replay(ctx: Ctx, obj: dict) -> None:
    """obj: a replay file / corpus line: {"case": {"spec": .., ["side": .., "edits": ..]}}"""
    import logging

    logging.disable(logging.CRITICAL)
    case = obj.get("case", obj)
    if "meta_case" in case or "meta_edge" in case:
        from harness.c13_meta import replay_meta

        return replay_meta(ctx, obj)
    if "spec" not in case:  # an unchecked-obligation replay: re-run its disagreeing cases
        for d in obj.get("correspondence_disagreements", []):
            replay(ctx, d)
        return
    spec = case["spec"]
    part = Part()
    fixed = [(case["side"], case["edits"])] if "edits" in case else None
    try:
        res = cpu_guarded(lambda: real_case(spec, 1, 2, 6, part, fixed_plans=fixed))
    except _Hang:
        part.fail(f"nontermination:real-case:{spec['target']['kind']}",
                  f"the real code did not finish a clone / edit case within {CPU_BUDGET_CASE:.0f}s of CPU time",
                  {"spec": spec})  # fmt: skip
        ctx.merge(part)
        return
    ctx.merge(part)
    compare_cases(ctx, [res])

"""C20 — journaling observes without interfering and always restores the classes (DESIGN.md 5/C20).

Model: lean/IrVerif/Model/Journal.lean (class method table, Journal.__enter__ with its re-entry guard,
__exit__, the four wrapper factories: details evaluated / original called / entry recorded in the
order of the code, nested journals, an abstract semantics of instrumented operations that call each
other through the table).  Theorems: lean/IrVerif/Props/C20.lean (restore, transparent, entries).

What this file does on every run
* correspondence (model vs /repo):
  - `journal.slots`: the model's static slot table (key, wrapper kind, operation, attribute) vs the
    closures that `wrap_ir_classes` really installs;
  - `journal.ctl`: flat sequences of raw `__enter__`/`__exit__` calls (properly nested or not,
    re-entry, exit of a never-entered journal) — class table decoded from the real function
    objects (wrapper layers per slot, which journal made each layer, which original is at the
    bottom), current journal, previous links, captured tables, active flags, refusals, after every
    step;
  - `journal.run`: random public-API histories inside 0-3 nested journals with `try` blocks and
    exceptions.  The call tree of the *original* functions is observed with `sys.monitoring`
    (independent of the wrappers) in the UN-journaled run and given to the model as the script of
    what the originals do; the model then predicts, for the journaled run: outcome of every
    operation, the exception leaving the history, the order in which the originals execute relative
    to enter/exit, every journal's entries (operation + object), final table / current journal /
    active flags.  Compared with the real journaled run.  (Histories with a refused re-entry take
    another path than their un-journaled twin: there the journaled run's own tree is the script.)
  - `odd-repr`: histories in which a user object's repr raises or has a side effect, so that a
    wrapper's `details` expression raises / has an effect: the model, told which details
    expressions do that (found by evaluating the real details lambdas in an un-journaled probing
    run), must predict the real journaled run.
* oracle (the property itself on the real objects, independent of the model):
  - transparent: un-journaled vs journaled run of the same history: results, exception types and
    texts (ids masked), executed originals (call trees), complete IR snapshots;
  - DetailsOk / DetailsPure: no details expression raises, takes an element from a one-shot iterable
    argument (every operation taking an iterable is also called with one) or changes the IR;
  - entries: each journal's entries = the operations that completed while it was entered, in order
    of completion, nothing for an operation that raised; right class name, weak ref to the right
    object; the fields of an entry hold no IR instance (float, class, str, FrameSummary w/o locals);
  - restore: after every `with` exit (normal or by exception) every patched attribute is the
    object it was before the `with` (function identity; fget/fset/fdel/doc for properties; no
    attribute added to or removed from any class), `get_current_journal()` is back;
  - no strong reference: with all journals' entries alive, dropping the IR objects lets every one
    of them die (gc + weakref); a journal receives no entry after it was left.
* round 3:
  - `journal.meta` / `journal.details` (`check_slot_table`): the installed table entry by entry against the SOURCE of
    get_original_methods / wrap_ir_classes / restore_ir_classes (ast), against the class attributes that really change on
    __enter__ (all classes of both modules), and against the behaviour of each installed wrapper's code object with its
    real details lambda around stubs (order details / original / record, result, target, details string);
  - `check_entry_shape`: JournalEntry's fields / frozen / runtime types vs the model's EntryFull; gc.get_referents;
  - `journal.ctl` with a `fail` event (`exit_fault_stream`): a restore step that raises; `generator_stream`;
  - `journal.kernel` (`kernel_stream`): C01-alphabet histories (kernel_ops.Gen) inside 0-3 journals: the model's
    instantiated call tree of every call vs the observed one, entries, outcomes, kernel snapshot with vs without journal.
* round 4:
  - `journal.flat` (`flat_stream`): flat histories (`runFlat`): raw __enter__ / __exit__ calls (with (None, None, None) or
    with the triple of a live exception), public-API operations in between, in any order (all words of length <= 4-5
    over a 5-letter alphabet, random properly nested and free words over 3 journals): control state after every item,
    WellBracketed (model) vs the harness' stack discipline, outcomes, entries; oracle: a properly nested word restores
    classes / current journal / active flags (C20_restore_flat), IR and results as without journals, entries = calls
    completed while entered;
  - captured callables (`capture` / `callcap` items of `journal.flat`): a callable taken from an instance or from the
    class (method, constructor, property setter, container method) before / inside a journal and called inside /
    after it: what was looked up (wrapper layers) and what calling it records, model vs code; oracle: a journal
    receives nothing after it was left (`captured-inside/records-after-exit:*`, finding D471; a probe of the real
    wrappers selects `callCaptured` or, once they check `journal._active`, `callCapturedGuarded`);
  - `journal.kernel` now runs the EXTENDED C01 alphabet with its spellings (through an ir.Function, Node.append /
    prepend, a Tape / Builder, graph attributes, every dict spelling of an attribute edit): the model's spelled call
    tree `callTreeX` incl. what every instrumented call returns, the receiver of Graph.sort, values returned by the
    public calls.  An op outside `K_INSTANTIATED` is reported as a broken correspondence that names it.
* round 5 (the code as it is since repo commit 1a1144b: every wrapper looks at `journal._active`):
  - the model has the CHECKED code everywhere (`dispatchG` / `runBlockG` / `runFlatG` / `callCapturedG`); a probe of the real
    wrappers (`guarded_code`) selects the variant that `journal.run` / `journal.kernel` / `journal.flat` execute, so every
    stream compares the real code with the model of the real code; C20_table_wrappers_active (every wrapper installed in
    the class table of a properly nested history belongs to an active journal; checked = unchecked state for state) carries
    the run theorems over by proof.  The invariant is evaluated on the real objects after every item of every flat history
    (decoded class table x real `_active` flags; oracle `*/stale-wrapper-installed` on properly nested words) and compared
    with the model's (`table_active`);
  - IMPROPERLY nested flat histories with operations: entries are compared too (the stale wrappers forward in the model
    as in the code); deterministic family `flat-family` (crossed exits, operations of every wrapper kind behind stale
    wrappers, the stale journal entered again); whether the entries still are "the calls completed while entered" is an
    observation (histogram), the theorems there are C20_inactive_journal_silent / C20_stale_wrapper_forwards;
  - the `_active` check of every slot's real wrapper code object around a stub journal with `_active = False` (forwards:
    original once, no details, no record; result / None; exception propagates) vs the flags computed from
    `runImplGuarded` (C20_wrapper_guard);
  - permanent families with floors: `empty-owner` (every container operation on a graph / function with ZERO nodes inside
    1-2 journals: seeded C20-q1), `journal-reuse` + flat forms (a Journal entered, exited and entered again in another
    nesting context: seeded C20-q2);
  - `RetTracer`: what every outermost PUBLIC call of the kernel alphabet (kernel_ops.API_TABLE members mapped to a kernel
    op, instrumented or not: initializers.pop / popitem / setdefault, attributes.*, Tape.op, Builder.<Op>, convenience.*)
    hands back - value or exception type - with vs without journals (oracle `kernel/transparent-public-result:*`).
* coverage floor: two deterministic histories call all 43 instrumented operations inside journals;
  the run fails (exit 2) if any slot was exercised fewer than FLOOR times.
"""
from __future__ import annotations

import gc
import json
import re
import sys
import weakref
import zlib

import time

from harness import common as _common
from harness.common import Ctx, Infra, Part, load_corpus, pmap


def lean_batch(requests: list) -> list:
    """common.lean_batch, retried while the driver binary is being relinked by a concurrent build."""
    for attempt in range(8):
        try:
            return _common.lean_batch(requests)
        except (Infra, FileNotFoundError, PermissionError, OSError) as e:
            if attempt == 7 or not ("not built" in str(e) or isinstance(e, OSError)):
                raise
            time.sleep(2.0)
    raise Infra("model driver unavailable")


THEOREMS = [
    "IrVerif.Journal.C20_restore",
    "IrVerif.Journal.C20_restore_active",
    "IrVerif.Journal.C20_reentry_refused",
    "IrVerif.Journal.C20_guard_needed",
    "IrVerif.Journal.C20_transparent",
    "IrVerif.Journal.C20_transparent_from_start",
    "IrVerif.Journal.C20_transparent_needs_DetailsOk",
    "IrVerif.Journal.C20_transparent_needs_DetailsPure",
    "IrVerif.Journal.C20_transparent_needs_NoReentry",
    "IrVerif.Journal.C20_transparent_needs_ProcNone",
    "IrVerif.Journal.C20_entries",
    "IrVerif.Journal.C20_entries_active",
    # round 3
    "IrVerif.Journal.C20_slot_table",
    "IrVerif.Journal.C20_wrapper_order",
    "IrVerif.Journal.C20_no_strong_ref",
    "IrVerif.Journal.C20_no_strong_ref_record",
    "IrVerif.Journal.C20_entry_core",
    "IrVerif.Journal.C20_no_strong_ref_run",
    "IrVerif.Journal.C20_exit_fault",
    "IrVerif.Journal.C20_exit_fault_leaves_wrapped",
    "IrVerif.Journal.C20_exit_retry",
    "IrVerif.Journal.C20_restore_generator_close",
    "IrVerif.Journal.C20_improper_nesting_not_restored",
    "IrVerif.Journal.C20_kernel_plain",
    "IrVerif.Journal.C20_transparent_kernel",
    # round 4
    "IrVerif.Journal.C20_restore_flat",
    "IrVerif.Journal.C20_restore_flat_needs_fresh",
    "IrVerif.Journal.C20_exit_restores_own_snapshot",
    "IrVerif.Journal.C20_improper_nesting_general",
    "IrVerif.Journal.C20_captured_before_not_recorded",
    "IrVerif.Journal.C20_captured_inside_records_after_exit",
    "IrVerif.Journal.C20_captured_inside_witness",
    "IrVerif.Journal.C20_captured_inside_guarded",
    "IrVerif.Journal.C20_guard_noop_when_active",
    "IrVerif.Journal.C20_captured_after_exit_guarded",
    "IrVerif.Journal.C20_transparent_kernel_spelled",
    "IrVerif.Journal.C20_kernel_plain_spelled",
    # round 5: the code as it is now (every wrapper checks journal._active)
    "IrVerif.Journal.C20_table_wrappers_active",
    "IrVerif.Journal.C20_flat_guarded",
    "IrVerif.Journal.C20_block_guarded",
    "IrVerif.Journal.C20_dispatch_guarded",
    "IrVerif.Journal.C20_transparent_guarded",
    "IrVerif.Journal.C20_transparent_from_start_guarded",
    "IrVerif.Journal.C20_entries_guarded",
    "IrVerif.Journal.C20_entries_active_guarded",
    "IrVerif.Journal.C20_restore_guarded",
    "IrVerif.Journal.C20_restore_flat_guarded",
    "IrVerif.Journal.C20_no_strong_ref_run_guarded",
    "IrVerif.Journal.C20_transparent_kernel_guarded",
    "IrVerif.Journal.C20_kernel_plain_guarded",
    "IrVerif.Journal.C20_captured_guarded_full",
    "IrVerif.Journal.C20_inactive_journal_silent",
    "IrVerif.Journal.C20_inactive_journal_silent_needs_guard",
    "IrVerif.Journal.C20_stale_wrapper_forwards",
    "IrVerif.Journal.C20_exit_restores_own_snapshot_guarded",
    "IrVerif.Journal.C20_improper_nesting_general_guarded",
    "IrVerif.Journal.C20_wrapper_guard",
]
# "entries keep no strong reference": since round 3 the model represents the entry as the dataclass is (eight
# fields, `EntryFull`; object-valued fields would be `FVal.inst`) and every wrapper's details expression as a
# function to String; C20_no_strong_ref is a statement about that construction function.  What ties it to /repo:
# field names / frozen / runtime field types of real entries (`check_entry_shape`), the details string of every
# slot's real lambda vs the model's (`check_slot_table`), gc.get_referents of every real entry, and the gc +
# weakref oracle.
ASSUMPTIONS = [
    "DetailsOk / DetailsPure: the wrappers' `details` expressions (repr of arguments, getattr(self, '_name')) do not "
    "raise and have no effect on the IR or on one-shot iterable arguments: hypotheses of C20_transparent (DetailsOk also "
    "of C20_entries); checked on the real details lambdas in a probing run of every generated history (that is how D70 "
    "was found), with one-shot iterables for every operation that takes an iterable; not proved",
    "ProcNone: instrumented constructors and property setters return None (checked on every traced call)",
    "no hooks registered on the journal (Journal.add_hook); a hook runs user code inside record()",
    "the run theorems (C20_transparent / C20_entries) look every operation up on the class at call time.  A callable kept "
    "by user code across the boundary of a `with journal:` block is modelled separately (Captured / capture / callCaptured): "
    "taken before and called inside it is not recorded (C20_captured_before_not_recorded: inherent in patching classes, "
    "reported in the distribution, not a failure); taken inside and called after exit it recorded into the journal that "
    "was left (C20_captured_inside_records_after_exit: finding D471, fixed in /repo by commit 1a1144b - the wrappers now "
    "forward when journal._active is false: C20_captured_after_exit_guarded; the oracle `captured-inside/records-after-exit:*` "
    "stays).  Since round 5 the model has the CHECKED code everywhere (dispatchG / runBlockG / runFlatG / callCapturedG: the "
    "wrappers of the call and of every nested call look at journal._active); C20_table_wrappers_active proves that along a "
    "properly nested history every wrapper installed in the class table belongs to an active journal and that the checked "
    "code is state-for-state the unchecked one, so C20_transparent_guarded / C20_entries_guarded / C20_restore_guarded / "
    "C20_transparent_kernel_guarded are theorems about the code as it is; a probe of the real wrappers "
    "(stale_wrapper_records) selects which of the two model variants every stream is compared with",
    "after exit the patched properties are NEW property objects with the original fget/fset/fdel/doc (restore_ir_classes "
    "builds property(fget, fset)); `is`-identity of the property object itself is not restored and not claimed "
    "(nothing in onnx_ir depends on it); identity of plain methods is restored and checked",
    "no strong reference: C20_no_strong_ref is about the model's entry-construction function (EntryFull: the eight "
    "dataclass fields; details = a function from an environment of repr strings to a string).  That the real "
    "record() builds that entry is differential: field names / types introspected and compared, details strings of all "
    "43 real lambdas compared on synthetic arguments, gc.get_referents of every real entry, gc + weakref on every history",
    "C20_restore assumes that the 43 assignments of restore_ir_classes themselves do not raise (plain setattr of captured "
    "objects).  A restore step that raises (injected through the private _original_methods, or an asynchronous exception) "
    "leaves the remaining slots wrapped and the journal current/active; a second __exit__ completes the restore "
    "(C20_exit_fault / C20_exit_retry, model compared with the code under fault injection; observation D470, outside the property)",
    "kernel instantiation (C20_transparent_kernel / _spelled): the kernel updates its state atomically per public call, placed "
    "after the call's instrumented sub-calls returned; the spelling of a call (through an ir.Function created on first use, "
    "Node.append / prepend, Attr objects built for it, `|=`) and the numbering of Function / Attr objects are supplied by the "
    "harness (the kernel op does not carry them); a public call returns what its instrumented root call handed back when it "
    "IS that call (isDirect), None otherwise (e.g. initializers.pop(key) returns the value without an instrumented call: "
    "not in the model; since round 5 what EVERY outermost public call of the alphabet hands back - value or exception type - is "
    "compared with vs without journals on the real code, oracle kernel/transparent-public-result); a non-Attr attribute argument, Value(producer, index=...) and Node(outputs=[initializer]) (C01 finding "
    "D12b) are not in the kernel stream; Graph.remove / Graph.sort sub-call order is address-dependent and compared as "
    "multisets (also the entries of histories containing them)",
    "generators: a journal held open by a generator is closed by GeneratorExit / gc (an exit by exception: C20_restore); "
    "closing it while a journal entered later is still open is an exit out of order (C20_improper_nesting_not_restored: "
    "classes stay wrapped) - outside 'properly nested', generated and compared with the model, reported in the distribution",
    "wrappers consume no recursion depth (a RecursionError could come earlier inside a journal)",
    "CPython attribute lookup on classes, functools.wraps, property objects, weakref, gc, sys.monitoring: trusted",
    "single thread: the class table and _current_journal are process-global",
]

FUEL = 64
FLOOR = 2  # the two deterministic coverage histories alone give every slot 2

# --------------------------------------------------------------------------- the real code


class Real:
    """Handles on the implementation under test (imported lazily so PYTHONPATH is honoured)."""

    _inst = None

    def __init__(self):
        import onnx_ir as ir
        from onnx_ir import _core, _graph_containers
        from onnx_ir.journaling import _journaling, _wrappers

        import logging

        logging.getLogger("onnx_ir").setLevel(logging.ERROR)  # (de)serialization warnings about odd graphs
        self.ir, self.core, self.gc_, self.J, self.W = ir, _core, _graph_containers, _journaling, _wrappers
        if _journaling.get_current_journal() is not None:
            raise RuntimeError("a journal is active at harness start")
        self.BASE = _wrappers.get_original_methods()
        self.KEYS = list(self.BASE)
        self.code2slot = {fn.__code__: k for k, fn in enumerate(self.BASE.values())}
        assert len(self.code2slot) == len(self.KEYS)
        self.base_index = {id(fn): k for k, fn in enumerate(self.BASE.values())}
        self.wrapper_codes = {}
        self.shape_error = None
        for fac, kind in (
            ("_init_wrapper", "init"),
            ("_setter_wrapper", "setter"),
            ("_method_wrapper", "method"),
            ("_container_method_wrapper", "container"),
        ):
            f = getattr(_wrappers, fac)
            inner = [c for c in f.__code__.co_consts if hasattr(c, "co_name") and c.co_name == "wrapper"]
            if len(inner) != 1:
                # the factory has no closure of its own named `wrapper` (e.g. it delegates to another factory): the
                # wrappers it installs are then classified by the factory that really builds them; a difference from
                # the model's kind shows up as a broken correspondence in the slot probes, not as a harness crash
                self.shape_error = (f"{fac} has {len(inner)} inner closures named `wrapper` (expected 1): the harness "
                                    "identifies instrumented calls by the code objects of the four wrapper factories and "
                                    "cannot do so for this shape of _wrappers.py")
                continue
            self.wrapper_codes[inner[0]] = kind
        # the classes whose attributes are patched, and the property objects' other parts
        self.classes = []
        self.props = {}
        self.prop_objs = {}
        for key in self.KEYS:
            parts = key.split(".")
            cls = getattr(_core, parts[0], None) or getattr(_graph_containers, parts[0])
            if cls not in self.classes:
                self.classes.append(cls)
            if parts[-1] == "fset":
                p = cls.__dict__[parts[1]]
                self.props[key] = (cls, parts[1], p.fget, p.fdel, p.__doc__)
                self.prop_objs[key] = p
        self.class_dicts = [frozenset(vars(c)) for c in self.classes]
        # every function / property / classmethod / staticmethod attribute of every class of the two modules, as it
        # is before any journal: an attribute that a journal replaces and does not put back (a slot that is wrapped
        # but missing from the saved table) is a restore failure even if the table does not list it
        import inspect
        import types

        self.all_attrs = {}
        for mod in (_core, _graph_containers):
            for _n, c in sorted(vars(mod).items()):
                if inspect.isclass(c) and str(c.__module__).startswith("onnx_ir") and c not in self.all_attrs:
                    self.all_attrs[c] = {
                        a: o for a, o in vars(c).items()
                        if isinstance(o, (types.FunctionType, property, classmethod, staticmethod))
                    }
        self.ir_types = (
            _core.Value, _core.Node, _core.Graph, _core.Function, _core.Model, _core.Attr,
            _core.TensorBase, _graph_containers._GraphIO, _graph_containers.GraphInitializers,
            _graph_containers.Attributes,
        )

    @classmethod
    def get(cls) -> "Real":
        if cls._inst is None:
            cls._inst = Real()
        return cls._inst

    # ---- class table
    def table(self) -> list:
        cur = self.W.get_original_methods()
        return [cur[k] for k in self.KEYS]

    def decode_impl(self, fn, journals: list) -> dict:
        layers = []
        while True:
            code = getattr(fn, "__code__", None)
            if code in self.wrapper_codes and len(layers) < 64:
                cells = dict(zip(code.co_freevars, (c.cell_contents for c in fn.__closure__)))
                jr = cells["journal"]
                layers.append(next((i for i, x in enumerate(journals) if x is jr), -1))
                fn = cells.get("original_init") or cells.get("original_setter") or cells.get("original_method")
            else:
                break
        return {"layers": layers, "base": self.base_index.get(id(fn), -1)}

    def decode_table(self, fns, journals: list) -> list:
        return [self.decode_impl(f, journals) for f in fns]

    def property_objects_recreated(self) -> int:
        """How many of the patched properties are not the very object they were at start (information)."""
        return sum(1 for key, (cls, name, *_r) in self.props.items() if cls.__dict__.get(name) is not self.prop_objs[key])

    def pristine_problems(self) -> list[str]:
        """Everything that differs from the state captured at start (empty = restored)."""
        bad = []
        for key, fn in zip(self.KEYS, self.table()):
            if fn is not self.BASE[key]:
                bad.append(key)
        for key, (cls, name, fget, fdel, doc) in self.props.items():
            p = cls.__dict__.get(name)
            if not isinstance(p, property) or p.fget is not fget or p.fdel is not fdel or p.__doc__ != doc:
                bad.append(key + ":property-parts")
        for cls, d in zip(self.classes, self.class_dicts):
            if frozenset(vars(cls)) != d:
                bad.append(cls.__name__ + ":class-dict-keys")
        if self.J.get_current_journal() is not None:
            bad.append("current-journal")
        patched_props = {(cls, name) for (cls, name, *_r) in self.props.values()}
        for cls, snap in self.all_attrs.items():
            now = vars(cls)
            for a, o in snap.items():
                if (cls, a) in patched_props:
                    continue  # re-created by restore; its parts are compared above
                if now.get(a) is not o:
                    bad.append(f"{cls.__name__}.{a}:not-restored")
        return bad

    def repair(self) -> None:
        """Puts every patched attribute back (written here, independent of restore_ir_classes)."""
        for key, fn in self.BASE.items():
            parts = key.split(".")
            cls = getattr(self.core, parts[0], None) or getattr(self.gc_, parts[0])
            if parts[-1] == "fset":
                _c, name, fget, fdel, doc = self.props[key]
                setattr(cls, name, property(fget, fn, fdel, doc))
            else:
                setattr(cls, parts[1], fn)
        patched_props = {(cls, name) for (cls, name, *_r) in self.props.values()}
        for cls, snap in self.all_attrs.items():
            for a, o in snap.items():
                if (cls, a) not in patched_props and vars(cls).get(a) is not o:
                    setattr(cls, a, o)
        self.J._current_journal = None


# --------------------------------------------------------------------------- tracing originals


class Registry:
    """Object identity -> index of first sight (keeps the objects alive so ids are not reused)."""

    def __init__(self):
        self.objs: list = []
        self.ids: dict[int, int] = {}

    def idx(self, o) -> int:
        i = self.ids.get(id(o))
        if i is None:
            i = len(self.objs)
            self.objs.append(o)
            self.ids[id(o)] = i
        return i


def exc_code(name: str) -> int:
    return 2 + zlib.crc32(name.encode()) % 99991


class Tracer:
    """Independent observation of which original functions run (sys.monitoring on their code objects)."""

    TOOL = None  # a free sys.monitoring tool id, chosen at first use
    _inst = None

    def __init__(self, R: Real):
        self.R = R
        self.active = False
        self.events: list = []
        self.reg: Registry | None = None
        self.owner: dict[int, int] = {}
        self.stack: list = []
        self.init_nonnone = 0
        mon = sys.monitoring
        E = mon.events
        free = [i for i in (4, 3, 5, 2, 1, 0) if mon.get_tool(i) is None]
        if not free:
            raise Infra("no free sys.monitoring tool id")
        Tracer.TOOL = free[0]
        mon.use_tool_id(self.TOOL, "irverif-c20")
        mon.register_callback(self.TOOL, E.PY_START, self._start)
        mon.register_callback(self.TOOL, E.PY_RETURN, self._ret)
        mon.register_callback(self.TOOL, E.PY_UNWIND, self._unwind)
        for code in R.code2slot:
            mon.set_local_events(self.TOOL, code, E.PY_START | E.PY_RETURN)
        mon.set_events(self.TOOL, E.PY_UNWIND)
        self.attr = [None] * len(R.KEYS)

    @classmethod
    def get(cls, R: Real) -> "Tracer":
        if cls._inst is None:
            cls._inst = Tracer(R)
        return cls._inst

    def begin(self, reg: Registry, probe: bool = False) -> None:
        self.events, self.reg, self.owner, self.stack, self.active = [], reg, {}, [], True
        # probe mode: additionally evaluate, at the point where the wrapper would, the real `details`
        # expression of every call and note the calls (rank among the start events) where it raises
        self.probe, self.nstart, self.details_fail = probe, 0, []
        # ... and the calls where evaluating it has an effect (consumes a one-shot iterable argument,
        # runs a user repr with a side effect): EFFECTS[0] moves during the evaluation
        self.details_effect: list = []
        # ranks (among the start events) of container calls whose owner - a Graph / Function - holds ZERO nodes at the
        # moment of the call (an empty Graph is falsy: Sequence[Node])
        self.empty_owner: set = set()

    def end(self) -> None:
        self.active = False
        self.reg = None

    def val(self, v):
        if v is None:
            return None
        if isinstance(v, bool):
            return int(v)
        if isinstance(v, int):
            return v
        if isinstance(v, self.R.ir_types):
            return {"ref": self.reg.idx(v)}
        return 1_000_000 + zlib.crc32(type(v).__name__.encode()) % 1000

    def _start(self, code, _off):
        if not self.active:
            return
        k = self.R.code2slot[code]
        slf = sys._getframe(1).f_locals.get("self")
        i = self.reg.idx(slf)
        tattr = SLOT_ATTR[k]
        rank = self.nstart
        if tattr is not None:
            own = getattr(slf, tattr)
            self.owner[i] = self.reg.idx(own)
            try:
                if isinstance(own, (self.R.core.Graph, self.R.core.Function)) and len(own) == 0:
                    self.empty_owner.add(rank)
            except Exception:  # noqa: BLE001 - real code called from a monitoring callback must not leak into the monitored call
                pass
        self.nstart += 1
        self.stack.append((k, i, rank, slf if self.probe else None))
        self.events.append(["start", k, i])
        if self.probe and SLOT_KIND[k] != "init" and (SLOT_DETAILS[k] is not None or SLOT_KIND[k] == "setter"):
            before = EFFECTS[0]
            try:
                if SLOT_KIND[k] == "setter":
                    loc = sys._getframe(1).f_locals
                    repr(getattr(slf, SLOT_PROP[k]))
                    repr(loc["value"])
                else:
                    loc = sys._getframe(1).f_locals
                    SLOT_DETAILS[k](slf, *[loc[n] for n in code.co_varnames[1 : code.co_argcount]])
            except Exception:
                self.details_fail.append(rank)
            if EFFECTS[0] != before:
                self.details_effect.append(rank)

    def _ret(self, code, _off, rv):
        if not self.active:
            return
        k, i, rank, slf = self.stack.pop()
        if SLOT_KIND[k] == "init" and rv is not None:
            self.init_nonnone += 1
        self.events.append(["finish", k, i, {"ret": self.val(rv)}])
        if self.probe and SLOT_KIND[k] == "init" and SLOT_DETAILS[k] is not None:
            before = EFFECTS[0]
            try:
                SLOT_DETAILS[k](slf)
            except Exception:
                self.details_fail.append(rank)
            if EFFECTS[0] != before:
                self.details_effect.append(rank)

    def _unwind(self, code, _off, exc):
        if not self.active or code not in self.R.code2slot:
            return
        k, i, _rank, _slf = self.stack.pop()
        self.events.append(["finish", k, i, {"raise": exc_code(type(exc).__name__)}])


# static description of the slots as the harness understands them (checked against both the model
# and the real closures in `check_slots`)
SLOT_KIND: list = []
SLOT_ATTR: list = []  # target attribute for container wrappers, else None
SLOT_OP: list = []
SLOT_DETAILS: list = []  # the real `details_func` of the wrapper (None for setter wrappers)
SLOT_PROP: list = []  # `property_name` of setter wrappers


def load_slot_table(R: Real) -> list:
    """Reads kind / operation / attribute of every slot from the closures really installed."""
    j = R.J.Journal()
    rows = []
    with j:
        for key, fn in zip(R.KEYS, R.table()):
            code = fn.__code__
            kind = R.wrapper_codes.get(code)
            cells = dict(zip(code.co_freevars, (c.cell_contents for c in fn.__closure__))) if kind else {}
            op = cells.get("operation", "init" if kind == "init" else "")
            attr = cells.get("target_attr") or cells.get("property_name") or ""
            rows.append([key, kind or "?", op, attr])
            SLOT_DETAILS.append(cells.get("details_func"))
            SLOT_PROP.append(cells.get("property_name"))
    del SLOT_DETAILS[: -len(rows)], SLOT_PROP[: -len(rows)]
    SLOT_KIND[:] = [r[1] for r in rows]
    SLOT_ATTR[:] = [r[3] if r[1] == "container" else None for r in rows]
    SLOT_OP[:] = [r[2] for r in rows]
    return rows


# --------------------------------------------------------------------------- op interpreter


class BadRepr:
    """A user object whose repr raises (makes a wrapper's `details` expression raise)."""

    def __repr__(self):
        raise RuntimeError("repr of a user object fails")


# moved by everything whose evaluation is an observable effect: taking an element from a OneShot
# iterable, the repr of a SideRepr object
EFFECTS = [0]


class SideRepr:
    """A user object whose repr has a side effect (leaves a mark in the trace)."""

    def __repr__(self):
        EFFECTS[0] += 1
        tr = Tracer._inst
        if tr is not None and tr.active:
            tr.events.append(["mark"])
        return "<side>"


class OneShot:
    """A one-shot iterable argument (like a generator); taking an element is counted."""

    def __init__(self, items):
        self._it = iter(list(items))

    def __iter__(self):
        return self

    def __next__(self):
        x = next(self._it)
        EFFECTS[0] += 1
        return x


BAD = BadRepr()
BAD_NAME = "<<bad-repr>>"
SIDE = SideRepr()
SIDE_NAME = "<<side-repr>>"


def nm(x):
    return BAD if x == BAD_NAME else SIDE if x == SIDE_NAME else x


class UserBoom(Exception):
    """Exception thrown by the user code inside a block."""


class Env:
    def __init__(self, R: Real):
        self.R = R
        self.values, self.nodes, self.graphs, self.tensors = [], [], [], []
        self.attrs, self.functions, self.models = [], [], []
        self.captured: dict = {}
        self._seen: set[int] = set()

    def add(self, lst: list, o) -> None:
        if id(o) not in self._seen:
            self._seen.add(id(o))
            lst.append(o)

    def add_node(self, n) -> None:
        self.add(self.nodes, n)
        for v in n.outputs:
            self.add(self.values, v)

    def v(self, i):
        return None if i is None or i < 0 else self.values[i]

    def vs(self, idxs):
        return [self.v(i) for i in idxs]

    def ns(self, idxs):
        return [self.nodes[i] for i in idxs]

    def canon(self, x):
        c = self.R.core
        if x is None or isinstance(x, (bool, int, str)):
            return x
        for tag, lst, cls in (("v", self.values, c.Value), ("n", self.nodes, c.Node), ("g", self.graphs, c.Graph)):
            if isinstance(x, cls):
                return [tag, next((i for i, y in enumerate(lst) if y is x), -1)]
        if isinstance(x, (list, tuple)):
            return [self.canon(y) for y in x]
        return "<" + type(x).__name__ + ">"


def it(op: dict, items: list):
    """The iterable argument of an operation: a list, or (op["gen"]) a one-shot iterable."""
    return OneShot(items) if op.get("gen") else items


def exec_op(env: Env, op: dict):
    """Executes one public-API operation; returns its result (exceptions propagate)."""
    ir = env.R.ir
    o = op["op"]
    if o == "raise":
        raise UserBoom("thrown by the user code inside the block")
    if o == "value":
        shape = ir.Shape(op["shape"]) if op.get("shape") is not None else None
        typ = ir.TensorType(ir.DataType(op["dtype"])) if op.get("dtype") is not None else None
        cv = env.tensors[op["const"]] if op.get("const") is not None else None
        v = ir.Value(name=nm(op.get("name")), shape=shape, type=typ, const_value=cv)
        env.add(env.values, v)
        return v
    if o == "tensor":
        import numpy as np

        kind, data, name = op.get("kind", "int64"), op["data"], op.get("name")
        if kind == "int64":
            t = ir.Tensor(np.array(data, dtype=np.int64), name=name)
        elif kind == "string":
            t = ir.StringTensor([str(x).encode() for x in data], shape=ir.Shape([len(data)]), name=name)
        elif kind == "external":  # never read: the file does not exist
            t = ir.ExternalTensor("c20-missing.bin", 0, 8 * len(data), ir.DataType.INT64, shape=ir.Shape([len(data)]),
                                  name=name or "ext", base_dir="/nonexistent-c20")
        elif kind == "lazy":
            t = ir.LazyTensor(lambda: ir.Tensor(np.array(data, dtype=np.int64)), ir.DataType.INT64, ir.Shape([len(data)]), name=name)
        elif kind == "packed":
            t = ir.PackedTensor(np.array([x % 16 for x in data] or [0], dtype=np.uint8), ir.DataType.UINT4,
                                shape=[2 * max(len(data), 1)], name=name)
        else:  # a tensor backed by a TensorProto, as deserialization creates them
            import onnx.numpy_helper

            t = ir.serde.TensorProtoTensor(onnx.numpy_helper.from_array(np.array(data, dtype=np.int64), name or "p"))
        env.add(env.tensors, t)
        return None
    if o == "pass":
        import onnx_ir.passes.common as pc

        m = env.models[op["m"]]
        res = getattr(pc, op["name"])()(m)
        for n in res.model.graph:
            env.add_node(n)
        return bool(res.modified)
    if o == "serde":
        g2 = ir.serde.deserialize_graph(ir.serde.serialize_graph(env.graphs[op["g"]]))
        env.add(env.graphs, g2)
        for v in list(g2.inputs) + list(g2.initializers.values()):
            env.add(env.values, v)
        for n in g2:
            env.add_node(n)
        return len(g2)
    if o == "capture":  # a bound method object kept by the user code
        env.captured[op["name"]] = getattr(env.graphs[op["g"]], op["meth"])
        return None
    if o == "call_captured":
        f = env.captured[op["name"]]
        return f(env.nodes[op["n"]]) if op.get("n") is not None else f()
    if o == "attr":
        k = op["kind"]
        if k == "int":
            a = ir.AttrInt64(op["name"], op["val"])
        elif k == "str":
            a = ir.AttrString(op["name"], op["val"])
        elif k == "ints":
            a = ir.AttrInt64s(op["name"], op["val"])
        elif k == "tensor":
            a = ir.AttrTensor(op["name"], env.tensors[op["val"]])
        elif k == "graph":
            a = ir.AttrGraph(op["name"], env.graphs[op["val"]])
        else:
            a = ir.RefAttr(op["name"], op["val"], ir.AttributeType.INT)
        env.add(env.attrs, a)
        return None
    if o == "node":
        gr = op.get("graph")
        graph = None if gr is None else (env.functions[gr[1]] if isinstance(gr, list) else env.graphs[gr])
        outs = None if op.get("outputs") is None else env.vs(op["outputs"])
        n = ir.Node(
            op.get("domain", ""), op["op_type"], it(op, env.vs(op["inputs"])),
            [env.attrs[i] for i in op.get("attrs", [])],
            num_outputs=op.get("num_outputs"), outputs=outs, graph=graph,
            name=nm(op.get("name")), version=op.get("version"), overload=op.get("overload", ""),
        )
        env.add_node(n)
        return n
    if o == "graph":
        g = ir.Graph(
            env.vs(op["inputs"]), env.vs(op["outputs"]), nodes=it(op, env.ns(op["nodes"])),
            initializers=env.vs(op.get("inits", [])), name=op.get("name"),
        )
        env.add(env.graphs, g)
        return g
    if o == "function":
        f = ir.Function(op["domain"], op["name"], op.get("overload", ""), graph=env.graphs[op["g"]],
                        attributes=[env.attrs[i] for i in op.get("attrs", [])])
        env.add(env.functions, f)
        return None
    if o == "model":
        m = ir.Model(env.graphs[op["g"]], ir_version=10, functions=[env.functions[i] for i in op.get("fs", [])])
        env.add(env.models, m)
        return None
    # ---- graph node list
    if o in ("g_append", "g_extend", "g_insert_after", "g_insert_before", "g_remove", "g_sort"):
        g = env.graphs[op["g"]] if not op.get("fn") else env.functions[op["g"]]
        if o == "g_append":
            return g.append(env.nodes[op["n"]])
        if o == "g_extend":
            return g.extend(it(op, env.ns(op["ns"])))
        if o in ("g_insert_after", "g_insert_before"):
            new = env.nodes[op["ns"][0]] if op.get("single") else it(op, env.ns(op["ns"]))
            return getattr(g, o[2:])(env.nodes[op["a"]], new)
        if o == "g_remove":
            arg = env.nodes[op["ns"][0]] if op.get("single") else it(op, env.ns(op["ns"]))
            return g.remove(arg, safe=op.get("safe", False))
        return g.sort()
    if o in ("n_prepend", "n_append"):
        new = env.nodes[op["ns"][0]] if op.get("single") else it(op, env.ns(op["ns"]))
        return getattr(env.nodes[op["n"]], o[2:])(new)
    if o == "n_replace_input":
        return env.nodes[op["n"]].replace_input_with(op["i"], env.v(op["v"]))
    if o == "n_resize_inputs":
        return env.nodes[op["n"]].resize_inputs(op["k"])
    if o == "n_resize_outputs":
        n = env.nodes[op["n"]]
        try:
            return n.resize_outputs(op["k"])
        finally:
            for v in n.outputs:
                env.add(env.values, v)
    if o == "v_rauw":
        return env.values[op["v"]].replace_all_uses_with(env.values[op["w"]], replace_graph_outputs=op.get("rgo", False))
    if o == "conv_rauw":
        return ir.convenience.replace_all_uses_with(env.vs(op["vs"]), env.vs(op["ws"]), replace_graph_outputs=op.get("rgo", False))
    if o == "conv_rename":
        return ir.convenience.rename_values(env.vs(op["vs"]), op["names"])
    if o == "conv_replace_nodes":
        return ir.convenience.replace_nodes_and_values(
            env.graphs[op["g"]], env.nodes[op["ip"]], env.ns(op["old"]), env.ns(op["new"]),
            env.vs(op["oldv"]), env.vs(op["newv"]),
        )
    # ---- graph inputs / outputs
    if o.startswith("io_"):
        g = env.graphs[op["g"]]
        lst = g.inputs if op["which"] == "inputs" else g.outputs
        m = o[3:]
        if m == "append":
            return lst.append(env.v(op["v"]))
        if m == "extend":
            return lst.extend(it(op, env.vs(op["vs"])))
        if m == "insert":
            return lst.insert(op["i"], env.v(op["v"]))
        if m == "pop":
            return lst.pop() if op.get("i") is None else lst.pop(op["i"])
        if m == "remove":
            return lst.remove(env.v(op["v"]))
        if m == "clear":
            return lst.clear()
        if m == "setitem":
            lst[op["i"]] = env.v(op["v"])
            return None
        if m == "setslice":
            lst[op["lo"] : op["hi"]] = it(op, env.vs(op["vs"]))
            return None
        if m == "delitem":
            del lst[op["i"]]
            return None
        if m == "delslice":
            del lst[op["lo"] : op["hi"]]
            return None
        if m == "reverse":
            return lst.reverse()
        if m == "iadd":
            lst += env.vs(op["vs"])
            return None
        if m == "len":
            return len(lst)
    # ---- initializers
    if o.startswith("init_"):
        g = env.graphs[op["g"]]
        d = g.initializers
        m = o[5:]
        if m == "set":
            d[op["key"]] = env.v(op["v"])
            return None
        if m == "del":
            del d[op["key"]]
            return None
        if m == "add":
            return d.add(env.v(op["v"]))
        if m == "pop":
            return d.pop(op["key"])
        if m == "popitem":
            return d.popitem()[1]
        if m == "clear":
            return d.clear()
        if m == "update":
            return d.update({(x.name if x is not None else None): x for x in env.vs(op["vs"])})
        if m == "setdefault":
            return d.setdefault(op["key"], env.v(op["v"]))
        if m == "ior":
            d |= {x.name: x for x in env.vs(op["vs"])}
            return None
        if m == "register":
            return g.register_initializer(env.v(op["v"]))
    # ---- setters
    if o == "v_name":
        env.values[op["v"]].name = nm(op["s"])
        return None
    if o == "n_set":
        setattr(env.nodes[op["n"]], op["field"], nm(op["s"]))
        return None
    if o == "n_graph":
        env.nodes[op["n"]].graph = None if op["g"] is None else env.graphs[op["g"]]
        return None
    if o == "f_set":
        setattr(env.functions[op["f"]], op["field"], op["s"])
        return None
    if o == "fa_set":  # function.attributes[key] = attr (Attributes.__setitem__ recorded on the function)
        env.functions[op["f"]].attributes[op["key"]] = env.attrs[op["a"]]
        return None
    if o == "v_type":
        env.values[op["v"]].type = None if op["dtype"] is None else ir.TensorType(ir.DataType(op["dtype"]))
        return None
    if o == "v_shape":
        env.values[op["v"]].shape = None if op["shape"] is None else ir.Shape(op["shape"])
        return None
    if o == "v_const":
        env.values[op["v"]].const_value = None if op["t"] is None else env.tensors[op["t"]]
        return None
    if o == "v_merge":
        return env.values[op["v"]].merge_shapes(None if op["shape"] is None else ir.Shape(op["shape"]))
    # ---- attributes
    if o.startswith("na_"):
        d = env.nodes[op["n"]].attributes
        m = o[3:]
        if m == "set":
            d[op["key"]] = env.attrs[op["a"]]
            return None
        if m == "add":
            return d.add(env.attrs[op["a"]])
        if m == "pop":
            d.pop(op["key"])
            return None
        if m == "del":
            del d[op["key"]]
            return None
        if m == "update":
            return d.update({env.attrs[i].name: env.attrs[i] for i in op["as"]})
        if m == "clear":
            return d.clear()
    raise LookupError(f"unknown op {o}")


def snapshot(env: Env) -> dict:
    """Canonical description of every IR object the history can reach (identities -> indices)."""
    vid = {id(x): i for i, x in enumerate(env.values)}
    nid = {id(x): i for i, x in enumerate(env.nodes)}
    gid = {id(x): i for i, x in enumerate(env.graphs)}
    tid = {id(x): i for i, x in enumerate(env.tensors)}

    def V(x):
        return None if x is None else vid.get(id(x), "ext-value")

    def N(x):
        return None if x is None else nid.get(id(x), "ext-node")

    def G(x):
        return None if x is None else gid.get(id(x), "ext-graph")

    def T(x):
        if x is None:
            return None
        return tid.get(id(x), "ext-tensor"), x.name

    def A(a):
        t = a.type.name
        val = a.value
        if t == "GRAPH":
            val = ["g", G(val)]
        elif t == "TENSOR":
            val = ["t", T(val)]
        else:
            val = repr(val)
        return [a.name, t, val, a.ref_attr_name]

    out = {"values": [], "nodes": [], "graphs": [], "functions": [], "tensors": [], "attrs": []}
    for v in env.values:
        out["values"].append({
            "name": v.name, "type": repr(v.type), "shape": repr(v.shape), "const": T(v.const_value),
            "producer": N(v.producer()), "index": v.index(),
            "uses": [[N(u.node), u.idx] for u in v.uses()],
            "flags": [v.is_graph_input(), v.is_graph_output(), v.is_initializer()], "graph": G(v.graph),
        })
    for n in env.nodes:
        out["nodes"].append({
            "name": n.name, "domain": n.domain, "op_type": n.op_type, "overload": n.overload,
            "version": n.version, "inputs": [V(x) for x in n.inputs], "outputs": [V(x) for x in n.outputs],
            "graph": G(n.graph), "attrs": [A(a) for a in n.attributes.values()],
            "attr_keys": list(n.attributes.keys()),
        })
    for g in env.graphs:
        na = g._name_authority
        out["graphs"].append({
            "name": g.name, "inputs": [V(x) for x in g.inputs], "outputs": [V(x) for x in g.outputs],
            "inits": [[k, V(x)] for k, x in g.initializers.items()], "nodes": [N(x) for x in g],
            "in_refs": sorted([str(V(x)), c] for x, c in g.inputs._ref_counter.items()),
            "out_refs": sorted([str(V(x)), c] for x, c in g.outputs._ref_counter.items()),
            "names": [na._value_counter, na._node_counter, sorted(map(str, na._value_names)), sorted(map(str, na._node_names))],
        })
    for f in env.functions:
        out["functions"].append([f.domain, f.name, f.overload, G(f.graph), [A(a) for a in f.attributes.values()]])
    for t in env.tensors:
        try:
            data = t.tobytes().hex() if type(t).__name__ not in ("ExternalTensor", "LazyTensor") else "<not read>"
        except Exception as e:  # noqa: BLE001
            data = "<" + type(e).__name__ + ">"
        out["tensors"].append([type(t).__name__, t.name, data])
    for a in env.attrs:
        out["attrs"].append(A(a))
    out["models"] = [G(m.graph) for m in env.models]
    return out


# --------------------------------------------------------------------------- history generator

NAMES = ["a", "b", "val_0", "val_1", "w", "node_Add_0", "", "x"]
OPTYPES = ["Add", "Mul", "Relu", "Identity"]
PASSES = ["TopologicalSortPass", "RemoveUnusedNodesPass", "NameFixPass", "IdentityEliminationPass",
          "CommonSubexpressionEliminationPass", "ClearMetadataAndDocStringPass", "RemoveUnusedOpsetsPass"]


class Gen:
    """Generates a block-structured history while executing it on a scratch universe, so that most
    operations are applicable; a deliberate share of sloppy arguments exercises the error paths."""

    def __init__(self, R: Real, rng, nj: int = 3, reentry: bool = False):
        self.R, self.rng, self.nj, self.reentry = R, rng, nj, reentry
        self.env = Env(R)

    # -- pickers
    def _any(self, lst, bad=False):
        if bad or not lst:
            return self.rng.randrange(0, len(lst) + 2)
        return self.rng.randrange(len(lst))

    def pv(self, bad=False, none_ok=False):
        if none_ok and self.rng.random() < 0.15:
            return -1
        return self._any(self.env.values, bad)

    def pvs(self, lo, hi, bad=False):
        return [self.pv(bad) for _ in range(self.rng.randint(lo, hi))]

    def free_nodes(self):
        return [i for i, n in enumerate(self.env.nodes) if n.graph is None]

    def graph_nodes(self, g):
        ids = {id(n): i for i, n in enumerate(self.env.nodes)}
        return [ids[id(n)] for n in g if id(n) in ids]

    def gen_op(self, in_journal: bool = False) -> dict:
        r, e = self.rng, self.env
        bad = r.random() < 0.12
        if not e.values or r.random() < 0.10:
            op = {"op": "value", "name": r.choice(NAMES + [None])}
            if r.random() < 0.4:
                op["shape"] = [r.choice([1, 2, "N", None]) for _ in range(r.randint(0, 2))]
            if r.random() < 0.4:
                op["dtype"] = r.choice([1, 7])
            if e.tensors and r.random() < 0.3:
                op["const"] = r.randrange(len(e.tensors))
            return op
        if not e.graphs or r.random() < 0.05:
            vals = [i for i, v in enumerate(e.values) if v.graph is None]
            ins = [i for i in vals if e.values[i].producer() is None and r.random() < 0.3][:2]
            outs = [i for i in vals if i not in ins and r.random() < 0.2][:2]
            fr = self.free_nodes()
            nodes = [i for i in fr if r.random() < 0.5][:3]
            if bad:
                nodes = nodes + [self._any(e.nodes, True)]
            return {"op": "graph", "inputs": ins, "outputs": outs, "nodes": nodes, "name": r.choice(["g", "h", None]), "gen": r.random() < 0.3}
        g = r.randrange(len(e.graphs))
        G = e.graphs[g]
        fam = r.choices(
            ["node", "glist", "nedit", "rauw", "io", "init", "setter", "attr", "ctor", "conv"],
            [18, 18, 10, 8, 16, 10, 10, 6, 7, 5],
        )[0]
        if fam == "node" or not e.nodes:
            op = {"op": "node", "op_type": r.choice(OPTYPES), "inputs": [self.pv(bad, none_ok=True) for _ in range(r.randint(0, 3))]}
            x = r.random()
            if x < 0.25:
                op["num_outputs"] = r.randint(0, 3)
            elif x < 0.4:
                cand = [i for i, v in enumerate(e.values) if v.producer() is None and not v.is_graph_input() and not v.is_initializer()]
                op["outputs"] = r.sample(cand, min(len(cand), r.randint(0, 2))) if not bad else self.pvs(1, 2, True)
            if r.random() < 0.45:
                op["graph"] = g if not (e.functions and r.random() < 0.2) else ["f", r.randrange(len(e.functions))]
            if r.random() < 0.4:
                op["name"] = r.choice(NAMES)
            if e.attrs and r.random() < 0.35:
                op["attrs"] = [r.randrange(len(e.attrs)) for _ in range(r.randint(1, 2))]
            if r.random() < 0.1:
                op["version"] = r.choice([1, 18])
            if r.random() < 0.2:
                op["gen"] = True
            return op
        if fam == "glist":
            fr, inside = self.free_nodes(), self.graph_nodes(G)
            kind = r.choice(["g_append", "g_extend", "g_insert_after", "g_insert_before", "g_remove", "g_remove", "g_sort", "n_prepend", "n_append"])
            if kind == "g_sort":
                return {"op": kind, "g": g}
            if kind == "g_append":
                return {"op": kind, "g": g, "n": r.choice(fr) if fr and not bad else self._any(e.nodes, bad)}
            if kind == "g_extend":
                ns = r.sample(fr, min(len(fr), r.randint(0, 3))) if not bad else [self._any(e.nodes, True) for _ in range(2)]
                return {"op": kind, "g": g, "ns": ns, "gen": r.random() < 0.3}
            if kind == "g_remove":
                ns = r.sample(inside, min(len(inside), r.randint(1, 2))) if inside and not bad else [self._any(e.nodes, bad)]
                single = len(ns) == 1 and r.random() < 0.6
                return {"op": kind, "g": g, "ns": ns, "single": single, "safe": r.random() < 0.5, "gen": not single and r.random() < 0.3}
            ns = r.sample(fr, min(len(fr), r.randint(1, 2))) if fr and not bad else [self._any(e.nodes, bad)]
            a = r.choice(inside) if inside and not bad else self._any(e.nodes, bad)
            single = len(ns) == 1 and r.random() < 0.5
            gen = not single and r.random() < 0.3
            if kind in ("n_prepend", "n_append"):
                return {"op": kind, "n": a, "ns": ns, "single": single, "gen": gen}
            return {"op": kind, "g": g, "a": a, "ns": ns, "single": single, "gen": gen}
        if fam == "nedit":
            n = self._any(e.nodes, bad)
            kind = r.choice(["n_replace_input", "n_replace_input", "n_resize_inputs", "n_resize_outputs"])
            if kind == "n_replace_input":
                k = len(e.nodes[n].inputs) if n < len(e.nodes) else 1
                return {"op": kind, "n": n, "i": r.randrange(-1, k + 1) if bad or k == 0 else r.randrange(k), "v": self.pv(bad, none_ok=True)}
            return {"op": kind, "n": n, "k": r.randint(0, 3)}
        if fam == "rauw":
            if r.random() < 0.7:
                return {"op": "v_rauw", "v": self.pv(bad), "w": self.pv(bad), "rgo": r.random() < 0.5}
            k = r.randint(1, 2)
            return {"op": "conv_rauw", "vs": self.pvs(k, k, bad), "ws": self.pvs(k, k, bad), "rgo": r.random() < 0.5}
        if fam == "io":
            which = r.choice(["inputs", "outputs"])
            lst = G.inputs if which == "inputs" else G.outputs
            ok = [i for i, v in enumerate(e.values) if (v.graph is None or v.graph is G) and (which == "outputs" or v.producer() is None)]
            pick = (lambda: r.choice(ok)) if ok and not bad else (lambda: self.pv(bad))
            m = r.choice(["append", "append", "extend", "insert", "pop", "remove", "clear", "setitem", "setslice", "delitem", "delslice", "reverse", "iadd", "len"])
            op = {"op": "io_" + m, "g": g, "which": which}
            n = len(lst)
            if m in ("append", "remove"):
                op["v"] = pick()
                if m == "remove" and n and not bad:
                    ids = {id(v): i for i, v in enumerate(e.values)}
                    op["v"] = ids.get(id(r.choice(list(lst))), op["v"])
            elif m in ("extend", "iadd"):
                op["vs"] = [pick() for _ in range(r.randint(0, 2))]
                op["gen"] = r.random() < 0.3
            elif m == "insert":
                op["i"], op["v"] = r.randint(-1, n + 1), pick()
            elif m == "pop":
                op["i"] = r.choice([None, 0, -1, n])
            elif m == "setitem":
                op["i"], op["v"] = (r.randrange(n) if n and not bad else r.randint(-1, n + 1)), pick()
            elif m == "setslice":
                op["lo"], op["hi"], op["vs"] = r.randint(0, n), r.randint(0, n + 1), [pick() for _ in range(r.randint(0, 2))]
                op["gen"] = r.random() < 0.3
            elif m == "delitem":
                op["i"] = r.randrange(n) if n and not bad else r.randint(-1, n + 1)
            elif m == "delslice":
                op["lo"], op["hi"] = r.randint(0, n), r.randint(0, n + 1)
            return op
        if fam == "init":
            d = G.initializers
            ok = [i for i, v in enumerate(e.values) if v.producer() is None and v.name and (v.graph is None or v.graph is G)]
            pick = (lambda: r.choice(ok)) if ok and not bad else (lambda: self.pv(bad))
            m = r.choice(["set", "set", "del", "add", "pop", "popitem", "clear", "update", "setdefault", "ior", "register"])
            op = {"op": "init_" + m, "g": g}
            keys = list(d.keys())
            if m in ("set", "setdefault"):
                op["v"] = pick()
                nm = e.values[op["v"]].name if op["v"] < len(e.values) else None
                op["key"] = nm if nm and not bad else r.choice(NAMES)
            elif m in ("del", "pop"):
                op["key"] = r.choice(keys) if keys and not bad else r.choice(NAMES)
            elif m in ("add", "register"):
                op["v"] = pick()
            elif m in ("update", "ior"):
                op["vs"] = [pick() for _ in range(r.randint(0, 2))]
            return op
        if fam == "setter":
            m = r.choice(["v_name", "v_name", "n_set", "n_set", "v_type", "v_shape", "v_const", "v_merge", "f_set", "n_graph"])
            if m == "v_name":
                return {"op": m, "v": self.pv(bad), "s": r.choice(NAMES + [None])}
            if m == "n_set":
                f = r.choice(["name", "domain", "op_type", "version", "overload"])
                s = r.choice([1, 18, None]) if f == "version" else r.choice(["", "ai.onnx", "Add", "custom", "o1"])
                if f == "name":
                    s = r.choice(NAMES + [None])
                return {"op": m, "n": self._any(e.nodes, bad), "field": f, "s": s}
            if m == "v_type":
                return {"op": m, "v": self.pv(bad), "dtype": r.choice([None, 1, 7])}
            if m == "v_shape":
                return {"op": m, "v": self.pv(bad), "shape": r.choice([None, [], [1, 2], ["N", 3]])}
            if m == "v_const":
                return {"op": m, "v": self.pv(bad), "t": r.randrange(len(e.tensors)) if e.tensors and r.random() < 0.7 else None}
            if m == "v_merge":
                return {"op": m, "v": self.pv(bad), "shape": r.choice([None, [1, 2], ["N", 2], [1, None], [3]])}
            if m == "f_set" and e.functions:
                return {"op": m, "f": r.randrange(len(e.functions)), "field": r.choice(["name", "domain", "overload"]), "s": r.choice(["f", "ai.onnx", "d", ""])}
            if m == "n_graph" and r.random() < 0.3:
                return {"op": m, "n": self._any(e.nodes, bad), "g": r.choice([None, g])}
            return {"op": "v_name", "v": self.pv(bad), "s": r.choice(NAMES)}
        if fam == "attr":
            if not e.attrs or r.random() < 0.4:
                k = r.choice(["int", "str", "ints", "ref"] + (["tensor"] if e.tensors else []) + (["graph"] if len(e.graphs) > 1 else []))
                val = {"int": 3, "str": "s", "ints": [1, 2], "ref": "outer"}.get(k)
                if k == "tensor":
                    val = r.randrange(len(e.tensors))
                if k == "graph":
                    val = r.randrange(len(e.graphs))
                return {"op": "attr", "kind": k, "name": r.choice(["k", "axis", "body"]), "val": val}
            m = r.choice(["set", "add", "add", "pop", "del", "update", "clear"])
            op = {"op": "na_" + m, "n": self._any(e.nodes, bad)}
            a = r.randrange(len(e.attrs))
            if m == "set":
                op["a"], op["key"] = a, (e.attrs[a].name if not bad else 5)
            elif m == "add":
                op["a"] = a
            elif m in ("pop", "del"):
                op["key"] = r.choice(["k", "axis", "body"])
            elif m == "update":
                op["as"] = [a]
            return op
        if fam == "ctor":
            k = r.choice(["tensor", "tensor", "function", "model", "attr"])
            if k == "tensor":
                return {"op": "tensor", "data": [r.randint(0, 9) for _ in range(r.randint(0, 3))], "name": r.choice(NAMES + [None]),
                        "kind": r.choice(["int64", "int64", "int64", "string", "external", "lazy", "packed", "proto"])}
            if k == "function":
                return {"op": "function", "domain": r.choice(["d", "ai.onnx"]), "name": r.choice(["f", "h"]), "g": g,
                        "attrs": [r.randrange(len(e.attrs))] if e.attrs and r.random() < 0.5 else []}
            if k == "model":
                return {"op": "model", "g": g, "fs": [r.randrange(len(e.functions))] if e.functions and r.random() < 0.5 else []}
            return {"op": "attr", "kind": "int", "name": r.choice(["k", "axis"]), "val": r.randint(0, 5)}
        # conv
        x = r.random()
        if x < 0.2 and e.models:
            return {"op": "pass", "m": r.randrange(len(e.models)), "name": r.choice(PASSES)}
        if x < 0.3:
            return {"op": "serde", "g": g}
        if x < 0.6:
            k = r.randint(1, 2)
            return {"op": "conv_rename", "vs": self.pvs(k, k, bad), "names": [r.choice(NAMES) for _ in range(k)]}
        inside, fr = self.graph_nodes(G), self.free_nodes()
        if inside and fr:
            old, new = r.choice(inside), r.choice(fr)
            ov = [i for i, v in enumerate(e.values) if v.producer() is e.nodes[old]]
            nv = [i for i, v in enumerate(e.values) if v.producer() is e.nodes[new]]
            k = min(len(ov), len(nv))
            return {"op": "conv_replace_nodes", "g": g, "ip": old, "old": [old], "new": [new], "oldv": ov[:k], "newv": nv[:k]}
        return {"op": "g_sort", "g": g}

    def gen_blocks(self, depth: int, active: tuple, n_items: int, in_try: bool):
        r = self.rng
        blocks = []
        for _ in range(n_items):
            x = r.random()
            free = [j for j in range(self.nj) if j not in active]
            if self.reentry and active and depth < 3 and x < 0.25:
                free = list(active)  # deliberately enter an active journal again
            if x < 0.22 and depth < 3 and free:
                j = r.choice(free)
                body, raised = self.gen_blocks(depth + 1, active + (j,), r.randint(1, 5), in_try)
                blocks.append({"t": "with", "j": j, "body": body})
                if raised:
                    return blocks, True
            elif x < 0.30:
                body, _ = self.gen_blocks(depth, active, r.randint(1, 4), True)
                blocks.append({"t": "try", "body": body})
            elif x < 0.34 and in_try:
                blocks.append({"t": "op", "op": {"op": "raise"}})
                return blocks, True
            else:
                op = self.gen_op(in_journal=bool(active))
                blocks.append({"t": "op", "op": op})
                try:
                    exec_op(self.env, op)
                except Exception:
                    return blocks, True
        return blocks, False

    def case(self, n_top: int) -> dict:
        top = []
        for _ in range(n_top):
            body, _ = self.gen_blocks(0, (), self.rng.randint(1, 6), True)
            top.append({"t": "try", "body": body})
        if self.rng.random() < 0.15:  # the last part is not protected: an exception ends the history
            body, _ = self.gen_blocks(0, (), self.rng.randint(1, 6), True)
            top.extend(body)
        return {"nj": self.nj, "blocks": top}


# --------------------------------------------------------------------------- running a case


class Runner:
    """Executes a block-structured history on the real code, with real `with` / `try` statements."""

    def __init__(self, R: Real, case: dict, journaled: bool, probe: bool = False):
        self.R, self.case, self.journaled, self.probe = R, case, journaled, probe
        self.env = Env(R)
        self.reg = Registry()
        self.tr = Tracer.get(R)
        self.journals = [R.J.Journal() for _ in range(case["nj"])] if journaled else None
        self.outcomes: list = []  # per executed op: [seq, "ret", canon] | [seq, "raise", type name]
        self.slices: dict[int, tuple] = {}
        self.restore_failures: list = []
        self.top_exc = None
        self.enter_refused = 0
        self.messages: list = []
        # static (pre-order) number of every operation of the history
        self.seq_of: dict[int, int] = {}

        def number(blocks):
            for b in blocks:
                if b["t"] == "op":
                    self.seq_of[id(b)] = len(self.seq_of)
                else:
                    number(b["body"])

        number(case["blocks"])

    def run(self) -> None:
        self.tr.begin(self.reg, self.probe)
        try:
            try:
                self.blocks(self.case["blocks"])
            except Exception as e:  # propagated to the top of the history
                self.top_exc = type(e).__name__
        finally:
            self.events = self.tr.events
            self.owner = dict(self.tr.owner)
            self.init_nonnone = self.tr.init_nonnone
            self.details_fail = sorted(self.tr.details_fail)
            self.details_effect = sorted(self.tr.details_effect)
            self.empty_owner = set(self.tr.empty_owner)
            self.tr.end()

    def blocks(self, blocks: list) -> None:
        for b in blocks:
            t = b["t"]
            if t == "op":
                self.op(b)
            elif t == "try":
                try:
                    self.blocks(b["body"])
                except Exception:
                    pass
            else:
                self.with_block(b)

    def with_block(self, b: dict) -> None:
        if not self.journaled:
            self.blocks(b["body"])
            return
        j = b["j"]
        R = self.R
        before = R.table()
        cur_before = R.J.get_current_journal()
        entered = False
        try:
            with self.journals[j]:
                entered = True
                self.tr.events.append(["enter", j])  # __enter__ makes no instrumented call
                self.blocks(b["body"])
        finally:
            if entered:
                self.tr.events.append(["exit", j])
            else:
                self.enter_refused += 1
            after = R.table()
            diff = [R.KEYS[k] for k, (x, y) in enumerate(zip(before, after)) if x is not y]
            if R.J.get_current_journal() is not cur_before:
                diff.append("current-journal")
            if diff:
                self.restore_failures.append({"j": j, "diff": diff[:6], "n": len(diff)})

    def op(self, b: dict) -> None:
        seq = self.seq_of[id(b)]
        start = len(self.tr.events)
        try:
            res = exec_op(self.env, b["op"])
        except Exception as e:
            self.slices[seq] = (start, len(self.tr.events))
            self.outcomes.append([seq, "raise", type(e).__name__])
            self.messages.append([seq, mask_ids(str(e))])
            raise
        self.slices[seq] = (start, len(self.tr.events))
        self.outcomes.append([seq, "ret", self.env.canon(res)])


_ID_RE = re.compile(r"anonymous\w*:\d+|0x[0-9a-fA-F]+|\bid=\d+")


def mask_ids(msg: str) -> str:
    """Exception text with object ids / addresses masked (they differ between two universes)."""
    return _ID_RE.sub("#", msg)[:400]


def count_ops(blocks: list) -> int:
    n = 0
    for b in blocks:
        n += 1 if b["t"] == "op" else count_ops(b["body"])
    return n


def forest(events: list) -> list:
    """start/finish events of one operation -> nested call trees (the model's script)."""
    root: list = []
    stack = [root]
    for ev in events:
        if ev[0] == "start":
            node = {"k": ev[1], "self": ev[2], "steps": [], "out": None}
            stack[-1].append(node)
            stack.append(node["steps"])
        elif ev[0] == "finish":
            stack.pop()
            stack[-1][-1]["out"] = ev[3]
    return root


def canon_forest(trees: list, R: Real) -> list:
    """Graph.remove iterates a frozenset of nodes and Graph.sort a set of graphs (hash order = address
    order): the order of the calls they make per node / per graph is not defined, so their children
    are compared as a sorted list."""
    unordered = (R.KEYS.index("Graph.remove"), R.KEYS.index("Graph.sort"))
    out = []
    for t in trees:
        kids = canon_forest(t["steps"], R)
        if t["k"] in unordered:
            kids = sorted(kids, key=lambda x: json.dumps(x, sort_keys=True))
        out.append({"k": t["k"], "self": t["self"], "steps": kids, "out": t["out"]})
    return out


def out_code(kind: str, payload) -> dict:
    if kind == "raise":
        return {"raise": exc_code(payload)}
    if payload is None:
        return {"ret": None}
    if isinstance(payload, bool):
        return {"ret": int(payload)}
    if isinstance(payload, int):
        return {"ret": payload}
    return {"ret": 1_000_000 + zlib.crc32(json.dumps(payload, sort_keys=True, default=str).encode()) % 1000}


def lean_blocks(blocks: list, plain: "Runner", counter: list) -> list:
    """The history as the model's block program; every operation carries the call trees of the
    original functions as observed by the tracer (operations that were skipped: empty).  The trees of
    the journaled run are used: the un-journaled run's trees are the same up to the hash-ordered
    iteration inside Graph.remove (checked by the oracle, `transparent-calls`)."""
    res = []
    for b in blocks:
        t = b["t"]
        if t == "op":
            seq = counter[0]
            counter[0] += 1
            sl = plain.slices.get(seq)
            oc = next((o for o in plain.outcomes if o[0] == seq), None)
            steps = forest(plain.events[sl[0] : sl[1]]) if sl else []
            out = out_code(oc[1], oc[2]) if oc else {"ret": None}
            res.append({"t": "op", "steps": steps, "out": out})
        elif t == "try":
            res.append({"t": "try", "body": lean_blocks(b["body"], plain, counter)})
        else:
            res.append({"t": "with", "j": b["j"], "body": lean_blocks(b["body"], plain, counter)})
    return res


def expected_entries(events: list, owner: dict, j: int) -> list:
    """The property, written independently of the model: one entry per instrumented operation that
    completed (returned) while journal j was entered, in order of completion; nothing for an
    operation that raised."""
    act, res = False, []
    for ev in events:
        if ev[0] == "enter":
            act = True if ev[1] == j else act
        elif ev[0] == "exit":
            act = False if ev[1] == j else act
        elif act and ev[0] == "finish" and "ret" in ev[3]:
            tgt = owner.get(ev[2], ev[2]) if SLOT_KIND[ev[1]] == "container" else ev[2]
            res.append([SLOT_OP[ev[1]], tgt])
    return res


def op_by_seq(blocks: list, seq: int) -> dict:
    flat: list = []

    def walk(bs):
        for b in bs:
            if b["t"] == "op":
                flat.append(b["op"])
            else:
                walk(b["body"])

    walk(blocks)
    return flat[seq]


def reused_elsewhere(blocks: list) -> bool:
    """Some journal object is entered at two places of the history with different enclosing (active) journals."""
    seen: dict = {}

    def walk(bs, active):
        for b in bs:
            if b["t"] == "with":
                if b["j"] not in active:
                    seen.setdefault(b["j"], set()).add(active)
                    walk(b["body"], active + (b["j"],))
            elif b["t"] == "try":
                walk(b["body"], active)

    walk(blocks, ())
    return any(len(v) > 1 for v in seen.values())


def has_reentry(blocks: list, active: tuple = ()) -> bool:
    for b in blocks:
        if b["t"] == "with":
            if b["j"] in active or has_reentry(b["body"], active + (b["j"],)):
                return True
        elif b["t"] == "try" and has_reentry(b["body"], active):
            return True
    return False


def depth_of(blocks: list) -> int:
    d = 0
    for b in blocks:
        if b["t"] == "with":
            d = max(d, 1 + depth_of(b["body"]))
        elif b["t"] == "try":
            d = max(d, depth_of(b["body"]))
    return d


def run_case(ctx, case: dict, stream: str) -> tuple:
    """One history: un-journaled run, journaled run, model run; correspondence + oracle."""
    R = Real.get()
    if R.pristine_problems():
        R.repair()
    # A history that enters an active journal again is outside the domain of "transparent" (that
    # __enter__ is refused with RuntimeError); restore / entries / no-strong-ref and the model
    # correspondence still apply to it.
    reentry = has_reentry(case["blocks"])
    plain = Runner(R, case, journaled=False)
    plain.run()
    snap_plain = snapshot(plain.env)
    jr = Runner(R, case, journaled=True)
    jr.run()
    snap_j = snapshot(jr.env)
    left = R.pristine_problems()
    if left:
        R.repair()
    nops = count_ops(case["blocks"])
    raised = sum(1 for o in jr.outcomes if o[1] == "raise")
    ctx.case(
        case, nontrivial=nops > 0, sample={"stream": stream, "case": case} if nops <= 6 else None,
        stream=stream, depth=depth_of(case["blocks"]), ops=min(nops // 5 * 5, 40),
        raised=min(raised, 5), top_exc=jr.top_exc is not None, reentry=reentry,
    )
    for o in jr.outcomes:
        ctx.count(f"outcome={o[1]}")
    rank, depth_now = 0, 0
    for ev in jr.events:
        if ev[0] == "start":
            ctx.count("slot=" + R.KEYS[ev[1]])
            if rank in jr.empty_owner and depth_now > 0:
                # a container operation inside a journal whose owner graph / function holds no node (seeded C20-q1)
                ctx.count("empty-owner-op=" + R.KEYS[ev[1]])
            rank += 1
        elif ev[0] == "enter":
            depth_now += 1
        elif ev[0] == "exit":
            depth_now -= 1
    if reused_elsewhere(case["blocks"]):
        # a Journal object entered, exited, and entered again under ANOTHER set of enclosing journals (seeded C20-q2)
        ctx.count("journal-reused-in-another-nesting-context")
    if jr.enter_refused:
        ctx.count("enter-refused", jr.enter_refused)
    sig = stream
    opaque = False

    # ---------------- oracle: transparent
    if not reentry:
        if plain.outcomes != jr.outcomes or plain.top_exc != jr.top_exc:
            opaque = True
            first = next((i for i, (a, b) in enumerate(zip(plain.outcomes, jr.outcomes)) if a != b), min(len(plain.outcomes), len(jr.outcomes)))
            po, jo = plain.outcomes[first : first + 1], jr.outcomes[first : first + 1]
            osig = sig
            if po and jo and po[0][0] == jo[0][0]:
                osig = f"{sig}:{op_by_seq(case['blocks'], po[0][0])['op']}"
            ctx.fail(f"{osig}/transparent-outcome", "results or exceptions differ inside a journal",
                     {"case": case, "first": first, "plain": po, "journaled": jo})
        calls_p = canon_forest(forest([e for e in plain.events if e[0] in ("start", "finish")]), R)
        calls_j = canon_forest(forest([e for e in jr.events if e[0] in ("start", "finish")]), R)
        if calls_p != calls_j:
            opaque = True
            ctx.fail(f"{sig}/transparent-calls", "the original functions executed differ inside a journal", {"case": case})
        if snap_plain != snap_j:
            opaque = True
            keys = [k for k in snap_plain if snap_plain[k] != snap_j[k]]
            ctx.fail(f"{sig}/transparent-state", "IR state differs after the same history inside a journal", {"case": case, "differs": keys})
        if jr.enter_refused:
            ctx.fail(f"{sig}/enter-refused", "__enter__ of a journal that is not active was refused", {"case": case})
        if plain.messages != jr.messages and plain.outcomes == jr.outcomes:
            # (which of several rejected nodes Graph.remove reports first depends on the iteration
            # order of a frozenset, i.e. on addresses: those messages are not compared)
            unordered = {"conv_replace_nodes"}
            for a, b in zip(plain.messages, jr.messages):
                o = op_by_seq(case["blocks"], a[0])
                if a != b and not (o["op"] in unordered or (o["op"] == "g_remove" and not o.get("single"))):
                    ctx.fail(f"{sig}:{o['op']}/transparent-message", "exception text differs inside a journal",
                             {"case": case, "plain": a, "journaled": b})
                    break
    if plain.init_nonnone or jr.init_nonnone:
        ctx.fail(f"{sig}/init-returns-non-None", "an instrumented constructor returned a value", {"case": case})
    # ---------------- oracle: DetailsOk (the hypothesis of C20_transparent, on the real details lambdas)
    # and DetailsPure: evaluating them takes nothing from a one-shot iterable argument and leaves the
    # IR as it is (the probing run evaluates every details expression in an un-journaled run)
    pr = Runner(R, case, journaled=False, probe=True)
    pr.run()
    starts = [e for e in pr.events if e[0] == "start"]
    if pr.details_fail:
        keys = sorted({R.KEYS[starts[r][1]] for r in pr.details_fail})
        ctx.fail(f"{sig}/details-expression-raises:{','.join(keys)}",
                 "a wrapper's details expression raises on a state reached by the history (it would abort the call inside a journal)",
                 {"case": case, "calls": pr.details_fail[:5]})
    if pr.details_effect:
        keys = sorted({R.KEYS[starts[r][1]] for r in pr.details_effect})
        ctx.fail(f"{sig}/details-expression-consumes-argument:{','.join(keys)}",
                 "evaluating a wrapper's details expression takes elements from a one-shot iterable argument",
                 {"case": case, "calls": pr.details_effect[:5]})
    elif not pr.details_fail and snapshot(pr.env) != snap_plain:
        ctx.fail(f"{sig}/details-expression-changes-state", "evaluating the details expressions changes the IR", {"case": case})
    del pr, starts
    # ---------------- oracle: restore
    for f in jr.restore_failures:
        ctx.fail(f"{sig}/restore", f"class attributes not restored after leaving `with journal` ({f['n']} differ)", {"case": case, **f})
    if left:
        ctx.fail(f"{sig}/restore-final", "classes not as before after the history", {"case": case, "left": left[:8]})
    # ---------------- oracle: entries
    for j, journal in enumerate(jr.journals):
        real = []
        for e in journal.entries:
            o = e.ref() if e.ref is not None else None
            idx = jr.reg.ids.get(id(o), -1) if o is not None else -1
            ok_cls = o is not None and e.class_name == type(o).__name__ and e.class_ is type(o) and e.object_id == id(o)
            # the fields the model does not represent hold no IR instance: a float, a class, strings,
            # frame summaries without captured locals
            ok_fields = (
                isinstance(e.timestamp, float) and isinstance(e.class_, type) and isinstance(e.ref, weakref.ref)
                and (e.details is None or type(e.details) is str)
                and all(type(f).__name__ == "FrameSummary" and f.locals is None for f in e.stack_trace)
                and not entry_strong_refs(e, R.ir_types)
            )
            real.append([e.operation, idx if ok_cls and ok_fields else -2])
        exp = expected_entries(jr.events, jr.owner, j)
        if real != exp:
            ctx.fail(f"{sig}/entries", "journal entries are not exactly the instrumented calls executed while entered",
                     {"case": case, "journal": j, "real": real[:40], "expected": exp[:40]})
    # ---------------- correspondence with the model
    # The script of what the originals do is the call tree observed in the UN-journaled run: the
    # model's journaled outcomes / order / entries are then a prediction about the journaled run.
    # (A history with a refused re-entry takes another path than its un-journaled twin; there the
    # journaled run's own tree is used and only the wrapper / guard mechanics are compared.)
    src = jr if reentry else plain
    raw_p = forest([e for e in plain.events if e[0] in ("start", "finish")])
    raw_j = forest([e for e in jr.events if e[0] in ("start", "finish")])
    hash_order = (not reentry) and raw_p != raw_j and not opaque  # Graph.remove iterated its frozenset differently
    req = {"m": "journal.run", "fuel": FUEL, "nj": case["nj"], "guarded": guarded_code(),
           "owner": sorted([a, b] for a, b in src.owner.items()),
           "block": lean_blocks(case["blocks"], src, [0])}
    entries_real = []
    for journal in jr.journals:
        entries_real.append([[e.operation, jr.reg.ids.get(id(e.ref()), -1) if e.ref is not None else -1] for e in journal.entries])
    impl = {
        "log": [out_code(o[1], o[2]) for o in jr.outcomes],
        "exc": None if jr.top_exc is None else exc_code(jr.top_exc),
        "trace": jr.events,
        "entries": entries_real,
        "active": [bool(getattr(j, "_active", False)) for j in jr.journals],
        "left": left,
        "opaque": opaque,
        "reentry": reentry,
        "hash_order": hash_order,
    }
    wrs = []
    for o in jr.reg.objs:
        try:
            wrs.append(weakref.ref(o))
        except TypeError:
            pass
    journals = jr.journals
    n_entries = sum(len(j.entries) for j in journals)
    del plain, jr, snap_plain, snap_j, src, raw_p, raw_j
    return req, impl, journals, wrs, n_entries, sig


def check_model(ctx, case: dict, req: dict, impl: dict, ans: dict, sig: str) -> None:
    if "err" in ans:
        ctx.disagree("model driver error: " + str(ans["err"]), case, ans, None)
        return
    mj, mp = ans["journaled"], ans["plain"]
    if impl["opaque"]:
        # the oracle already showed that the real journaled run differs from the real plain run:
        # the model (transparent by theorem) cannot agree with it; the failure is reported above
        ctx.count("model-comparison-skipped-oracle-failed")
        return
    m_entries = [[[e[1], e[2].get("weak", -9)] for e in es] for es in mj["entries"]]
    m_expected = [[[e[1], e[2].get("weak", -9)] for e in es] for es in mj["expected"]]
    # the exception of a refused __enter__ is RuntimeError in the code, `enterExn` in the model
    m_log = [({"raise": exc_code("RuntimeError")} if o == {"raise": 2} else o) for o in mj["log"]]
    m_exc = exc_code("RuntimeError") if mj["exc"] == 2 else mj["exc"]
    m_trace, r_trace, r_entries = mj["trace"], impl["trace"], impl["entries"]
    if impl["hash_order"]:
        # the two runs iterated a frozenset of nodes inside Graph.remove in different orders: compare
        # the events and the entries as multisets
        ctx.count("hash-order-case")
        key = lambda x: json.dumps(x, sort_keys=True)  # noqa: E731
        m_trace, r_trace = sorted(m_trace, key=key), sorted(r_trace, key=key)
        m_entries, r_entries = [sorted(es, key=key) for es in m_entries], [sorted(es, key=key) for es in r_entries]
        m_expected = [sorted(es, key=key) for es in m_expected]
    for what, a, b in (
        ("outcomes of the operations", m_log, impl["log"]),
        ("exception leaving the history", m_exc, impl["exc"]),
        ("order of original functions / enter / exit", m_trace, r_trace),
        ("journal entries", m_entries, r_entries),
        ("active flags after the history", mj["active"], impl["active"]),
    ):
        if a != b:
            ctx.disagree(f"{what}: model != implementation", {"case": case, "stream": sig}, a if len(str(a)) < 1500 else str(a)[:1500], b if len(str(b)) < 1500 else str(b)[:1500])
    restored_model = all(x["layers"] == [] and x["base"] == k for k, x in enumerate(mj["table"])) and mj["current"] is None
    if restored_model != (not impl["left"]):
        ctx.disagree("classes restored after the history: model != implementation", {"case": case, "stream": sig}, restored_model, impl["left"])
    # model-internal consistency that the theorems promise (cheap re-check on the concrete run)
    if mj["held"]:
        ctx.disagree("model entry holds a strong reference", {"case": case}, mj["held"], None)
    if not restored_model:
        ctx.disagree("model: classes not restored (contradicts C20_restore)", {"case": case}, mj["table"][:2], None)
    if not impl["reentry"] and (mj["log"] != mp["log"] or mj["ir"] != mp["ir"] or mj["exc"] != mp["exc"]):
        ctx.disagree("model: journaled and plain runs differ (contradicts C20_transparent)", {"case": case}, mj["log"], mp["log"])
    if m_entries != m_expected:
        ctx.disagree("model: entries != expectedFor (contradicts C20_entries)", {"case": case}, m_entries, m_expected)


def gc_check(ctx, case, journals, wrs, n_entries, sig) -> None:
    """Entries alive, IR objects dropped: every object must die."""
    gc.collect()
    alive = [type(w()).__name__ for w in wrs if w() is not None]
    stale = sum(1 for j in journals for e in j.entries if e.ref is not None and e.ref() is not None)
    if sum(len(j.entries) for j in journals) != n_entries:
        ctx.fail(f"{sig}/records-after-exit", "a journal kept receiving entries after it was left", {"case": case})
    if alive or stale:
        ctx.fail(f"{sig}/strong-ref", "IR objects stay alive while only the journal entries are kept",
                 {"case": case, "alive": alive[:10], "entries_with_live_ref": stale})


# --------------------------------------------------------------------------- streams


def check_slots(ctx) -> None:
    R = Real.get()
    rows = load_slot_table(R)
    ans = lean_batch([{"m": "journal.slots"}])[0]
    ctx.case(["slots"], sample={"slots": len(rows)}, stream="slots")
    if ans.get("r") != rows:
        diff = [(a, b) for a, b in zip(ans.get("r", []), rows) if a != b]
        ctx.disagree("slot table (key, wrapper kind, operation, attribute): model != wrap_ir_classes", "slots", diff[:5] or ans, rows[:3])
    if R.pristine_problems():
        ctx.fail("slots/restore", "classes not restored after a single journal", {"left": R.pristine_problems()})
        R.repair()


def ctl_real(R: Real, nj: int, evs: list) -> list:
    journals = [R.J.Journal() for _ in range(nj)]
    out = []
    for e in evs:
        j = journals[e["j"]]
        refused = False
        if e["enter"]:
            try:
                j.__enter__()
            except RuntimeError:
                refused = True  # this journal object is already active
        else:
            try:
                j.__exit__(None, None, None)
            except KeyError:
                pass  # never entered: `_original_methods` is empty; nothing was changed
        cur = R.J.get_current_journal()
        out.append({
            "table": R.decode_table(R.table(), journals),
            "current": next((i for i, x in enumerate(journals) if x is cur), None),
            "refused": refused,
            "active": [bool(getattr(jj, "_active", False)) for jj in journals],
            "previous": [next((i for i, x in enumerate(journals) if x is jj._previous_journal), None) for jj in journals],
            "captured": [R.decode_table([jj._original_methods[k] for k in R.KEYS], journals) if jj._original_methods else None for jj in journals],
        })
    R.repair()
    return out


def proper_nesting(evs: list) -> bool:
    st = []
    for e in evs:
        if e["enter"]:
            if e["j"] in st:
                return False
            st.append(e["j"])
        else:
            if not st or st[-1] != e["j"]:
                return False
            st.pop()
    return not st


def ctl_stream(ctx, seqs: list, nj: int, label: str) -> None:
    R = Real.get()
    reqs = [{"m": "journal.ctl", "nj": nj, "evs": evs} for evs in seqs]
    answers = lean_batch(reqs)
    for evs, ans in zip(seqs, answers):
        real = ctl_real(R, nj, evs)
        proper = proper_nesting(evs)
        ctx.case(["ctl", nj, evs], nontrivial=len(evs) > 0, stream=label, ctl_len=len(evs), proper=proper)
        if ans.get("r") != real:
            k = next((i for i, (a, b) in enumerate(zip(ans.get("r", []), real)) if a != b), -1)
            ctx.disagree("enter/exit: class table / current / previous / captured: model != implementation",
                         {"evs": evs, "step": k}, (ans.get("r") or [None])[k] if k >= 0 else ans, real[k] if k >= 0 else None)
        if proper and real:
            last = real[-1]
            if any(x["layers"] or x["base"] != i for i, x in enumerate(last["table"])) or last["current"] is not None:
                ctx.fail(f"{label}/restore", "properly nested enter/exit does not restore the classes", {"evs": evs})


def all_ctl_sequences(nj: int, maxlen: int):
    import itertools

    alphabet = [{"j": j, "enter": en} for j in range(nj) for en in (True, False)]
    for n in range(0, maxlen + 1):
        for seq in itertools.product(alphabet, repeat=n):
            yield list(seq)


def skeleton_cases() -> list:
    """nesting depth 0-3 x where the exception is thrown (nowhere / at level d) x who throws
    (user code / a rejected IR operation), with an instrumented operation before it at every level."""
    cases = []
    for depth in range(0, 4):
        for exc_at in [None] + list(range(0, depth + 1)):
            for who in ("user", "ir"):
                if exc_at is None and who == "ir":
                    continue

                def level(d: int):
                    body = [{"t": "op", "op": {"op": "value", "name": f"v{d}"}},
                            {"t": "op", "op": {"op": "node", "op_type": "Relu", "inputs": [0], "num_outputs": 1}},
                            {"t": "op", "op": {"op": "g_append", "g": 0, "n": d}}]
                    if d < depth:
                        body.append({"t": "with", "j": d, "body": level(d + 1)})
                    if exc_at == d:
                        body.append({"t": "op", "op": {"op": "raise"} if who == "user" else {"op": "io_append", "g": 0, "which": "inputs", "v": 2}})
                    body.append({"t": "op", "op": {"op": "g_sort", "g": 0}})
                    return body

                setup = [{"t": "op", "op": {"op": "value", "name": "x"}},
                         {"t": "op", "op": {"op": "graph", "inputs": [0], "outputs": [], "nodes": [], "name": "g"}}]
                cases.append({"nj": 3, "blocks": [{"t": "try", "body": setup}, {"t": "try", "body": level(0)},
                                                  {"t": "try", "body": [{"t": "op", "op": {"op": "io_len", "g": 0, "which": "inputs"}}]}]})
    return cases


WITNESS_D70 = {"nj": 1, "blocks": [
    {"t": "try", "body": [{"t": "op", "op": {"op": "value", "name": "x"}},
                          {"t": "op", "op": {"op": "graph", "inputs": [0], "outputs": [], "nodes": [], "name": "g"}}]},
    {"t": "try", "body": [{"t": "with", "j": 0, "body": [
        {"t": "op", "op": {"op": "node", "op_type": "Relu", "inputs": [0], "graph": 0}}]}]}]}
WITNESS_D71 = {"nj": 1, "blocks": [
    {"t": "try", "body": [{"t": "with", "j": 0, "body": [
        {"t": "op", "op": {"op": "value", "name": "x"}},
        {"t": "with", "j": 0, "body": [{"t": "op", "op": {"op": "value", "name": "y"}}]}]}]}]}


def witnesses(ctx) -> None:
    """The inputs on which /repo used to violate the property (D70: Node(..., graph=g) inside a journal
    raised AttributeError; D71: entering an active journal again left every class wrapped)."""
    process_cases(ctx, [WITNESS_D70, WITNESS_D71], "witness")


def bad_repr_cases() -> list:
    """Histories in which a user object's repr raises, at nesting depth 1-3: the only way (once D70 is
    repaired) to make a wrapper's `details` expression raise.  Outside the domain of `transparent`
    (DetailsOk fails by the user's doing); used to tie the model's details branch to the code."""
    cases = []
    forms = [
        [{"op": "node", "op_type": "Relu", "inputs": [0], "name": "n"}, {"op": "n_set", "n": 0, "field": "name", "s": BAD_NAME}],
        [{"op": "value", "name": BAD_NAME}],
        [{"op": "v_name", "v": 0, "s": BAD_NAME}],
        [{"op": "node", "op_type": "Relu", "inputs": [0], "name": BAD_NAME}],
        [{"op": "node", "op_type": "Relu", "inputs": [0], "name": BAD_NAME, "graph": 0}],
    ]
    for depth in (1, 2, 3):
        for form in forms:
            body = [{"t": "op", "op": o} for o in form] + [{"t": "op", "op": {"op": "g_sort", "g": 0}}]
            for d in reversed(range(depth)):
                body = [{"t": "op", "op": {"op": "value", "name": f"v{d}"}}, {"t": "with", "j": d, "body": body}]
            setup = [{"t": "op", "op": {"op": "value", "name": "x"}},
                     {"t": "op", "op": {"op": "graph", "inputs": [0], "outputs": [], "nodes": [], "name": "g"}}]
            cases.append({"nj": 3, "blocks": [{"t": "try", "body": setup}, {"t": "try", "body": body}]})
    # a node created outside the journal with a bad name, appended inside: the method wrapper's details
    cases.append({"nj": 1, "blocks": [
        {"t": "try", "body": [{"t": "op", "op": {"op": "value", "name": "x"}},
                              {"t": "op", "op": {"op": "graph", "inputs": [0], "outputs": [], "nodes": [], "name": "g"}},
                              {"t": "op", "op": {"op": "node", "op_type": "Relu", "inputs": [0], "name": BAD_NAME}}]},
        {"t": "try", "body": [{"t": "with", "j": 0, "body": [{"t": "op", "op": {"op": "g_append", "g": 0, "n": 0}}]}]}]})
    return cases


def details_stream(ctx) -> None:
    """The model, given the un-journaled call tree plus *which details expressions raise* (found by
    evaluating the real details lambdas in a probing un-journaled run), must predict the real
    journaled run: which operation raises, which originals still run, which entries exist."""
    R = Real.get()
    side = json.loads(json.dumps(bad_repr_cases()).replace(BAD_NAME, SIDE_NAME))  # repr with a side effect
    reqs, impls, cases = [], [], bad_repr_cases() + side
    for case in cases:
        pr = Runner(R, case, journaled=False, probe=True)
        pr.run()
        jr = Runner(R, case, journaled=True)
        jr.run()
        left = R.pristine_problems()
        if left:
            R.repair()
            ctx.fail("bad-repr/restore-final", "classes not as before after a history whose details raise", {"case": case, "left": left[:6]})
        for f in jr.restore_failures:
            ctx.fail("bad-repr/restore", "class attributes not restored after leaving `with journal`", {"case": case, **f})
        reqs.append({"m": "journal.run", "fuel": FUEL, "nj": case["nj"], "guarded": guarded_code(), "owner": sorted([a, b] for a, b in pr.owner.items()),
                     "block": lean_blocks(case["blocks"], pr, [0]), "details_fail": pr.details_fail,
                     "details_effect": pr.details_effect})
        seq, n = [], 0  # order of: original bodies starting (their rank) and side effects of details ("m")
        for e in jr.events:
            if e[0] == "start":
                seq.append(n)
                n += 1
            elif e[0] == "mark" and seq[-1:] != ["m"]:
                seq.append("m")  # (one evaluation may call the user repr several times: runs collapsed)
        impls.append({
            "log": [o[1] for o in jr.outcomes],
            "trace": [[e[0], e[1]] + ([e[2], "raise" if "raise" in e[3] else "ret"] if e[0] == "finish" else e[2:]) for e in jr.events if e[0] != "mark"],
            "entries": [[[e.operation, jr.reg.ids.get(id(e.ref()), -1)] for e in j.entries] for j in jr.journals],
            "ir": seq,
            "nfail": len(pr.details_fail), "neffect": len(pr.details_effect),
        })
        del pr, jr
    for case, impl, ans in zip(cases, impls, lean_batch(reqs)):
        ctx.case(["odd-repr", case], stream="odd-repr", details_fail=min(impl["nfail"], 3), details_effect=min(impl["neffect"], 3))
        if "err" in ans:
            ctx.disagree("model driver error: " + str(ans["err"]), case, ans, None)
            continue
        mj = ans["journaled"]
        m = {
            "log": ["raise" if "raise" in o else "ret" for o in mj["log"]],
            "trace": [[e[0], e[1]] + ([e[2], "raise" if "raise" in e[3] else "ret"] if e[0] == "finish" else e[2:]) for e in mj["trace"]],
            "entries": [[[e[1], e[2].get("weak")] for e in es] for es in mj["entries"]],
            "ir": [],
        }
        for x in mj["ir"]:
            if x < 100000:
                m["ir"].append(x)
            elif m["ir"][-1:] != ["m"]:
                m["ir"].append("m")
        for what in ("log", "trace", "entries", "ir"):
            if m[what] != impl[what]:
                ctx.disagree(f"details raise / have an effect, {what}: model != implementation", {"case": case}, m[what], impl[what])
        if impl["nfail"] + impl["neffect"] == 0:
            ctx.disagree("odd-repr case in which no details expression raised or had an effect (generator bug)", case, None, None)


def coverage_case() -> dict:
    """One deterministic history that calls every one of the 43 instrumented operations inside a
    journal (coverage floor: checked in `run`)."""
    def O(**kw):
        return {"t": "try", "body": [{"t": "op", "op": kw}]}

    ops = [
        O(op="tensor", data=[1, 2], name="w"), O(op="tensor", data=[1], name="s", kind="string"),
        O(op="tensor", data=[1], name="e", kind="external"), O(op="tensor", data=[3], name="p", kind="proto"),
        O(op="value", name="x"), O(op="value", name="y"), O(op="value", name="w", const=0),      # v0 v1 v2
        O(op="attr", kind="int", name="k", val=1),
        O(op="graph", inputs=[0], outputs=[], nodes=[], name="g"),
        O(op="node", op_type="Relu", inputs=[0], attrs=[0], graph=0),                              # n0 -> v3
        O(op="node", op_type="Relu", inputs=[3]),                                                  # n1 -> v4
        O(op="g_extend", g=0, ns=[1], gen=True),
        O(op="node", op_type="Add", inputs=[]), O(op="g_insert_after", g=0, a=0, ns=[2]),          # n2 -> v5
        O(op="node", op_type="Add", inputs=[]), O(op="g_insert_before", g=0, a=0, ns=[3]),         # n3 -> v6
        O(op="node", op_type="Mul", inputs=[]), O(op="n_append", n=0, ns=[4], single=True),        # n4 -> v7
        O(op="node", op_type="Mul", inputs=[]), O(op="n_prepend", n=0, ns=[5], single=True),       # n5 -> v8
        O(op="g_remove", g=0, ns=[5], single=True), O(op="g_sort", g=0),
        O(op="n_set", n=1, field="name", s="n1"), O(op="n_set", n=1, field="domain", s="d"),
        O(op="n_set", n=1, field="version", s=18), O(op="n_set", n=1, field="op_type", s="Relu6"),
        O(op="n_set", n=1, field="overload", s="o"),
        O(op="n_resize_inputs", n=1, k=2), O(op="n_resize_outputs", n=1, k=2),
        O(op="v_name", v=1, s="yy"), O(op="v_type", v=1, dtype=1), O(op="v_shape", v=1, shape=[1, 2]),
        O(op="v_const", v=1, t=0), O(op="v_merge", v=1, shape=[1, 2]),
        O(op="v_rauw", v=3, w=1),
        O(op="init_register", g=0, v=2), O(op="init_del", g=0, key="w"),
        O(op="io_append", g=0, which="outputs", v=4), O(op="io_extend", g=0, which="outputs", vs=[6], gen=True),
        O(op="io_insert", g=0, which="outputs", i=0, v=7), O(op="io_setitem", g=0, which="outputs", i=0, v=5),
        O(op="io_pop", g=0, which="outputs", i=None), O(op="io_remove", g=0, which="outputs", v=5),
        O(op="io_clear", g=0, which="outputs"),
        O(op="function", domain="d", name="f", g=0, attrs=[0]),
        O(op="f_set", f=0, field="name", s="ff"), O(op="f_set", f=0, field="domain", s="dd"), O(op="f_set", f=0, field="overload", s="o"),
        O(op="model", g=0, fs=[0]),
        O(op="na_set", n=1, key="k", a=0),
    ]
    return {"nj": 2, "blocks": [{"t": "with", "j": 0, "body": [{"t": "with", "j": 1, "body": ops}]}]}


EMPTY_OWNER_SLOTS = ["_GraphIO.append", "_GraphIO.extend", "_GraphIO.insert", "_GraphIO.pop", "_GraphIO.remove", "_GraphIO.clear",
                     "_GraphIO.__setitem__", "GraphInitializers.__setitem__", "GraphInitializers.__delitem__", "Attributes.__setitem__"]
REUSE_FLOOR = 6


def empty_owner_cases() -> list:
    """Permanent family (seeded C20-q1): every instrumented container operation on a graph / function that holds ZERO
    nodes (an empty Graph / Function is falsy), inside 1 and 2 journals - incl. the extend_io / set_initializer calls that
    Graph.__init__ itself makes - followed by the same operations once the graph has a node."""
    def O(**kw):
        return {"t": "try", "body": [{"t": "op", "op": kw}]}

    def container_ops(g, f):
        return [
            O(op="io_append", g=g, which="inputs", v=1), O(op="io_extend", g=g, which="outputs", vs=[2], gen=True),
            O(op="io_insert", g=g, which="inputs", i=0, v=2), O(op="io_setitem", g=g, which="inputs", i=0, v=3),
            O(op="io_pop", g=g, which="inputs", i=None), O(op="io_remove", g=g, which="inputs", v=3),
            O(op="io_append", g=g, which="outputs", v=1), O(op="io_clear", g=g, which="outputs"),
            O(op="init_set", g=g, key="w", v=4), O(op="init_del", g=g, key="w"), O(op="init_register", g=g, v=4),
            O(op="fa_set", f=f, key="k", a=0),
        ]

    pre = [O(op="value", name="x"), O(op="value", name="y"), O(op="value", name="z"), O(op="value", name="u"),
           O(op="tensor", data=[1, 2], name="w"), O(op="value", name="w", const=0), O(op="attr", kind="int", name="k", val=1)]
    body = ([O(op="graph", inputs=[0], outputs=[1], nodes=[], inits=[], name="empty"),           # Graph.__init__ -> extend_io x2 on an empty graph
             O(op="graph", inputs=[], outputs=[], nodes=[], name="fg"), O(op="function", domain="d", name="f", g=1)]
            + container_ops(0, 0)
            + [O(op="node", op_type="Relu", inputs=[0]), O(op="g_append", g=0, n=0),
               O(op="node", op_type="Relu", inputs=[0]), O(op="g_append", g=0, n=1, fn=True)]
            + container_ops(0, 0))
    cases = []
    for nest in (1, 2):
        inner = body
        for j in reversed(range(nest)):
            inner = [{"t": "with", "j": j, "body": inner}]
        cases.append({"nj": 2, "blocks": pre + inner})
    # the journal entered when the graph already exists and is still empty
    cases.append({"nj": 2, "blocks": pre + body[:3] + [{"t": "with", "j": 1, "body": container_ops(0, 0)}]})
    return cases


def reuse_cases() -> list:
    """Permanent family (seeded C20-q2): a Journal object is entered, exited, and entered again in ANOTHER nesting context
    (alone, then inside another active journal; under j0, then under j2; inner / outer roles swapped; first use left by an
    exception), with instrumented operations of every wrapper kind inside every block."""
    def O(**kw):
        return {"t": "op", "op": kw}

    def ops(tag, g, n0, v0):
        # constructor, setter, method with nested calls, container method, one rejected call
        return [O(op="value", name=f"x{tag}"), O(op="node", op_type="Relu", inputs=[v0]), O(op="g_append", g=g, n=n0),
                O(op="n_set", n=n0, field="name", s=f"n{tag}"), O(op="io_append", g=g, which="outputs", v=v0),
                {"t": "try", "body": [O(op="g_append", g=g, n=n0), O(op="g_remove", g=g, ns=[n0], single=True), O(op="g_remove", g=g, ns=[n0], single=True)]}]

    def W(j, body):
        return {"t": "with", "j": j, "body": body}

    pre = [O(op="value", name="in"), O(op="graph", inputs=[0], outputs=[], nodes=[], name="g")]
    # value / node indices: every ops() block adds one value (x), one node (with one output value)
    A, B, C = ops("a", 0, 0, 0), ops("b", 0, 1, 0), ops("c", 0, 2, 0)
    boom = {"t": "try", "body": [W(1, ops("a", 0, 0, 0) + [O(op="raise")])]}
    return [
        {"nj": 3, "blocks": pre + [W(1, A), W(0, [W(1, B)])]},                    # alone, then nested (the scenario of q2)
        {"nj": 3, "blocks": pre + [W(0, [W(1, A)]), W(1, B)]},                    # nested, then alone
        {"nj": 3, "blocks": pre + [W(0, [W(1, A)]), W(1, [W(0, B)])]},            # roles swapped
        {"nj": 3, "blocks": pre + [W(0, [W(1, A)]), W(2, [W(1, B)])]},            # under j0, then under j2
        {"nj": 3, "blocks": pre + [W(1, A), W(0, [W(2, [W(1, B)])]), W(2, [W(1, C)])]},  # three contexts
        {"nj": 3, "blocks": pre + [boom, W(0, [W(1, B)])]},                       # first use left by an exception
        {"nj": 3, "blocks": pre + [W(0, [W(1, A), W(1, B)]), W(1, C)]},           # same context twice, then another
    ]


def flat_family_cases() -> list:
    """Permanent flat families: (a) a journal entered, exited and entered again nested inside another one, by raw
    __enter__ / __exit__ calls; (b) exits out of order that leave STALE wrappers in the class table, followed by
    operations of every wrapper kind, by the late exit, and by entering the stale journal again (outside 'properly
    nested': model `runFlatG` vs code, entries included)."""
    E, X = (lambda j: {"t": "enter", "j": j}), (lambda j, exc=False: {"t": "exit", "j": j, "exc": exc})
    P = lambda **kw: {"t": "op", "op": kw}  # noqa: E731
    mk = [P(op="value", name="x"), P(op="graph", inputs=[0], outputs=[], nodes=[], name="g"), P(op="node", op_type="Relu", inputs=[0])]
    kinds = [P(op="g_append", g=0, n=0), P(op="n_set", n=0, field="name", s="nn"), P(op="io_append", g=0, which="outputs", v=0),
             P(op="value", name="y"), P(op="g_sort", g=0)]
    cases = [
        {"nj": 3, "evs": mk + [E(1)] + kinds + [X(1), E(0), E(1)] + kinds[1:] + [X(1), X(0)]},
        {"nj": 3, "evs": mk + [E(0), E(1)] + kinds + [X(1, True), X(0), E(1)] + kinds[1:] + [X(1)]},
        {"nj": 3, "evs": mk + [E(1), X(1), E(2), E(0), E(1)] + kinds + [X(1), X(0), X(2, True)]},
    ]
    for late in (kinds, kinds[:1]):
        cases += [
            {"nj": 3, "evs": mk + [E(0), E(1), X(0)] + late + [X(1)] + kinds},                  # stale wrappers of 0 installed after X(1)
            {"nj": 3, "evs": mk + [E(0), E(1), X(0), X(1)] + late + [E(0)] + kinds + [X(0)]},   # ... and journal 0 entered again on top of them
            {"nj": 3, "evs": mk + [E(0), E(1), E(2), X(0, True)] + late + [X(2), X(1)] + kinds + [E(2)] + kinds[:2] + [X(2)]},
        ]
    return cases


def bound_method_stream(ctx) -> None:
    """User code that keeps a bound method across the boundary of a `with journal:` block.  Such calls
    do not go through the class attributes, so they are outside the model (see ASSUMPTIONS): a method
    captured BEFORE the block and called inside it runs the original directly and is not recorded
    (the calls it makes are); a method captured INSIDE and called after the block is the wrapper and
    still records into the journal that was left.  Both are reported in the input distribution; what
    is *checked* on these histories is everything else: same results and IR as without a journal,
    classes restored, no strong reference."""
    R = Real.get()
    setup = [{"t": "op", "op": {"op": "value", "name": "x"}},
             {"t": "op", "op": {"op": "graph", "inputs": [0], "outputs": [], "nodes": [], "name": "g"}},
             {"t": "op", "op": {"op": "node", "op_type": "Relu", "inputs": [0]}},
             {"t": "op", "op": {"op": "node", "op_type": "Relu", "inputs": [0]}},
             {"t": "op", "op": {"op": "node", "op_type": "Relu", "inputs": [0]}}]
    before = {"nj": 2, "blocks": [{"t": "try", "body": setup + [
        {"t": "op", "op": {"op": "capture", "name": "c", "g": 0, "meth": "append"}},
        {"t": "with", "j": 0, "body": [{"t": "op", "op": {"op": "call_captured", "name": "c", "n": 0}},
                                        {"t": "op", "op": {"op": "g_append", "g": 0, "n": 1}}]}]}]}
    after = {"nj": 2, "blocks": [{"t": "try", "body": setup + [
        {"t": "with", "j": 0, "body": [{"t": "op", "op": {"op": "capture", "name": "c", "g": 0, "meth": "append"}}]},
        {"t": "op", "op": {"op": "call_captured", "name": "c", "n": 0}},
        {"t": "with", "j": 1, "body": [{"t": "op", "op": {"op": "call_captured", "name": "c", "n": 1}}]}]}]}
    for label, case in (("captured-before", before), ("captured-inside", after)):
        plain = Runner(R, case, journaled=False)
        plain.run()
        jr = Runner(R, case, journaled=True)
        jr.run()
        left = R.pristine_problems()
        if left:
            R.repair()
            ctx.fail(f"bound-method:{label}/restore-final", "classes not as before", {"case": case, "left": left[:6]})
        for f in jr.restore_failures:
            ctx.fail(f"bound-method:{label}/restore", "class attributes not restored after leaving `with journal`", {"case": case, **f})
        if plain.outcomes != jr.outcomes or snapshot(plain.env) != snapshot(jr.env):
            ctx.fail(f"bound-method:{label}/transparent", "results or IR differ inside a journal", {"case": case})
        ops0 = [e.operation for e in jr.journals[0].entries]
        ctx.case(["bound-method", label], stream="bound-method", sample={"stream": "bound-method", "form": label, "journal0": ops0})
        if label == "captured-before":
            ctx.count(f"bound-method:captured-before:call-recorded={ops0.count('append') == 2}")
        else:
            ctx.count(f"bound-method:captured-inside:stale-wrapper-records-after-exit={ops0.count('append') > 0}")
        wrs = [weakref.ref(o) for o in jr.reg.objs if type(o).__module__.startswith("onnx_ir")]
        journals = jr.journals
        del plain, jr
        gc_check(ctx, case, journals, wrs, sum(len(j.entries) for j in journals), f"bound-method:{label}")


# --------------------------------------------------------------------------- round 4: flat histories, captured callables


def stale_wrapper_records() -> bool:
    """Probe of the real code: does a wrapper taken inside a journal still record after the journal was exited?
    (True on /repo as it is: defect D471; False once proposed_fixes/D471.diff is applied - the model then uses
    `callCapturedGuarded`.)"""
    R = Real.get()
    ir = R.ir
    g = ir.Graph([], [], nodes=[])
    n = ir.Node("", "Relu", [])
    j = R.J.Journal()
    with j:
        m = g.append
    before = len(j.entries)
    m(n)
    return len(j.entries) > before


_GUARDED = []


def guarded_code() -> bool:
    """Does /repo have the `journal._active` check (repo commit 1a1144b)?  Probed once per process; selects the model
    variant (checked: dispatchG / runBlockG / runFlatG / callCapturedG; unchecked: dispatch / runBlock / ...) that
    EVERY stream is compared with."""
    if not _GUARDED:
        _GUARDED.append(not stale_wrapper_records())
    return _GUARDED[0]


def proper_flat(evs: list) -> bool:
    """The stack discipline of `WellBracketed`, written independently of the model."""
    st = []
    for e in evs:
        if e["t"] == "enter":
            if e["j"] in st:
                return False
            st.append(e["j"])
        elif e["t"] == "exit":
            if not st or st[-1] != e["j"]:
                return False
            st.pop()
    return not st


# callable -> (slot key, receiver kind); taken from an instance or from the class
CAPTURABLE = {
    "g.append": "Graph.append",
    "Graph.append": "Graph.append",
    "Node.name.fset": "Node.name.fset",
    "Value.__init__": "Value.__init__",
    "g.inputs.append": "_GraphIO.append",
    "Graph.sort": "Graph.sort",
}


class FlatRunner:
    """Executes a flat history on the real code: raw __enter__ / __exit__ calls (with (None, None, None) or with the
    triple of a live exception), public-API operations, and callables taken from a class / an instance and called
    later.  Records the control state after every item, the call trees, the entries."""

    def __init__(self, R: Real, case: dict, journaled: bool = True):
        self.R, self.case, self.journaled = R, case, journaled
        self.env = Env(R)
        self.reg = Registry()
        self.tr = Tracer.get(R)
        self.journals = [R.J.Journal() for _ in range(case["nj"])]
        ir = R.ir
        # receivers and arguments of the captured callables: made before the history starts, not traced
        self.pg = ir.Graph([], [], nodes=[], name="pool")
        self.pn = ir.Node("", "Relu", [], name="pool_node")
        self.pv = ir.Value.__new__(ir.Value)
        self.fresh_nodes = [ir.Node("", "Relu", [], name=f"fresh{i}") for i in range(12)]
        self.fresh_vals = [ir.Value(name=f"fv{i}") for i in range(12)]
        self.caps: dict = {}
        self.states: list = []
        self.items: list = []      # the history as the model takes it
        self.outcomes: list = []
        self.cap_impls: list = []
        self.exit_swallowed = 0
        self.after_exit: list = []  # (what, slot key, proper-so-far) of calls that made an inactive journal record
        self.before_missed = 0
        self.restore_after_exit: list = []

    def _receiver(self, what: str):
        return {"g.append": self.pg, "Graph.append": self.pg, "Node.name.fset": self.pn, "Value.__init__": self.pv,
                "g.inputs.append": self.pg.inputs, "Graph.sort": self.pg}[what]

    def _take(self, what: str):
        ir = self.R.ir
        if what == "g.append":
            return self.pg.append
        if what == "Graph.append":
            f = ir.Graph.append
            return lambda n: f(self.pg, n)
        if what == "Node.name.fset":
            f = ir.Node.name.fset
            return lambda s_: f(self.pn, s_)
        if what == "Value.__init__":
            f = ir.Value.__init__
            return lambda nm_: f(self.pv, name=nm_)
        if what == "g.inputs.append":
            return self.pg.inputs.append
        if what == "Graph.sort":
            f = ir.Graph.sort
            return lambda: f(self.pg)
        raise KeyError(what)

    def _raw(self, what: str):
        """the function object that was looked up (for decoding its wrapper layers)"""
        ir = self.R.ir
        if what in ("g.append", "Graph.append"):
            return vars(ir.Graph)["append"]
        if what == "Node.name.fset":
            return vars(ir.Node)["name"].fset
        if what == "Value.__init__":
            return vars(ir.Value)["__init__"]
        if what == "g.inputs.append":
            return vars(self.R.gc_._GraphIO)["append"]
        return vars(ir.Graph)["sort"]

    def _arg(self, what: str, n: int):
        if what in ("g.append", "Graph.append"):
            return (self.fresh_nodes[n % len(self.fresh_nodes)],)
        if what == "Node.name.fset":
            return (f"name{n}",)
        if what == "Value.__init__":
            return (f"v{n}",)
        if what == "g.inputs.append":
            return (self.fresh_vals[n % len(self.fresh_vals)],)
        return ()

    def run(self) -> None:
        R = self.R
        self.tr.begin(self.reg)
        ncall = 0
        word: list = []
        try:
            for e in self.case["evs"]:
                t = e["t"]
                refused = False
                if t == "enter":
                    word.append(e)
                    if self.journaled:
                        try:
                            self.journals[e["j"]].__enter__()
                            self.tr.events.append(["enter", e["j"]])
                        except RuntimeError:
                            refused = True
                    self.items.append({"t": "enter", "j": e["j"]})
                elif t == "exit":
                    word.append(e)
                    if self.journaled:
                        j = self.journals[e["j"]]
                        had = bool(j._original_methods)
                        try:
                            if e.get("exc"):
                                try:
                                    raise UserBoom("propagating through __exit__")
                                except UserBoom as ex:
                                    if j.__exit__(type(ex), ex, ex.__traceback__):
                                        self.exit_swallowed += 1
                            else:
                                j.__exit__(None, None, None)
                        except KeyError:
                            pass  # never entered: `_original_methods` is empty; nothing was changed
                        if had:
                            self.tr.events.append(["exit", e["j"]])
                    self.items.append({"t": "exit", "j": e["j"], "exc": bool(e.get("exc"))})
                elif t == "op":
                    start = len(self.tr.events)
                    try:
                        res = exec_op(self.env, e["op"])
                        oc = ["ret", self.env.canon(res)]
                    except Exception as ex:  # the flat history goes on (the caller caught it)
                        oc = ["raise", type(ex).__name__]
                    self.outcomes.append(oc)
                    steps = forest([x for x in self.tr.events[start:] if x[0] in ("start", "finish")])
                    self.items.append({"t": "op", "steps": steps, "out": out_code(oc[0], oc[1])})
                elif t == "capture":
                    what = e["what"]
                    self.caps[e["name"]] = (what, self._take(what))
                    k = R.KEYS.index(CAPTURABLE[what])
                    self.cap_impls.append(R.decode_impl(self._raw(what), self.journals))
                    self.items.append({"t": "capture", "name": e["name"], "k": k, "self": self.reg.idx(self._receiver(what))})
                elif t == "callcap":
                    what, f = self.caps[e["name"]]
                    n_before = [len(j.entries) for j in self.journals]
                    act_before = [bool(j._active) for j in self.journals]
                    start = len(self.tr.events)
                    try:
                        res = f(*self._arg(what, ncall))
                        oc = ["ret", self.env.canon(res)]
                    except Exception as ex:
                        oc = ["raise", type(ex).__name__]
                    ncall += 1
                    self.outcomes.append(oc)
                    trees = forest([x for x in self.tr.events[start:] if x[0] in ("start", "finish")])
                    self.items.append({"t": "callcap", "name": e["name"], "step": trees[0] if trees else None})
                    for ji, j in enumerate(self.journals):
                        grew = len(j.entries) - n_before[ji]
                        if grew and not act_before[ji]:
                            self.after_exit.append((what, CAPTURABLE[what], proper_prefix(word)))
                if self.journaled:
                    self.states.append(_ctl_state(R, self.journals, refused))
        finally:
            self.events = self.tr.events
            self.owner = dict(self.tr.owner)
            self.tr.end()


def flat_reused_elsewhere(evs: list) -> bool:
    """some journal is (successfully) entered twice with different sets of open journals around it"""
    open_, seen = [], {}
    for e in evs:
        if e["t"] == "enter" and e["j"] not in open_:
            seen.setdefault(e["j"], set()).add(tuple(open_))
            open_.append(e["j"])
        elif e["t"] == "exit" and e["j"] in open_:
            open_.remove(e["j"])
    return any(len(v) > 1 for v in seen.values())


def proper_prefix(word: list) -> bool:
    """the enter/exit events so far never broke the stack discipline (journals may still be open)"""
    st = []
    for e in word:
        if e["t"] == "enter":
            if e["j"] in st:
                return False
            st.append(e["j"])
        else:
            if not st or st[-1] != e["j"]:
                return False
            st.pop()
    return True


def flat_stream(ctx, cases: list, stream: str, guarded: bool, chunk: int = 100) -> None:
    for at in range(0, len(cases), chunk):
        _flat_stream(ctx, cases[at : at + chunk], stream, guarded)


def _flat_stream(ctx, cases: list, stream: str, guarded: bool) -> None:
    """Flat histories: the model's `runFlat` / `capture` / `callCaptured` vs the real code (control state after every
    item, what a captured callable is, outcomes, every journal's entries), and the property on the real objects:
    a properly nested word restores classes / current journal / active flags; IR and results as without journals;
    entries = the calls completed while entered; a journal receives nothing after it was left (D471)."""
    R = Real.get()
    pend = []
    for case in cases:
        if R.pristine_problems():
            R.repair()
        evs = case["evs"]
        plain = FlatRunner(R, case, journaled=False)
        plain.run()
        snap_plain = snapshot(plain.env)
        fr = FlatRunner(R, case, journaled=True)
        fr.run()
        snap_j = snapshot(fr.env)
        left = R.pristine_problems()
        if left:
            R.repair()
        word = [e for e in evs if e["t"] in ("enter", "exit")]
        proper = proper_flat(word)
        has_cap = any(e["t"] == "callcap" for e in evs)
        nops = sum(1 for e in evs if e["t"] in ("op", "callcap"))
        ctx.case(["flat", case], nontrivial=len(evs) > 0, stream=stream, sample=case if len(evs) <= 5 else None,
                 flat_len=min(len(evs) // 3 * 3, 15), well_bracketed=proper, flat_ops=min(nops, 6),
                 exc_exits=min(sum(1 for e in evs if e["t"] == "exit" and e.get("exc")), 3), captured_calls=min(sum(1 for e in evs if e["t"] == "callcap"), 3))
        sig = stream
        # ---- oracle
        if fr.exit_swallowed:
            ctx.fail(f"{sig}/exit-swallows-exception", "Journal.__exit__ returned a true value (the exception would be swallowed)", {"case": case})
        if proper and (left or any(j._active for j in fr.journals)):
            ctx.fail(f"{sig}/restore", "a properly nested flat enter/exit history does not restore the classes / current journal / active flags",
                     {"case": case, "left": left[:6], "active": [bool(j._active) for j in fr.journals]})
        if plain.outcomes != fr.outcomes or snap_plain != snap_j:
            ctx.fail(f"{sig}/transparent", "results or IR of a flat history differ with journals", {"case": case, "plain": plain.outcomes, "journaled": fr.outcomes})
        entries_real = [[[e.operation, fr.reg.ids.get(id(e.ref()), -1) if e.ref is not None and e.ref() is not None else -1] for e in j.entries] for j in fr.journals]
        if proper and not has_cap:
            for ji in range(case["nj"]):
                exp = expected_entries(fr.events, fr.owner, ji)
                if entries_real[ji] != exp:
                    ctx.fail(f"{sig}/entries", "journal entries of a properly nested flat history are not exactly the instrumented calls executed while entered",
                             {"case": case, "journal": ji, "real": entries_real[ji][:30], "expected": exp[:30]})
        elif not proper and not has_cap and nops:
            # outside 'properly nested': observation only - does every journal still hold exactly the calls completed
            # while it was entered?  (No when exits crossed: a journal that is entered but whose wrappers were taken out
            # of the class table by another journal's __exit__ misses calls; what the code does there is the model's
            # runFlatG and compared below.)
            as_exp = all(entries_real[ji] == expected_entries(fr.events, fr.owner, ji) for ji in range(case["nj"]))
            ctx.count(f"flat:improperly-nested:entries-are-the-calls-completed-while-entered={as_exp}")
        # the invariant of C20_table_wrappers_active evaluated on the real objects after every item: every wrapper layer
        # installed in the class table was made by a journal whose _active flag is set
        real_ta = [all(all(0 <= l < len(st_["active"]) and st_["active"][l] for l in x["layers"]) for x in st_["table"]) for st_ in fr.states]
        if proper and not all(real_ta):
            ctx.fail(f"{sig}/stale-wrapper-installed", "during a properly nested flat history a wrapper of a journal that is not active is installed in the class table",
                     {"case": case, "step": real_ta.index(False)})
        ctx.count(f"table-wrappers-all-active-at-every-step={all(real_ta)}:well_bracketed={proper}")
        if flat_reused_elsewhere(evs):
            ctx.count("flat:journal-reused-in-another-nesting-context" + (":well-bracketed" if proper else ""))
        stale_ops = sum(1 for e, ok in zip(evs, [True] + real_ta[:-1]) if e["t"] == "op" and not ok)
        if stale_ops:
            ctx.count("flat:operations-executed-with-a-stale-wrapper-installed", stale_ops)
        for what, key, ok_prefix in fr.after_exit:
            ctx.count(f"captured-inside:records-after-exit:{what}")
            if ok_prefix:
                # D471: properly nested use; the journal that was left gains an entry for an operation executed after it
                ctx.fail(f"captured-inside/records-after-exit:{key}",
                         "a callable taken from the class / an instance inside a journal still records into that journal after it was exited",
                         {"case": case, "callable": what})
        # ---- model
        req = {"m": "journal.flat", "fuel": FUEL, "nj": case["nj"], "guarded": guarded,
               "owner": sorted([a, b] for a, b in fr.owner.items()), "evs": [it_ for it_ in fr.items if not (it_["t"] == "callcap" and it_["step"] is None)]}
        impl = {"states": fr.states, "caps": fr.cap_impls, "log": [out_code(o[0], o[1]) for o in fr.outcomes],
                "entries": entries_real, "proper": proper, "skipped_call": any(it_["t"] == "callcap" and it_["step"] is None for it_ in fr.items),
                "stale_in_table": (not proper) and nops > 0, "table_active": real_ta}
        wrs = []
        for o in fr.reg.objs + fr.fresh_nodes + fr.fresh_vals + [fr.pg, fr.pn, fr.pv]:
            try:
                wrs.append(weakref.ref(o))
            except TypeError:
                pass
        journals = fr.journals
        n_entries = sum(len(j.entries) for j in journals)
        pend.append((case, req, impl, journals, wrs, n_entries))
        o = None  # (the loop variable would keep the last object alive)
        del plain, fr, snap_plain, snap_j
    answers = lean_batch([p[1] for p in pend])
    for (case, req, impl, journals, wrs, n_entries), ans in zip(pend, answers):
        if "err" in ans:
            ctx.disagree("model driver error: " + str(ans["err"]), case, ans, None)
            continue
        if impl["skipped_call"]:
            ctx.count("flat:captured-call-did-not-reach-the-original")
            continue
        if ans["wb"] != impl["proper"]:
            ctx.disagree("WellBracketed: the model's decision != the harness' stack discipline", case, ans["wb"], impl["proper"])
        if ans["states"] != impl["states"]:
            k = next((i for i, (a, b) in enumerate(zip(ans["states"], impl["states"])) if a != b), -1)
            ctx.disagree("flat history: class table / current / previous / captured / active after an item: model != implementation",
                         {"case": case, "step": k}, ans["states"][k] if k >= 0 else None, impl["states"][k] if k >= 0 else None)
        if ans["caps"] != impl["caps"]:
            ctx.disagree("captured callable: wrapper layers of the function looked up at capture time: model != implementation", case, ans["caps"], impl["caps"])
        m_log = [({"raise": exc_code("RuntimeError")} if o == {"raise": 2} else o) for o in ans["log"]]
        if m_log != impl["log"]:
            ctx.disagree("flat history: outcomes: model != implementation", case, m_log, impl["log"])
        m_entries = [[[e[1], e[2].get("weak", -9)] for e in es] for es in ans["entries"]]
        if ans.get("table_active") != impl["table_active"]:
            ctx.disagree("flat history: TableActive (every installed wrapper belongs to an active journal) after every item: model != implementation",
                         case, ans.get("table_active"), impl["table_active"])
        if impl["proper"] and not all(ans.get("table_active") or [True]):
            ctx.disagree("model: a wrapper of an inactive journal is installed during a well-bracketed word (contradicts C20_table_wrappers_active)", case, ans.get("table_active"), None)
        if impl["stale_in_table"]:
            ctx.count(f"flat:improperly-nested-with-operations:entries-compared:{'checked' if guarded else 'unchecked'}-model")
        if m_entries != impl["entries"]:
            k = next((i for i, (a, b) in enumerate(zip(m_entries, impl["entries"])) if a != b), 0)
            ctx.disagree("flat history: journal entries: model != implementation", {"case": case, "journal": k},
                         str(m_entries[k])[:1200], str(impl["entries"][k])[:1200])
        last = ans["states"][-1] if ans["states"] else None
        if impl["proper"] and last is not None and (any(x["layers"] or x["base"] != i for i, x in enumerate(last["table"])) or last["current"] is not None or any(last["active"])):
            ctx.disagree("model: a well-bracketed word does not restore (contradicts C20_restore_flat)", case, last, None)
    # one collection for the whole batch (gc.collect() costs ~50 ms with the IR modules loaded)
    gc.collect()
    for case, req, impl, journals, wrs, n_entries in pend:
        alive = [type(w()).__name__ for w in wrs if w() is not None]
        stale = sum(1 for j in journals for e in j.entries if e.ref is not None and e.ref() is not None)
        if sum(len(j.entries) for j in journals) != n_entries:
            ctx.fail(f"{stream}/records-after-exit", "a journal kept receiving entries after it was left", {"case": case})
        if alive or stale:
            ctx.fail(f"{stream}/strong-ref", "IR objects stay alive while only the journal entries are kept",
                     {"case": case, "alive": alive[:10], "entries_with_live_ref": stale})


FLAT_OPS = [
    {"op": "value", "name": "x"},
    {"op": "node", "op_type": "Relu", "inputs": [0], "num_outputs": 1},
    {"op": "graph", "inputs": [0], "outputs": [], "nodes": [], "name": "g"},
    {"op": "g_append", "g": 0, "n": 0},
    {"op": "raise"},
    {"op": "io_append", "g": 0, "which": "inputs", "v": 0},
    {"op": "g_sort", "g": 0},
]


def flat_exhaustive(maxlen: int) -> list:
    """all words of length <= maxlen over {enter 0, enter 1, exit 0 (normal), exit 1 (exception propagating), op}"""
    import itertools

    alphabet = [{"t": "enter", "j": 0}, {"t": "enter", "j": 1}, {"t": "exit", "j": 0}, {"t": "exit", "j": 1, "exc": True},
                {"t": "op", "op": {"op": "value", "name": "x"}}]
    return [{"nj": 2, "evs": list(w)} for n in range(0, maxlen + 1) for w in itertools.product(alphabet, repeat=n)]


def flat_captured_cases() -> list:
    """every capturable callable x taken before / inside the block x called inside / after it / inside a later journal"""
    cases = []
    for what in CAPTURABLE:
        cap = {"t": "capture", "name": "c", "what": what}
        call = {"t": "callcap", "name": "c"}
        E, X = (lambda j: {"t": "enter", "j": j}), (lambda j, exc=False: {"t": "exit", "j": j, "exc": exc})
        cases += [
            {"nj": 2, "evs": [cap, E(0), call, X(0), call]},                       # taken before, called inside and after
            {"nj": 2, "evs": [E(0), cap, call, X(0), call]},                       # taken inside, called inside and after (D471)
            {"nj": 2, "evs": [E(0), cap, X(0, True), E(1), call, X(1)]},           # taken inside journal 0, called inside journal 1
            {"nj": 2, "evs": [E(0), E(1), cap, X(1), call, X(0), call]},           # two layers, one / none of them still active
            {"nj": 2, "evs": [E(0), cap, X(0), E(0), call, X(0)]},                 # the same journal object entered again
        ]
    return cases


def flat_random(rng, n: int) -> list:
    R = Real.get()
    cases = []
    for _ in range(n):
        gen = Gen(R, rng)
        evs, st = [], []
        mode = rng.choice(["proper", "proper", "free"])
        caps = []
        for _i in range(rng.randint(3, 14)):
            x = rng.random()
            if x < 0.22:
                free = [j for j in range(3) if j not in st] if mode == "proper" else list(range(3))
                if free:
                    j = rng.choice(free)
                    st.append(j)
                    evs.append({"t": "enter", "j": j})
            elif x < 0.44:
                if mode == "proper":
                    if st:
                        evs.append({"t": "exit", "j": st.pop(), "exc": rng.random() < 0.4})
                else:
                    j = rng.randrange(3)
                    if j in st:
                        st.remove(j)
                    evs.append({"t": "exit", "j": j, "exc": rng.random() < 0.4})
            elif x < 0.52:
                name = f"c{len(caps)}"
                caps.append(name)
                evs.append({"t": "capture", "name": name, "what": rng.choice(list(CAPTURABLE))})
            elif x < 0.64 and caps:
                evs.append({"t": "callcap", "name": rng.choice(caps)})
            else:
                op = gen.gen_op(in_journal=bool(st))
                try:
                    exec_op(gen.env, op)
                except Exception:
                    pass
                evs.append({"t": "op", "op": op})
        if mode == "proper":
            while st:
                evs.append({"t": "exit", "j": st.pop(), "exc": rng.random() < 0.3})
        cases.append({"nj": 3, "evs": evs})
    return cases


def _flat_exh_shard(args):
    cases, guarded = args
    part = Part()
    R = Real.get()
    load_slot_table(R)
    flat_stream(part, cases, "flat-exhaustive", guarded)
    return part


def _flat_shard(args):
    seed, n, guarded = args
    import random

    part = Part()
    R = Real.get()
    load_slot_table(R)
    flat_stream(part, flat_random(random.Random(f"C20-flat:{seed}"), n), "flat-random", guarded)
    return part


# --------------------------------------------------------------------------- round 3: slot table, entry, exit faults, kernel


def _src_table(R: Real) -> dict:
    """What the SOURCE of _wrappers.py says (ast, read at run time): the keys of get_original_methods with the
    attribute they read; the assignments of wrap_ir_classes (class, attribute, plain / property, factory,
    key, operation, target, text of the details lambda); the assignments of restore_ir_classes."""
    import ast
    import inspect

    tree = ast.parse(inspect.getsource(R.W))
    funcs = {n.name: n for n in tree.body if isinstance(n, ast.FunctionDef)}

    def dotted(e):
        parts = []
        while isinstance(e, ast.Attribute):
            parts.append(e.attr)
            e = e.value
        parts.append(e.id if isinstance(e, ast.Name) else "?")
        return list(reversed(parts))

    def sub_key(e):
        if isinstance(e, ast.Subscript) and isinstance(e.slice, ast.Constant):
            return e.slice.value
        return None

    out = {"orig": [], "wrap": [], "restore": []}
    d = next(n.value for n in ast.walk(funcs["get_original_methods"]) if isinstance(n, ast.Assign) and isinstance(n.value, ast.Dict))
    for k, v in zip(d.keys, d.values):
        out["orig"].append([k.value, dotted(v)[1:]])
    for fname in ("wrap_ir_classes", "restore_ir_classes"):
        for st in funcs[fname].body:
            if not (isinstance(st, ast.Assign) and isinstance(st.targets[0], ast.Attribute)):
                continue
            tgt = dotted(st.targets[0])
            if tgt[0] not in ("_core", "_graph_containers"):
                continue
            val, is_prop = st.value, False
            if isinstance(val, ast.Call) and isinstance(val.func, ast.Name) and val.func.id == "property":
                is_prop, val = True, val.args[1]
            row = {"cls": tgt[1], "attr": tgt[2], "prop": is_prop}
            if fname == "restore_ir_classes":
                row["key"] = sub_key(val)
            else:
                row["factory"] = val.func.id if isinstance(val, ast.Call) and isinstance(val.func, ast.Name) else "?"
                args = list(val.args) if isinstance(val, ast.Call) else []
                row["key"] = sub_key(args[1]) if len(args) > 1 else None
                consts = [a.value for a in args[2:] if isinstance(a, ast.Constant)]
                kws = {k.arg: k.value for k in (val.keywords if isinstance(val, ast.Call) else [])}
                row["consts"] = consts
                row["target_attr"] = kws["target_attr"].value if "target_attr" in kws else None
                row["details_src"] = ast.unparse(kws["details_func"]) if "details_func" in kws else None
            out[fname.split("_")[0]].append(row)
    return out


class _Rp:
    """A synthetic argument: its repr / str are fixed texts; taking them is logged."""

    def __init__(self, text: str, log: list | None = None, tag: str = "details"):
        self.text, self.log, self.tag = text, log, tag

    def __repr__(self):
        if self.log is not None:
            self.log.append(self.tag)
        return "<" + self.text + ">"

    def __str__(self):
        return "str:" + self.text


def _clone_closure(fn, **cells):
    import types

    code = fn.__code__
    new = [types.CellType(cells[n]) if n in cells else c for n, c in zip(code.co_freevars, fn.__closure__)]
    return types.FunctionType(code, fn.__globals__, fn.__name__, fn.__defaults__, tuple(new))


def _probe_slot(R: Real, k: int, fn, with_defaults: bool, graph_arg):
    """Runs the REAL wrapper code object of slot k (with its real details lambda) around a stub original and a
    stub journal, on synthetic arguments.  Returns the observed order of effects, what was recorded, and the
    environment of reprs for the model's `detailsOf`."""
    import inspect

    code = fn.__code__
    kind = R.wrapper_codes[code]
    cells = dict(zip(code.co_freevars, (c.cell_contents for c in fn.__closure__)))
    log: list = []
    recorded: list = []

    class StubJournal:
        _active = True  # read by the wrappers once proposed fix D471 (forward only when the journal is inactive) is applied

        def record(self, obj, operation, details=None):
            log.append("record")
            recorded.append((obj, operation, details))

    sentinel = object()
    state = {"raise": False}

    def original(*a, **kw):
        log.append("orig")
        if state["raise"]:
            raise ZeroDivisionError("stub original raises")
        return sentinel

    target = _Rp("TARGET")

    class StubSelf:
        def __repr__(self):
            return "<SELF>"

    slf = StubSelf()
    slf.name = _Rp("NAME")
    slf._inputs, slf._outputs = [1, 2, 3], [1, 2]
    slf._shape = _Rp("SHAPE")
    slf._graph = slf._owner = target
    new_cells = {"journal": StubJournal()}
    for nm in ("original_init", "original_setter", "original_method"):
        if nm in cells:
            new_cells[nm] = original
    args: list = []
    env = {"reprSelf": "<SELF>", "className": "StubSelf", "attrRepr": {"_shape": "<SHAPE>"},
           "attrStr": {"name": "str:NAME"}, "attrLen": {"_inputs": 3, "_outputs": 2}, "args": []}
    if kind == "setter":
        prop = cells["property_name"]
        setattr(slf, prop, _Rp("OLD", log))
        env["attrRepr"][prop] = "<OLD>"
        args = [_Rp("A0")]
    else:
        real_details = cells["details_func"]

        def details(*a, **kw):
            log.append("details")
            return real_details(*a, **kw)

        new_cells["details_func"] = details
        if real_details is repr:
            nparams, ndefault = 0, 0
        else:
            ps = list(inspect.signature(real_details).parameters.values())[1:]
            nparams = len(ps)
            ndefault = sum(1 for p in ps if p.default is not inspect.Parameter.empty)
        if kind != "init":
            n = nparams - ndefault if with_defaults else nparams
            args = [_Rp(f"A{i}") for i in range(n)]
            if graph_arg is not None and args:
                args[0] = graph_arg
    for a in args:
        if isinstance(a, _Rp):
            env["args"].append({"repr": repr(a), "str": str(a), "isGraph": False, "nameRepr": ""})
        else:
            env["args"].append({"repr": repr(a), "str": str(a), "isGraph": True, "nameRepr": repr(a.name)})
    del log[:]
    w = _clone_closure(fn, **new_cells)
    res = w(slf, *args)
    order = list(log)
    rec = recorded[-1] if recorded else None
    # second run: the original raises
    del log[:]
    n_before = len(recorded)
    state["raise"] = True
    try:
        w(slf, *args)
        propagated = False
    except ZeroDivisionError:
        propagated = True
    # third / fourth run: the journal is NOT active (`journal._active` False, the check of repo commit 1a1144b): the
    # wrapper must only forward - original once, no details evaluation (setter: no read of the old value), no record
    new_cells["journal"]._active = False
    del log[:]
    n_rec = len(recorded)
    state["raise"] = False
    res_g = w(slf, *args)
    order_g = list(log)
    del log[:]
    state["raise"] = True
    try:
        w(slf, *args)
        propagated_g = False
    except ZeroDivisionError:
        propagated_g = log == ["orig"]
    first = {}
    for i, e in enumerate(order):
        first.setdefault(e, i)
    return {
        "guard_forwards": order_g == ["orig"] and len(recorded) == n_rec,
        "guard_returns_result": res_g is sentinel,
        "guard_propagates": propagated_g,
        "guard_order": order_g,
        "order": order,
        "details_before": "details" in first and "orig" in first and first["details"] < first["orig"],
        "record_after": (order.count("record") == 1 and "orig" in first and first["orig"] < first["record"]
                         and len(recorded) == n_before and propagated),
        "returns_result": res is sentinel,
        "records_self": rec is not None and rec[0] is slf,
        "records_target": rec is not None and rec[0] is target,
        "operation": rec[1] if rec else None,
        "details": rec[2] if rec else "<no record>",
        "env": env,
    }


def a_details_spec(ans: dict, i: int):
    """the model's row of slot i (what the probe is compared against), for a report"""
    rows = ans.get("r", [])
    return {k: rows[i].get(k) for k in ("key", "kind", "op", "details_none")} if i < len(rows) else None


def check_slot_table(ctx) -> None:
    """Slot-table completeness: the model's table (`journal.meta`: where each wrapper is installed, how, with which
    order of effects - the flags are COMPUTED by running the model's runImpl - and which details expression) against
    (a) the source text of get_original_methods / wrap_ir_classes / restore_ir_classes, (b) the class attributes
    that really change when a journal is entered (every class of _core and _graph_containers, not only the listed
    ones), (c) the behaviour of each installed wrapper's real code object with its real details lambda around a stub
    original and a stub journal."""
    R = Real.get()
    ans = lean_batch([{"m": "journal.meta"}])[0]
    model = ans.get("r", [])
    ctx.case(["slot-table"], sample={"slots": len(model)}, stream="slot-table")
    if ans.get("n_meta") != len(model) or len(model) != len(R.KEYS):
        ctx.disagree("slot table: number of slots", "slot-table", [ans.get("n_meta"), len(model)], len(R.KEYS))
    try:
        src = _src_table(R)
    except Exception as e:  # noqa: BLE001
        # the SHAPE of _wrappers.py changed (e.g. get_original_methods / restore_ir_classes driven by a table instead of
        # a dict literal and a list of assignments): the source-level reading (a) does not apply; the dynamic
        # comparisons (b) which class attributes change on __enter__ / are restored and (c) the behaviour of every
        # installed wrapper still tie the slot table to the code
        src = None
        ctx.count("slot_table_source_shape_unrecognised")
        ctx.notes.append(f"slot table: source shape of _wrappers.py not recognised ({type(e).__name__}); dynamic comparisons only")
    # (a) the three functions of the source agree with each other and with the model, entry by entry, in order
    for i, key in enumerate(R.KEYS if src is not None else []):
        m = model[i] if i < len(model) else {}
        o = src["orig"][i] if i < len(src["orig"]) else [None, []]
        wr = src["wrap"][i] if i < len(src["wrap"]) else {}
        rs = src["restore"][i] if i < len(src["restore"]) else {}
        install = "property-setter" if wr.get("prop") else ("constructor" if wr.get("attr") == "__init__" else "method")
        fac_kind = {"_init_wrapper": "init", "_setter_wrapper": "setter", "_method_wrapper": "method",
                    "_container_method_wrapper": "container"}.get(wr.get("factory"), "?")
        consts = wr.get("consts", [])
        op = "init" if fac_kind == "init" else (consts[-1] if consts else None)
        tgt = wr.get("target_attr") or (consts[0] if fac_kind == "setter" and consts else "")
        real_row = {"key": key, "orig_attr": o[1], "cls": wr.get("cls"), "attr": wr.get("attr"), "install": install,
                    "kind": fac_kind, "op": op, "target": tgt, "wrap_key": wr.get("key"),
                    "restore": [rs.get("cls"), rs.get("attr"), rs.get("prop"), rs.get("key")]}
        model_row = {"key": m.get("key"), "orig_attr": [m.get("cls"), m.get("attr")] + (["fset"] if m.get("install") == "property-setter" else []),
                     "cls": m.get("cls"), "attr": m.get("attr"), "install": m.get("install"), "kind": m.get("kind"),
                     "op": m.get("op"), "target": m.get("target"), "wrap_key": m.get("meta_key"),
                     "restore": [m.get("cls"), m.get("attr"), m.get("install") == "property-setter", m.get("key")]}
        if o[0] != key:
            real_row["key"] = [key, o[0]]
        if real_row != model_row:
            ctx.disagree(f"slot table entry {i} ({key}): model != source of _wrappers.py", "slot-table", model_row, real_row)
    for name in (("orig", "wrap", "restore") if src is not None else ()):
        if len(src[name]) != len(R.KEYS):
            ctx.disagree(f"slot table: {name} has {len(src[name])} entries, the table {len(R.KEYS)} (a slot on one side only)",
                         "slot-table", len(model), [r if isinstance(r, list) else [r.get("cls"), r.get("attr")] for r in src[name]][-3:])
    # (b) which class attributes change on __enter__, over every class of the two modules
    import inspect

    classes = []
    for mod in (R.core, R.gc_):
        for _n, c in sorted(vars(mod).items()):
            if inspect.isclass(c) and str(c.__module__).startswith("onnx_ir") and c not in classes:
                classes.append(c)
    before = {c: dict(vars(c)) for c in classes}
    j = R.J.Journal()
    changed, installed = [], {}
    with j:
        for c in classes:
            now = vars(c)
            for a in sorted(set(now) | set(before[c])):
                if now.get(a) is not before[c].get(a):
                    changed.append([c.__name__, a])
                    installed[(c.__name__, a)] = now.get(a)
        # (c) behaviour of every installed wrapper
        g_real = R.ir.Graph([], [], nodes=[], name="gname")
        probes = []
        for i, m in enumerate(model):
            obj = installed.get((m["cls"], m["attr"]))
            fn = obj.fset if isinstance(obj, property) else obj
            if fn is None or getattr(fn, "__code__", None) not in R.wrapper_codes:
                ctx.disagree(f"slot table entry {i} ({m['key']}): no journaling wrapper installed at {m['cls']}.{m['attr']}",
                             "slot-table", m, repr(obj)[:80])
                continue
            if isinstance(obj, property) != (m["install"] == "property-setter"):
                ctx.disagree(f"slot table entry {i} ({m['key']}): installed as property?", "slot-table", m["install"], type(obj).__name__)
            variants = [(False, None), (True, None)] + ([(False, g_real)] if m["key"] == "Node.graph.fset" else [])
            for with_defaults, garg in variants:
                # the real wrapper code object and its real details lambda run on stub arguments: whatever they raise
                # there (e.g. a details expression that starts to iterate / index its argument) is a broken
                # correspondence of this slot, never a harness crash
                try:
                    probes.append((i, m, _probe_slot(R, i, fn, with_defaults, garg)))
                except Exception as e:  # noqa: BLE001
                    ctx.disagree(f"slot {i} ({m['key']}): the installed wrapper / its details expression does something the model's details "
                                 f"expression does not (raised on the probe arguments: {type(e).__name__}: {str(e)[:120]})",
                                 {"slot": i, "key": m["key"], "with_defaults": with_defaults}, a_details_spec(ans, i), f"{type(e).__name__}")
    model_changed = sorted([m["cls"], m["attr"]] for m in model)
    if sorted(changed) != model_changed:
        only_real = [x for x in changed if x not in model_changed]
        only_model = [x for x in model_changed if x not in changed]
        ctx.disagree("slot table: class attributes replaced by __enter__ != the model's table (a slot on one side only)",
                     "slot-table", only_model, only_real)
    answers = lean_batch([{"m": "journal.details", "k": i, "env": p["env"]} for i, _m, p in probes])
    for (i, m, p), a in zip(probes, answers):
        ctx.case(["slot-probe", i, len(p["env"]["args"]), any(x["isGraph"] for x in p["env"]["args"])], stream="slot-probe",
                 kind=m["kind"])
        real_flags = {x: p[x] for x in ("details_before", "record_after", "returns_result")}
        real_flags["records_self"] = p["records_self"] and not p["records_target"] if m["kind"] != "container" else not p["records_target"]
        model_flags = {x: m[x] for x in ("details_before", "record_after", "returns_result", "records_self")}
        if real_flags != model_flags:
            ctx.disagree(f"slot {i} ({m['key']}): order of effects in the wrapper (details / original / record): model != code",
                         "slot-table", model_flags, {**real_flags, "order": p["order"]})
        if guarded_code():
            real_g = {x: p[x] for x in ("guard_forwards", "guard_returns_result", "guard_propagates")}
            model_g = {x: m.get(x) for x in ("guard_forwards", "guard_returns_result", "guard_propagates")}
            if real_g != model_g:
                ctx.disagree(f"slot {i} ({m['key']}): the wrapper with its journal NOT active (`journal._active` check): model (runImplGuarded) != code",
                             "slot-table", model_g, {**real_g, "order": p["guard_order"]})
        if p["operation"] != m["op"]:
            ctx.disagree(f"slot {i} ({m['key']}): operation name recorded", "slot-table", m["op"], p["operation"])
        if a.get("details") != p["details"]:
            ctx.disagree(f"slot {i} ({m['key']}): details string: model's details expression != the real lambda",
                         {"slot": i, "env": p["env"]}, a.get("details"), p["details"])
        if p["details"] is not None and type(p["details"]) is not str:
            ctx.fail(f"slot-table/details-not-a-string:{m['key']}", "a details expression returns something that is not a str", {"slot": i})
    if R.pristine_problems():
        ctx.fail("slot-table/restore", "classes not restored after a single journal", {"left": R.pristine_problems()})
        R.repair()


ENTRY_FIELD_TYPES = {  # what the model's FVal constructors print as (journal.details 'fields'); None-able fields have two
    "timestamp": {"float"}, "operation": {"str"}, "class_": {"type"}, "class_name": {"str"},
    "ref": {"ReferenceType", "NoneType"}, "object_id": {"int"}, "stack_trace": {"list"}, "details": {"str", "NoneType"},
}


def entry_strong_refs(e, ir_types) -> list:
    """IR instances referenced (strongly) by a JournalEntry: by the entry object, by its stack_trace list and by the
    frame summaries (gc.get_referents: every object the C-level traversal of these objects reaches in one step)."""
    found = []
    objs = [e]
    for holder in (e, e.stack_trace, *e.stack_trace):
        for r in gc.get_referents(holder):
            if isinstance(r, ir_types):
                found.append(type(r).__name__)
            elif isinstance(r, dict):  # an instance __dict__
                objs.append(r)
                found.extend(type(x).__name__ for x in r.values() if isinstance(x, ir_types))
    return found


def check_entry_shape(ctx) -> None:
    """The dataclass as it really is vs the model's EntryFull: field names in order, frozen, and the runtime types of
    the fields of real entries (one journal over the coverage history) vs the types the model's constructors have."""
    import dataclasses

    R = Real.get()
    E = R.J.JournalEntry
    names = [f.name for f in dataclasses.fields(E)]
    ans = lean_batch([{"m": "journal.details", "k": k, "env": {"className": "X", "args": []}} for k in (0, 1)])
    model_names = [f[0] for f in ans[0]["fields"]]
    model_types: dict = {}
    for a in ans:
        for n, t in a["fields"]:
            model_types.setdefault(n, set()).add(t)
        if a["strong"] or not a["core_ok"]:
            ctx.disagree("model entry: strong reference / core projection", "entry-shape", a, None)
    model_types["ref"].add("NoneType")  # recordFull with obj = none (Journal.record(None, ...))
    ctx.case(["entry-shape"], stream="entry-shape", sample={"fields": names})
    if names != model_names:
        ctx.disagree("JournalEntry fields: model != dataclass", "entry-shape", model_names, names)
    if not E.__dataclass_params__.frozen:
        ctx.disagree("JournalEntry is no longer frozen", "entry-shape", True, False)
    if {k: sorted(v) for k, v in model_types.items()} != {k: sorted(v) for k, v in ENTRY_FIELD_TYPES.items()}:
        ctx.disagree("entry field types: model constructors != harness table", "entry-shape", {k: sorted(v) for k, v in model_types.items()}, None)
    case = coverage_case()
    jr = Runner(R, case, journaled=True)
    jr.run()
    if R.pristine_problems():
        R.repair()
    seen: dict = {n: set() for n in names}
    for j in jr.journals:
        for e in j.entries:
            for n in names:
                x = getattr(e, n)
                seen[n].add("type" if isinstance(x, type) else type(x).__name__)  # (a class may have a metaclass)
            if any(type(f).__name__ != "FrameSummary" or f.locals is not None for f in e.stack_trace):
                ctx.fail("entry-shape/stack-trace-keeps-locals", "a stack_trace element is not a FrameSummary without locals", {})
            strong = entry_strong_refs(e, R.ir_types)
            if strong:
                ctx.fail(f"entry-shape/strong-ref:{e.operation}", "an entry references an IR instance strongly", {"op": e.operation, "types": strong[:5]})
            if hasattr(e, "__dict__") and set(vars(e)) != set(names):
                ctx.fail("entry-shape/extra-attribute", "an entry carries attributes beyond the dataclass fields", {"attrs": sorted(vars(e))})
    null = R.J.Journal()
    null.record(None, "probe")  # the `obj is None` branch of record
    for n in names:
        seen[n].add(type(getattr(null.entries[0], n)).__name__)
    for n in names:
        if not seen[n] <= ENTRY_FIELD_TYPES.get(n, set()):
            ctx.disagree(f"entry field {n}: runtime types of real entries are not the model's", "entry-shape",
                         sorted(ENTRY_FIELD_TYPES.get(n, set())), sorted(seen[n]))
    ctx.extra["entry_field_types_observed"] = {n: sorted(v) for n, v in seen.items()}


class _Faulty(dict):
    """journal._original_methods whose n-th lookup raises: a restore step that fails half-way."""

    def __init__(self, d, n):
        super().__init__(d)
        self.n, self.c = n, 0

    def __getitem__(self, k):
        self.c += 1
        if self.c - 1 == self.n:
            raise RuntimeError(f"injected: restore step {self.n} fails")
        return super().__getitem__(k)


def _ctl_state(R: Real, journals: list, refused: bool = False) -> dict:
    cur = R.J.get_current_journal()
    return {
        "table": R.decode_table(R.table(), journals),
        "current": next((i for i, x in enumerate(journals) if x is cur), None),
        "refused": refused,
        "active": [bool(getattr(jj, "_active", False)) for jj in journals],
        "previous": [next((i for i, x in enumerate(journals) if x is jj._previous_journal), None) for jj in journals],
        "captured": [R.decode_table([jj._original_methods[k] for k in R.KEYS], journals) if jj._original_methods else None for jj in journals],
    }


def exit_fault_stream(ctx) -> None:
    """`__exit__` whose restore step n raises (fault injected through the journal's table of originals): the model's
    `exitFail` must predict the class table / current journal / flags after the failed exit and after a second,
    successful `__exit__`.  The situation is outside the property (observation D470, see proposed_fixes/D470.md): it
    is counted in the input distribution, never reported as a failure."""
    R = Real.get()
    nslots = len(R.KEYS)
    for depth in (1, 2):
        for n in sorted({0, 1, 2, 11, 12, 20, 33, nslots - 1}):
            journals = [R.J.Journal() for _ in range(depth)]
            evs, real = [], []
            for i, j in enumerate(journals):
                j.__enter__()
                evs.append({"j": i, "enter": True})
                real.append(_ctl_state(R, journals))
            inner = journals[-1]
            good = inner._original_methods
            inner._original_methods = _Faulty(good, n)
            raised = False
            try:
                inner.__exit__(None, None, None)
            except RuntimeError:
                raised = True
            inner._original_methods = good
            evs.append({"j": depth - 1, "enter": False, "fail": n})
            st = _ctl_state(R, journals)
            real.append(st)
            wrapped = [R.KEYS[k] for k, x in enumerate(st["table"]) if (depth - 1) in x["layers"]]
            # retry
            inner.__exit__(None, None, None)
            evs.append({"j": depth - 1, "enter": False})
            real.append(_ctl_state(R, journals))
            after_retry = [R.KEYS[k] for k, x in enumerate(real[-1]["table"]) if (depth - 1) in x["layers"]]
            for i in reversed(range(depth - 1)):
                journals[i].__exit__(None, None, None)
                evs.append({"j": i, "enter": False})
                real.append(_ctl_state(R, journals))
            left = R.pristine_problems()
            R.repair()
            ans = lean_batch([{"m": "journal.ctl", "nj": depth, "evs": evs}])[0]
            ctx.case(["exit-fault", depth, n], stream="exit-fault", fault_at=min(n, 40) // 10 * 10, depth=depth)
            if ans.get("r") != real:
                k = next((i for i, (a, b) in enumerate(zip(ans.get("r", []), real)) if a != b), -1)
                ctx.disagree("exit fault: class table / current / active after a restore step raised: model != implementation",
                             {"evs": evs, "step": k}, (ans.get("r") or [None])[k] if k >= 0 else ans, real[k] if k >= 0 else None)
            if not raised:
                ctx.disagree("exit fault: the injected failure did not propagate out of __exit__", {"evs": evs}, True, False)
            # Outside the property (its quantifier: exits taken normally or by an exception raised INSIDE the block; the
            # fault here is injected through a private attribute): recorded as observation D470, never a failure.  What is
            # CHECKED is that the model's exitFail predicts the real state after the failed and after the repeated exit.
            ctx.count(f"observation=D470:restore-step-raises:classes-left-wrapped={bool(wrapped)}")
            ctx.count(f"observation=D470:journal-stays-active-and-current={bool(st['active'][depth - 1] and st['current'] == depth - 1)}")
            ctx.count(f"observation=D470:second-exit-completes-the-restore={not (after_retry or left)}")


def generator_stream(ctx) -> None:
    """A journal used as a context manager inside a generator: closed explicitly, dropped and collected, and closed
    while an outer-looking `with` entered later is still open (exit order != reverse entry order)."""
    R = Real.get()
    ir = R.ir

    def gen(j):
        with j:
            yield
            ir.Value(name="in-generator")
            yield

    results = []
    for how in ("close", "close-after-resume", "gc", "throw"):
        j = R.J.Journal()
        g = gen(j)
        next(g)
        ir.Value(name="x")
        if how == "close":
            g.close()
        elif how == "close-after-resume":
            next(g)
            g.close()
        elif how == "throw":
            try:
                g.throw(UserBoom("thrown into the generator"))
            except UserBoom:
                pass
            except StopIteration:  # the `with journal:` inside the generator swallowed the exception
                ctx.fail("generator:throw/exception-swallowed", "an exception thrown into a generator holding a journal open was swallowed by Journal.__exit__", {"how": how})
        else:
            del g
            gc.collect()
        n_after = len(j.entries)
        ir.Value(name="after")
        left = R.pristine_problems()
        expect = 2 if how == "close-after-resume" else 1
        results.append(how)
        ctx.case(["generator", how], stream="generator", sample={"stream": "generator", "how": how, "entries": n_after})
        if left or j._active:
            R.repair()
            ctx.fail(f"generator:{how}/restore", "classes not restored after the generator holding the journal was finished",
                     {"how": how, "left": left[:6], "active": j._active})
        if n_after != expect or len(j.entries) != n_after:
            ctx.fail(f"generator:{how}/entries", "entries of a journal held by a generator", {"how": how, "entries": [e.operation for e in j.entries]})
    # exit order != reverse entry order: journal 0 is held by a generator, journal 1 entered later and left last
    j0, j1 = R.J.Journal(), R.J.Journal()
    journals = [j0, j1]
    real, evs = [], []
    g = gen(j0)
    next(g)
    evs.append({"j": 0, "enter": True}); real.append(_ctl_state(R, journals))
    j1.__enter__()
    evs.append({"j": 1, "enter": True}); real.append(_ctl_state(R, journals))
    g.close()
    evs.append({"j": 0, "enter": False}); real.append(_ctl_state(R, journals))
    j1.__exit__(None, None, None)
    evs.append({"j": 1, "enter": False}); real.append(_ctl_state(R, journals))
    left = R.pristine_problems()
    R.repair()
    ans = lean_batch([{"m": "journal.ctl", "nj": 2, "evs": evs}])[0]
    ctx.case(["generator", "interleaved"], stream="generator", sample={"stream": "generator", "how": "interleaved", "not_restored": len(left)})
    ctx.count(f"generator:interleaved-exit-order:classes-left-wrapped={bool(left)}")
    if ans.get("r") != real:
        k = next((i for i, (a, b) in enumerate(zip(ans.get("r", []), real)) if a != b), -1)
        ctx.disagree("generator closed out of order: model != implementation", {"evs": evs, "step": k},
                     (ans.get("r") or [None])[k] if k >= 0 else ans, real[k] if k >= 0 else None)


# ---- kernel histories: the model's instantiated call trees vs the observed ones

K_UNORDERED = (23, 26)  # Graph.remove / Graph.sort iterate a (frozen)set: their sub-calls are compared as multisets
K_STRIP = ("badAttr",)  # a non-Attr attribute argument: type-incorrect, the (typed) kernel op cannot carry it
K_ATTR_SLOT = 32
K_NOT_INSTANTIATED_SLOT = 999  # Model/JournalKernel.lean `notInstantiated`
# the kernel ops (as the driver takes them) whose call trees Model/JournalKernel.lean instantiates.  An op outside this
# set (the C01 alphabet grew) is reported as a broken correspondence that names it, once per op name.
K_INSTANTIATED = {
    "newValue", "setConst", "newNode", "newGraph", "replaceInput", "resizeInputs", "resizeOutputs", "rauw", "io", "init",
    "setName", "append", "extend", "insertAfter", "insertBefore", "remove", "sort", "sortOk", "sortCycle", "attrEdit",
    "attrSet", "attrDel", "attrClear", "setNodeName", "setOpType", "clearConst", "tapeInitializer", "builderNode",
    "rauwMany", "renameValues", "replaceNodesAndValues",
}


class RetTracer:
    """What every OUTERMOST public call hands back to its caller (round 5).  sys.monitoring on the code objects of every
    member of kernel_ops.API_TABLE that is mapped to a kernel operation (functions, property setters, constructors, the
    convenience functions) and on the four journaling wrapper functions: the outermost such frame of a call made by
    user code is what the user calls, its return value (or exception) is what the user gets - whether the member is
    itself instrumented (`graph.inputs.pop()`: the wrapper's frame is the outermost one) or not
    (`graph.initializers.pop(key)`, `attributes.setdefault`, `tape.op`: calls that only REACH instrumented code)."""

    _inst = None

    def __init__(self, R: Real):
        from harness import kernel_ops as K
        import inspect

        import onnx_ir.convenience as conv
        from onnx_ir import _tape

        self.R = R
        mon = sys.monitoring
        free = [i for i in (3, 5, 2, 1, 0, 4) if mon.get_tool(i) is None]
        if not free:
            raise Infra("no free sys.monitoring tool id (RetTracer)")
        self.TOOL = free[0]
        mon.use_tool_id(self.TOOL, "irverif-c20-ret")
        ir = R.ir
        classes = {
            "Graph": ir.Graph, "Function": ir.Function, "GraphView": ir.GraphView, "Node": ir.Node, "Value": ir.Value,
            "GraphInputs": R.gc_.GraphInputs, "GraphOutputs": R.gc_.GraphOutputs, "GraphInitializers": R.gc_.GraphInitializers,
            "Attributes": R.gc_.Attributes, "Tape": _tape.Tape, "Builder": _tape.Builder,
        }
        self.codes: dict = {}
        self.members: dict = {}  # API_TABLE key -> resolved to a code object?
        for key, (kind, _detail, _settable) in K.API_TABLE.items():
            if kind != "model":
                continue
            cname, member = key.split(".", 1)
            fn = None
            if cname == "convenience":
                fn = getattr(conv, member, None)
            elif cname in classes:
                try:
                    a = inspect.getattr_static(classes[cname], member)
                except AttributeError:
                    a = None
                if isinstance(a, property):
                    fn = a.fset
                elif isinstance(a, (classmethod, staticmethod)):
                    fn = a.__func__
                else:
                    fn = a
            code = getattr(getattr(fn, "__wrapped__", fn), "__code__", None)
            self.members[key] = code is not None
            if code is not None:
                self.codes.setdefault(code, code.co_qualname)
        # the 43 instrumented originals too (some are not in the alphabet table: TensorBase / Attr / Function constructors):
        # inside a journal their wrapper frame is seen, so the un-journaled run must see the original's frame
        for code in R.code2slot:
            self.codes.setdefault(code, code.co_qualname)
        self.wrappers = set(R.wrapper_codes)
        E = mon.events
        mon.register_callback(self.TOOL, E.PY_START, self._start)
        mon.register_callback(self.TOOL, E.PY_RETURN, self._ret)
        mon.register_callback(self.TOOL, E.PY_UNWIND, self._unwind)
        for code in list(self.codes) + list(self.wrappers):
            mon.set_local_events(self.TOOL, code, E.PY_START | E.PY_RETURN)
        self.active = False
        self.stack: list = []
        self.out: list = []

    @classmethod
    def get(cls, R: Real) -> "RetTracer":
        if cls._inst is None:
            cls._inst = RetTracer(R)
        return cls._inst

    def begin(self) -> None:
        self.stack, self.out, self.active = [], [], True
        sys.monitoring.set_events(self.TOOL, sys.monitoring.events.PY_UNWIND)

    def end(self) -> list:
        self.active = False
        sys.monitoring.set_events(self.TOOL, 0)
        out, self.out, self.stack = self.out, [], []
        return out

    def _start(self, code, _off):
        if not self.active:
            return
        if code in self.wrappers:
            loc = sys._getframe(1).f_locals
            fn = loc.get("original_method") or loc.get("original_setter") or loc.get("original_init")
            while fn is not None and getattr(fn, "__code__", None) in self.wrappers and hasattr(fn, "__wrapped__"):
                fn = fn.__wrapped__
            key = getattr(getattr(fn, "__code__", None), "co_qualname", "?")
        else:
            key = self.codes[code]
        self.stack.append(key)

    def _ret(self, code, _off, rv):
        if not self.active or not self.stack:
            return
        key = self.stack.pop()
        if not self.stack:
            self.out.append((key, "ret", rv))

    def _unwind(self, code, _off, exc):
        if not self.active or not self.stack or (code not in self.codes and code not in self.wrappers):
            return
        key = self.stack.pop()
        if not self.stack:
            self.out.append((key, "raise", type(exc).__name__))


def _k_canon_ret(real, R: Real, v, depth: int = 0):
    """a returned Python value, canonical: None / bool / int / str as they are, IR objects by kernel identity, sequences
    elementwise, anything else by its type name"""
    if v is None or isinstance(v, (bool, int, str)):
        return v
    if isinstance(v, R.ir_types) or isinstance(v, (R.core.Graph, R.core.Function)):
        return {"ref": _k_enc(real, v, R)}
    if isinstance(v, (list, tuple)) and depth < 3:
        return [_k_canon_ret(real, R, x, depth + 1) for x in v]
    return "<" + type(v).__name__ + ">"


def _kreal_class():
    from harness import kernel_ops as K

    class KReal(K.Real):
        """kernel_ops.Real + what C20's instantiation needs beyond the kernel op: the value a direct call returns
        (`_GraphIO.pop`), and the numbering of the `Attr` objects built for the calls."""

        def __init__(self):
            super().__init__(model_sort=True)
            self.last_ret = None
            self.attr_ids: dict[int, int] = {}
            self.attr_objs: list = []

        def apply(self, op: dict):
            o, kind, mop = super().apply(op)
            if o == "raised" and op["op"] == "newNode" and mop.get("op") == "newNode" and "attrs" not in mop:
                # the attribute dict is built before the node is rejected (its `__setitem__` calls are observed):
                # the model needs the attributes of a rejected node too (kernel_ops only adds them on success)
                attrs = [[f"body{j}", [gi]] for j, gi in enumerate(op.get("attrGraphs", []))]
                if op.get("attrGraphsList"):
                    attrs.append(["branches", list(op["attrGraphsList"])])
                if op.get("attrPlain"):
                    attrs.append(["alpha", []])
                if attrs:
                    mop = {**mop, "attrs": attrs}
            return o, kind, mop

        def _apply(self, op: dict):
            self.last_ret = None
            if op["op"] == "io" and op["m"] == "pop":
                self.last_ret = self._io(op).pop(op["i"])
                return None
            return super()._apply(op)

    return KReal


def _k_enc(real, o, R: Real):
    """kernel identity of a real object as the model packs it (KObj.enc)"""
    c = R.core
    i = id(o)
    if i in real.vid:
        return 16 * real.vid[i]
    if i in real.nid:
        return 16 * real.nid[i] + 1
    if i in real.gid:
        return 16 * real.gid[i] + 2
    if i in real.tid:
        return 16 * real.tid[i] + 7
    if i in real.attr_ids:
        return 16 * real.attr_ids[i] + 8
    for gi, f in real.funcs.items():
        if o is f:
            return 16 * gi + 9
    for gi, g in enumerate(real.graphs):
        if o is g._inputs:
            return 16 * gi + 3
        if o is g._outputs:
            return 16 * gi + 4
        if o is g._initializers:
            return 16 * gi + 5
    for ni, n in enumerate(real.nodes):
        if o is n._attributes:
            return 16 * ni + 6
    # an object whose constructor was rejected / is running: it would have received the next index
    if isinstance(o, c.Node):
        return 16 * len(real.nodes) + 1
    if isinstance(o, c.Graph):
        return 16 * len(real.graphs) + 2
    if isinstance(o, c.Value):
        return 16 * len(real.vals)
    if isinstance(o, c.TensorBase):
        return 16 * len(real.tensors) + 7
    if isinstance(o, R.gc_.Attributes) and isinstance(getattr(o, "_owner", None), c.Node):
        return 16 * len(real.nodes) + 6  # the attribute dict of a node that is being built / was rejected
    return -1


def _k_ret(out: dict, enc: dict):
    """what an original returned, as the model prints it: None, an int, {"ref": kernel identity}"""
    if "ret" not in out:
        return None
    v = out["ret"]
    if isinstance(v, dict):
        return {"ref": enc.get(v["ref"], -1)}
    return v


def _k_tree(t: dict, enc: dict) -> list:
    kids = [_k_tree(x, enc) for x in t["steps"]]
    if t["k"] in K_UNORDERED:
        kids = sorted(kids, key=json.dumps)
    return [t["k"], enc.get(t["self"], -1), "ret" in t["out"], kids, _k_ret(t["out"], enc)]


def _k_model_tree(t: list) -> list:
    kids = [_k_model_tree(x) for x in t[3]]
    if t[0] in K_UNORDERED:
        kids = sorted(kids, key=json.dumps)
    return [t[0], t[1], t[2], kids, t[4]]


def _k_spelling(real, op: dict) -> dict:
    """The part of the spelling that decides which instrumented functions run and that the kernel op does not carry
    (evaluated BEFORE the call): through `Node.append` / `Node.prepend`; `|=` on the attribute dict."""
    sp = {}
    if op["op"] in ("insertAfter", "insertBefore") and op.get("via") == "node" and real.nodes[op["a"]].graph is real.graphs[op["g"]]:
        sp["viaNode"] = True
    if op["op"] == "attrEdit" and op.get("spell") == "ior" and (op.get("graphs") is not None or op.get("graph") is not None or op.get("plain")):
        sp["noSetItem"] = True
    return sp


def _k_run(R: Real, ops: list, journals_at, nest: int):
    """Runs a kernel history on fresh real objects; from position `journals_at` on inside `nest` nested journals.
    Returns per-call observed trees (canonical), outcomes, mops (with the spelling annotation `c20`), returned values,
    snapshot, the journals' entries as (operation, kernel identity)."""
    import contextlib

    real = _kreal_class()()
    reg = Registry()
    tr = Tracer.get(R)
    journals = [R.J.Journal() for _ in range(nest)]
    trees, outcomes, mops, rets = [], [], [], []
    pub: list = []  # per call: what every outermost public call handed back (RetTracer)
    rt = RetTracer.get(R)
    entries: list = [[] for _ in range(nest)]
    enc_of: dict = {}

    def refresh():
        for idx, o in enumerate(reg.objs):
            enc_of[idx] = _k_enc(real, o, R)

    def one(op):
        sp = _k_spelling(real, op)
        funcs_before = set(real.funcs)
        tr.begin(reg)
        rt.begin()
        try:
            o, kind, mop = real.apply(op)
        finally:
            evs = tr.events
            tr.end()
            raw_pub = rt.end()
        new_attrs = []
        for e in evs:  # the Attr objects built for this call, in creation order
            if e[0] == "start" and e[1] == K_ATTR_SLOT:
                a = reg.objs[e[2]]
                if id(a) not in real.attr_ids:
                    real.attr_ids[id(a)] = len(real.attr_objs)
                    real.attr_objs.append(a)
                    new_attrs.append(real.attr_ids[id(a)])
        if new_attrs:
            sp["attrs"] = new_attrs
        new_funcs = sorted(set(real.funcs) - funcs_before)
        if new_funcs:
            sp["fn"] = new_funcs[0]
        refresh()
        # entries written during this call, with the identity the objects have NOW (an object whose constructor was
        # rejected never gets an index of its own: it is named by the index it would have received)
        for ji, j in enumerate(journals):
            for e in j.entries[len(entries[ji]):]:
                obj = e.ref() if e.ref is not None else None
                entries[ji].append([e.operation, enc_of.get(reg.ids.get(id(obj), -1), -1)])
        f = forest([e for e in evs if e[0] in ("start", "finish")])
        trees.append([_k_tree(t, enc_of) for t in f])
        outcomes.append(o)
        mops.append({**mop, "c20": sp} if sp else mop)
        r = real.last_ret
        rets.append(None if r is None or o != "ok" else {"ref": _k_enc(real, r, R)})
        pub.append([[key, kind_, _k_canon_ret(real, R, v) if kind_ == "ret" else v] for key, kind_, v in raw_pub])
        del raw_pub

    with contextlib.ExitStack() as st:
        for i, op in enumerate(ops):
            if i == journals_at:
                for j in journals:
                    st.enter_context(j)
            one(op)
        if journals_at >= len(ops):
            for j in journals:
                st.enter_context(j)
    return trees, outcomes, mops, real.snapshot(), entries, rets, pub


def kernel_cases(rng, n: int, maxlen: int) -> list:
    """C01-alphabet histories of the EXTENDED alphabet generated against the real state (kernel_ops.Gen), spellings
    included (through a Function / Node.append / a Tape, graph attributes, every dict spelling of an attribute edit)."""
    from harness import kernel_ops as K

    cases = []
    for _ in range(n):
        real = K.Real()
        gen = K.Gen(rng, real, 0.25, extended=True)
        ops = []
        for _i in range(rng.choice([4, 8, 12, maxlen])):
            op = gen.op()
            if op["op"] == "newValueProd":
                continue  # Value(producer, index=...): not a kernel op of the driver
            op = {k: v for k, v in op.items() if k not in K_STRIP}
            if op["op"] == "newNode" and any(real.vals[i].is_initializer() for i in (op.get("outputs") or [])):
                continue  # C01's known finding D12b: the code accepts an initializer as a node output, the kernel model rejects it
            o, _kind, _mop = real.apply(op)
            gen.after(op, o)
            ops.append(op)
        cases.append({"ops": ops, "from": rng.randint(0, len(ops)), "nest": rng.randint(0, 3)})
    return cases


def kernel_stream(ctx, cases: list, stream: str = "kernel") -> None:
    """For every history: (1) the call tree of each call observed on the real code WITHOUT a journal vs the model's
    `callTreeX` computed from the kernel state and the spelling (incl. what every instrumented call returns);
    (2) the same history with journals: outcomes / returned values / kernel snapshot equal to the un-journaled run
    (oracle), entries of every journal vs the model's journaled run of the instantiated configuration `kCfg`;
    (3) the model's own run agrees with C20_transparent_kernel_spelled (world, log, calls)."""
    R = Real.get()
    reqs, reals = [], []
    p_mops_of: dict = {}
    reported: set = set()  # op names already reported as not instantiated (once per call of this function)
    for case in cases:
        ops = case["ops"]
        if R.pristine_problems():
            R.repair()
        p_trees, p_out, p_mops, p_snap, _e, p_rets, p_pub = _k_run(R, ops, len(ops) + 1, 0)
        j_trees, j_out, j_mops, j_snap, j_entries, j_rets, j_pub = _k_run(R, ops, case["from"], case["nest"])
        left = R.pristine_problems()
        if left:
            R.repair()
        reqs.append({"m": "journal.kernel", "fuel": 8, "nj": 3, "guarded": guarded_code(), "ops": p_mops, "from": case["from"], "nest": list(range(case["nest"]))})
        p_mops_of[id(case)] = p_mops
        reals.append((p_trees, p_out, j_trees, j_out, p_snap == j_snap, j_entries, left, p_mops == j_mops, p_rets, j_rets, p_pub, j_pub))
    answers = lean_batch(reqs)
    for case, (p_trees, p_out, j_trees, j_out, same_snap, j_entries, left, same_mops, p_rets, j_rets, p_pub, j_pub), ans in zip(cases, reals, answers):
        ops = case["ops"]
        # every outermost public call of the history (kernel_ops.API_TABLE members): what it handed back to the caller
        for i, calls in enumerate(j_pub):
            if i >= case["from"] and case["nest"] > 0:
                for key, kind_, v in calls:
                    ctx.count(f"public-call-inside-journal={key}")
                    if kind_ == "ret" and v is not None:
                        ctx.count(f"public-call-returns-a-value-inside-journal={key}")
        ctx.case(["kernel", case], nontrivial=len(ops) > 0, stream=stream, sample=case if len(ops) <= 4 else None,
                 kernel_len=min(len(ops) // 4 * 4, 32), nest=case["nest"])
        for op, o in zip(ops, p_out):
            label = op["op"] + ("." + op["m"] if op["op"] in ("io", "init") else "")
            ctx.count(f"kernel-op={label}:{o}")
            if op.get("via"):
                ctx.count(f"kernel-spelling=via-{op['via']}")
            if op["op"] == "attrEdit":
                ctx.count(f"kernel-spelling=attr-{op.get('spell') or ('clear' if op.get('clear') else 'setitem')}")
        sig = f"{stream}"
        unknown = sorted({m["op"] for m in p_mops_of[id(case)] if m["op"] not in K_INSTANTIATED})
        if unknown:
            for name in unknown:
                if name in reported:
                    continue
                reported.add(name)
                ctx.disagree(f"kernel alphabet grew: operation '{name}' is not instantiated in C20's call trees "
                             "(lean/IrVerif/Model/JournalKernel.lean opTrees / convTrees; harness/c20.py K_INSTANTIATED)",
                             f"kernel-op:{name}", None, name)
            continue
        # oracle: transparent on the kernel alphabet
        if p_out != j_out or not same_snap or not same_mops:
            ctx.fail(f"{sig}/transparent", "a C01-alphabet history gives other outcomes / another IR inside journals", {"case": case, "plain": p_out, "journaled": j_out})
            continue
        if p_rets != j_rets:
            ctx.fail(f"{sig}/transparent-result", "a call returns another value inside journals", {"case": case, "plain": p_rets, "journaled": j_rets})
            continue
        if p_pub != j_pub:
            i = next((i for i, (a, b) in enumerate(zip(p_pub, j_pub)) if a != b), 0)
            key = next((a[0] for a, b in zip(p_pub[i], j_pub[i]) if a != b), p_pub[i][0][0] if p_pub[i] else "?")
            ctx.fail(f"{sig}/transparent-public-result:{key}", "a public call (instrumented or not) hands another value / exception back to its caller inside journals",
                     {"case": case, "call": i, "plain": p_pub[i], "journaled": j_pub[i]})
            continue
        if p_trees != j_trees:
            ctx.fail(f"{sig}/transparent-calls", "the original functions executed (or what they return) differ inside journals", {"case": case})
            continue
        if left:
            ctx.fail(f"{sig}/restore-final", "classes not as before after the history", {"case": case, "left": left[:6]})
        if "err" in ans:
            ctx.disagree("model driver error (kernel history): " + str(ans["err"])[:200], f"driver-error:{str(ans['err'])[:80]}", ans, None)
            continue
        m_trees = [[_k_model_tree(t) for t in ts] for ts in ans["trees"]]
        for i, ts in enumerate(m_trees):
            if any(t[0] == K_NOT_INSTANTIATED_SLOT for t in ts) and p_mops_of[id(case)][i]["op"] not in reported:
                name = p_mops_of[id(case)][i]["op"]
                reported.add(name)
                ctx.disagree(f"kernel alphabet grew: operation '{name}' is mapped to `notInstantiated` in Model/JournalKernel.lean",
                             f"kernel-op:{name}", None, name)
        for i, (a, b) in enumerate(zip(m_trees, p_trees)):
            if a != b:
                op = ops[i]
                label = op["op"] + ("." + op["m"] if op["op"] in ("io", "init") else "")
                ctx.disagree(f"kernel call tree of {label}: model's instantiated tree != instrumented calls observed on the real code",
                             {"ops": ops[: i + 1], "stream": stream}, a, b)
                break
        m_log = ["ok" if "ret" in o else "raised" for o in ans["log"]]
        if m_log != j_out:
            ctx.disagree("kernel history inside journals: outcomes: model != implementation", {"case": case}, m_log, j_out)
        m_rets = [o.get("ret") if "ret" in o else None for o in ans["log"]]
        if m_rets != j_rets:
            ctx.disagree("kernel history inside journals: values returned by the public calls: model != implementation", {"case": case}, m_rets, j_rets)
        for r in j_rets:
            if r is not None:
                ctx.count("kernel-call-returns-a-value")
        m_entries = [[[e[1], e[2].get("weak", -9)] for e in es] for es in ans["entries"]][: case["nest"]]
        r_entries = j_entries
        unordered_ops = any(op["op"] in ("remove", "sort", "replaceNodesAndValues") for op in ops)
        if unordered_ops:
            key = json.dumps
            m_entries, r_entries = [sorted(es, key=key) for es in m_entries], [sorted(es, key=key) for es in r_entries]
        if m_entries != r_entries:
            k = next((i for i, (a, b) in enumerate(zip(m_entries, r_entries)) if a != b), 0)
            ctx.disagree("kernel history inside journals: entries: model != implementation", {"case": case, "journal": k},
                         str(m_entries[k])[:1200] if m_entries else None, str(r_entries[k])[:1200] if r_entries else None)
        if not (ans["world_eq"] and ans["log_eq"] and ans["calls_eq"]) or ans["exc"] is not None:
            ctx.disagree("model: journaled kernel run differs from the kernel semantics (contradicts C20_transparent_kernel_spelled)",
                         {"case": case}, [ans["world_eq"], ans["log_eq"], ans["calls_eq"], ans["exc"]], None)
        if ans["entries"] != ans["expected"]:
            ctx.disagree("model: kernel entries != expectedFor (contradicts C20_transparent_kernel_spelled)", {"case": case}, None, None)
        if any(x["layers"] or x["base"] != k for k, x in enumerate(ans["table"])) or ans["current"] is not None:
            ctx.disagree("model: classes not restored after the kernel history", {"case": case}, None, None)


def _kernel_shard(args):
    seed, n, maxlen = args
    import random

    part = Part()
    R = Real.get()
    load_slot_table(R)
    rng = random.Random(f"C20-kernel:{seed}")
    kernel_stream(part, kernel_cases(rng, n, maxlen))
    return part


def process_cases(ctx, cases: list, stream: str, chunk: int = 40) -> None:
    # in chunks: the journals of a chunk (entries with their stack traces) are dropped before the next
    # one, which keeps memory and the cost of the gc.collect() in gc_check bounded
    for at in range(0, len(cases), chunk):
        pend = []
        for case in cases[at : at + chunk]:
            pend.append((case, run_case(ctx, case, stream)))
        answers = lean_batch([p[1][0] for p in pend])
        for (case, (req, impl, journals, wrs, n_entries, sig)), ans in zip(pend, answers):
            check_model(ctx, case, req, impl, ans, sig)
        for case, (req, impl, journals, wrs, n_entries, sig) in pend:
            gc_check(ctx, case, journals, wrs, n_entries, sig)
        del pend, answers


def _shard(args):
    seed, n_cases, reentry_cases = args
    import random

    part = Part()
    R = Real.get()
    load_slot_table(R)
    rng = random.Random(f"C20:{seed}")
    cases = []
    for _ in range(n_cases):
        cases.append(Gen(R, rng).case(rng.randint(1, 4)))
    process_cases(part, cases, "random")
    cases = []
    for _ in range(reentry_cases):
        c = Gen(R, rng, reentry=True).case(rng.randint(1, 3))
        cases.append(c)
    process_cases(part, cases, "random-reentry")
    # random flat enter/exit sequences, longer than the exhaustive scope
    seqs = []
    for _ in range(max(4, n_cases // 8)):
        seqs.append([{"j": rng.randrange(3), "enter": rng.random() < 0.55} for _ in range(rng.randint(5, 9))])
    ctl_stream(part, seqs, 3, "ctl-random")
    # properly nested ones (depth <= 3, journals reused in sequence)
    seqs = []
    for _ in range(max(4, n_cases // 8)):
        st, evs = [], []
        for _ in range(rng.randint(2, 12)):
            free = [j for j in range(3) if j not in st]
            if st and (not free or rng.random() < 0.5):
                evs.append({"j": st.pop(), "enter": False})
            else:
                j = rng.choice(free)
                st.append(j)
                evs.append({"j": j, "enter": True})
        while st:
            evs.append({"j": st.pop(), "enter": False})
        seqs.append(evs)
    ctl_stream(part, seqs, 3, "ctl-nested")
    return part


def run(ctx: Ctx) -> None:
    ctx.rule = (
        "a case is a block-structured history (public-API operations inside 0-3 nested `with Journal()` "
        "blocks, `try` blocks, thrown exceptions) or a flat __enter__/__exit__ sequence; distinct by the "
        "canonical history; non-trivial when it has at least one operation / event"
    )
    R = Real.get()
    if R.shape_error:
        # The tracer behind every stream and oracle of this check recognises an instrumented call by the code object of
        # the factory closure that wraps it.  With an unrecognised shape of _wrappers.py it would miscount calls and
        # report FALSE failing inputs, so nothing is run: the correspondence is broken (the property is no longer
        # shown), which is what is reported - without a failing input.
        ctx.case(["shape-error"], sample={"shape_error": R.shape_error}, stream="shape-error")
        ctx.disagree("journaling wrappers: " + R.shape_error, "wrapper-factories", "4 factories with one `wrapper` closure each", R.shape_error)
        return
    check_slots(ctx)
    check_slot_table(ctx)
    check_entry_shape(ctx)
    witnesses(ctx)
    # corpus first
    for obj in load_corpus("C20"):
        replay(ctx, obj)
    # exhaustive small scopes
    maxlen = ctx.pick(4, 5)
    ctl_stream(ctx, list(all_ctl_sequences(2, maxlen)), 2, "ctl-exhaustive")
    ctx.exhaustive_scopes.append(f"all __enter__/__exit__ sequences of length <= {maxlen} over 2 journal objects (nested or not)")
    ctl_stream(ctx, list(all_ctl_sequences(3, 3)), 3, "ctl-exhaustive")
    ctx.exhaustive_scopes.append("all __enter__/__exit__ sequences of length <= 3 over 3 journal objects")
    process_cases(ctx, skeleton_cases(), "skeleton")
    cov = coverage_case()
    cov1 = {"nj": 1, "blocks": [{"t": "try", "body": [{"t": "with", "j": 0, "body": cov["blocks"][0]["body"][0]["body"] + [{"t": "op", "op": {"op": "raise"}}]}]}]}
    process_cases(ctx, [cov, cov1], "coverage")
    process_cases(ctx, empty_owner_cases(), "empty-owner")
    process_cases(ctx, reuse_cases(), "journal-reuse")
    details_stream(ctx)
    bound_method_stream(ctx)
    exit_fault_stream(ctx)
    generator_stream(ctx)
    # round 4: flat histories (runFlat) and captured callables
    guarded = not stale_wrapper_records()
    ctx.count(f"probe:stale-wrapper-records-after-exit={not guarded}")
    fl = ctx.pick(4, 5)
    words = flat_exhaustive(fl)
    for p in pmap(_flat_exh_shard, [(words[i::16], guarded) for i in range(16)]):
        ctx.merge(p)
    ctx.exhaustive_scopes.append(f"all flat words of length <= {fl} over {{enter 0, enter 1, exit 0, exit 1 with an exception propagating, an operation}}")
    flat_stream(ctx, flat_captured_cases(), "flat-captured", guarded)
    flat_stream(ctx, flat_family_cases(), "flat-family", guarded)
    ctx.exhaustive_scopes.append("6 capturable callables (instance / class level: method, constructor, property setter, container method) x 5 capture/call placements")
    ctx.exhaustive_scopes.append("nesting depth 0-3 x exception thrown at no level / each level x thrown by user code / by a rejected IR operation")
    # random histories, sharded
    shards = 16
    per = ctx.pick(60, 800)
    parts = pmap(_shard, [(f"{ctx.seed}:{i}", per, max(2, per // 10)) for i in range(shards)])
    for p in parts:
        ctx.merge(p)
    for p in pmap(_flat_shard, [(f"{ctx.seed}:{i}", ctx.pick(12, 150), guarded) for i in range(shards)]):
        ctx.merge(p)
    # C01-alphabet histories: the model's instantiated call trees vs the observed ones, inside 0-3 journals
    kper = ctx.pick(120, 1500)
    for p in pmap(_kernel_shard, [(f"{ctx.seed}:{i}", kper, ctx.pick(20, 30)) for i in range(shards)]):
        ctx.merge(p)
    if R.pristine_problems():
        ctx.fail("final/restore", "classes not pristine at the end of the run", {"left": R.pristine_problems()})
        R.repair()
    # coverage floor: every instrumented operation ran inside a journal at least FLOOR times
    low = {k: ctx.dist.get("slot=" + k, 0) for k in R.KEYS if ctx.dist.get("slot=" + k, 0) < FLOOR}
    ctx.extra["slot_coverage_floor"] = FLOOR
    ctx.extra["property_objects_recreated_by_restore"] = f"{R.property_objects_recreated()} of {len(R.props)} (fget/fset/fdel/doc identical; see assumptions)"
    if low:
        raise Infra(f"coverage floor not met (each of the 43 slots must run >= {FLOOR} times inside a journal): {low}")
    # permanent families (seeded C20-q1 / C20-q2): floors on the generator dimensions
    low_e = {k: ctx.dist.get("empty-owner-op=" + k, 0) for k in EMPTY_OWNER_SLOTS if ctx.dist.get("empty-owner-op=" + k, 0) < FLOOR}
    floors = {"journal-reused-in-another-nesting-context": REUSE_FLOOR, "flat:journal-reused-in-another-nesting-context:well-bracketed": 3,
              "flat:operations-executed-with-a-stale-wrapper-installed": 10}
    low_f = {k: ctx.dist.get(k, 0) for k, n in floors.items() if ctx.dist.get(k, 0) < n}
    ctx.extra["family_floors"] = {"empty-owner-op=<each of the 10 container slots>": FLOOR, **floors}
    # round 5: what every outermost PUBLIC call hands back, inside vs outside journals (kernel stream, RetTracer)
    seen_pub = {k.split("=", 1)[1]: v for k, v in ctx.dist.items() if k.startswith("public-call-inside-journal=")}
    valued = ["_GraphIO.pop", "MutableMapping.pop", "MutableMapping.popitem", "MutableMapping.setdefault", "Tape.op",
              "Tape.op_multi_out", "Tape.initializer", "Builder.__getattr__"]
    low_v = {k: ctx.dist.get("public-call-returns-a-value-inside-journal=" + k, 0) for k in valued
             if ctx.dist.get("public-call-returns-a-value-inside-journal=" + k, 0) < FLOOR}
    rt = RetTracer.get(R)
    ctx.extra["public_calls_compared"] = {
        "distinct_public_callables_called_inside_a_journal": len(seen_pub),
        "alphabet_members_monitored": sorted(k for k, ok in rt.members.items() if ok),
        "alphabet_members_without_a_python_function": sorted(k for k, ok in rt.members.items() if not ok),
        "floor": f"each of {valued} returns a value inside a journal >= {FLOOR} times; >= 45 distinct public callables",
    }
    # (a floor missed on an implementation that already shows failures / disagreements must not turn the verdict into
    # an infrastructure error: a changed /repo can take the families' operations another way)
    clean = not ctx.failures and not ctx.disagreements
    if clean and (low_v or len(seen_pub) < 45):
        raise Infra(f"public-call floor not met: value-returning calls inside a journal {low_v}; distinct public callables {len(seen_pub)} (< 45)")
    if clean and (low_e or low_f):
        raise Infra(f"family floor not met: container operations on a graph / function with zero nodes inside a journal {low_e}; {low_f}")


def replay(ctx: Ctx, obj: dict) -> None:
    R = Real.get()
    if not SLOT_KIND:
        load_slot_table(R)
    case = obj.get("case", obj)
    if isinstance(case, dict) and "case" in case:
        case = case["case"]
    if "evs" in case and case["evs"] and "t" in case["evs"][0]:  # a flat history (round 4)
        flat_stream(ctx, [case], "corpus-flat", not stale_wrapper_records())
    elif "evs" in case:
        ctl_stream(ctx, [case["evs"]], case.get("nj", 3), "corpus-ctl")
    elif "blocks" in case:
        process_cases(ctx, [case], "corpus")
    elif "ops" in case:  # a C01-alphabet history (kernel stream)
        kernel_stream(ctx, [{"ops": case["ops"], "from": case.get("from", 0), "nest": case.get("nest", 2)}], "corpus-kernel")

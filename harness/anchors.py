"""Fingerprints of the functions each property is anchored in (properties.jsonl `anchors.*.where`).

This never decides anything.  It only answers "did the code the model of Cxx transcribes change since
the model was last pinned against it?" so that a check can (a) say so in its evidence and (b) spend a
larger correspondence / failing-input-search budget exactly when a modelled function was edited.

  lock file : harness/anchors.lock.json   {prop: {"<file>::<qualname>": sha1-of-normalised-AST}}
  pin       : tools/pin_anchors.py        (run after every fix: commit in /repo and after model updates)

The line ranges in properties.jsonl are those of the pinned snapshot commit of /repo (BASE); they are
resolved to qualified names there, and the names are then hashed in the tree that is actually imported
(`onnx_ir` as found on sys.path - a scratch worktree when PYTHONPATH points at one).
"""
from __future__ import annotations

import ast
import hashlib
import importlib.util
import json
import os
import re
import subprocess

VERIF = os.path.dirname(os.path.dirname(os.path.abspath(__file__)))
LOCK = os.path.join(VERIF, "harness", "anchors.lock.json")
BASE = "ba80127"  # the snapshot commit properties.jsonl refers to


def src_root() -> str:
    """Directory that contains the imported `onnx_ir` package's `src` parent (…/src/onnx_ir -> …)."""
    spec = importlib.util.find_spec("onnx_ir")
    pkg = os.path.dirname(spec.origin)  # …/src/onnx_ir
    return os.path.dirname(os.path.dirname(pkg))  # repo root


def _strip_doc(node: ast.AST) -> None:
    for n in ast.walk(node):
        body = getattr(n, "body", None)
        if isinstance(body, list) and body and isinstance(body[0], ast.Expr) and isinstance(
            getattr(body[0], "value", None), ast.Constant
        ) and isinstance(body[0].value.value, str):
            n.body = body[1:] or [ast.Pass()]


def _defs(tree: ast.AST):
    """Yield (qualname, node) for every function/class, innermost included."""

    def rec(node, prefix):
        for ch in ast.iter_child_nodes(node):
            if isinstance(ch, (ast.FunctionDef, ast.AsyncFunctionDef, ast.ClassDef)):
                q = f"{prefix}{ch.name}"
                yield q, ch
                yield from rec(ch, q + ".")
            else:
                yield from rec(ch, prefix)

    yield from rec(tree, "")


def hashes_of(source: str) -> dict[str, str]:
    tree = ast.parse(source)
    _strip_doc(tree)
    out = {}
    for q, node in _defs(tree):
        if isinstance(node, ast.ClassDef):
            continue  # classes are covered through their methods; class-level statements via "<module>"
        out[q] = hashlib.sha1(ast.dump(node, include_attributes=False).encode()).hexdigest()[:16]
    return out


def names_at_base(file: str, ranges: list[tuple[int, int]]) -> list[str]:
    """Qualified names of the innermost functions of BASE:file that overlap one of the line ranges."""
    src = subprocess.run(["git", "-C", "/repo", "show", f"{BASE}:{file}"], capture_output=True, text=True).stdout
    if not src:
        return []
    tree = ast.parse(src)
    found = []
    for q, node in _defs(tree):
        if isinstance(node, ast.ClassDef):
            continue
        lo, hi = node.lineno, getattr(node, "end_lineno", node.lineno)
        if any(not (hi < a or lo > b) for a, b in ranges):
            found.append(q)
    # keep innermost only: drop a name that is a strict prefix of another found name
    return [q for q in found if not any(o.startswith(q + ".") for o in found)]


_WHERE = re.compile(r"^(?P<file>[^:]+):(?P<ranges>[\d,\- ]+)$")


def anchored_names(prop_obj: dict) -> dict[str, list[str]]:
    per_file: dict[str, list[tuple[int, int]]] = {}
    anchors = prop_obj.get("anchors", {})
    for key in ("state", "mechanism"):
        for ent in anchors.get(key, []) or []:
            m = _WHERE.match(str(ent.get("where", "")).strip())
            if not m:
                continue
            for part in m.group("ranges").split(","):
                part = part.strip()
                if not part:
                    continue
                a, _, b = part.partition("-")
                per_file.setdefault(m.group("file"), []).append((int(a), int(b or a)))
    return {f: names_at_base(f, r) for f, r in per_file.items()}


def current_fingerprint(prop_obj: dict) -> dict[str, str]:
    root = src_root()
    out = {}
    for file, names in anchored_names(prop_obj).items():
        path = os.path.join(root, file)
        try:
            hs = hashes_of(open(path, encoding="utf-8").read())
        except (OSError, SyntaxError):
            hs = {}
        for q in names:
            out[f"{file}::{q}"] = hs.get(q, "absent")
    return out


def load_prop(prop: str) -> dict:
    with open(os.path.join(VERIF, "properties.jsonl")) as f:
        for line in f:
            o = json.loads(line)
            if o["id"] == prop:
                return o
    return {}


def changed_since_pin(prop: str) -> tuple[int, list[str]]:
    """(number of anchored functions, those whose normalised AST differs from the pinned one)."""
    try:
        with open(LOCK) as f:
            lock = json.load(f).get(prop, {})
    except OSError:
        return 0, []
    cur = current_fingerprint(load_prop(prop))
    changed = sorted(k for k in set(lock) | set(cur) if lock.get(k) != cur.get(k))
    return len(cur), changed

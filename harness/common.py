"""Shared machinery for every property check (see DESIGN.md section 2).

A check run =  proof tier (lake build + axiom audit + forbidden-token grep)
            -> corpus replay -> correspondence (model vs implementation)
            -> property oracle on the real code -> verdict + evidence.

Property modules live in harness/cXX.py and expose

    THEOREMS : list[str]          fully qualified names audited in lean/IrVerif/Audit/CXX.lean
    def run(ctx) -> None          drives ctx.case()/ctx.disagree()/ctx.fail()
    def replay(ctx, obj) -> None  (optional) re-run one recorded case

Nothing here decides a property by itself: the theorems do (kernel-checked), the
correspondence ties the model to /repo's working tree, the oracle finds replays.
"""
from __future__ import annotations

import collections
import fcntl
import hashlib
import json
import os
import random
import re
import subprocess
import sys
import time
import traceback
from typing import Any, Callable, Iterable

VERIF = os.path.dirname(os.path.dirname(os.path.abspath(__file__)))
# IRVERIF_LEAN_DIR: development only (a private copy of lean/ while proofs are being written)
LEAN_DIR = os.environ.get("IRVERIF_LEAN_DIR") or os.path.join(VERIF, "lean")
DRIVER = os.path.join(LEAN_DIR, ".lake", "build", "bin", "irdriver")
# IRVERIF_OUT_DIR: development only (runs against seeded changes must not overwrite the real evidence)
_OUT = os.environ.get("IRVERIF_OUT_DIR") or VERIF
EVIDENCE_DIR = os.path.join(_OUT, "evidence")
REPLAY_DIR = os.path.join(_OUT, "replays")
CORPUS_DIR = os.path.join(VERIF, "corpus")
KNOWN_FILE = os.path.join(VERIF, "known_findings.json")
ALLOWED_AXIOMS = {"propext", "Classical.choice", "Quot.sound"}
FORBIDDEN = re.compile(
    r"\bsorry\b|\badmit\b|^\s*axiom\s|native_decide|bv_decide|implemented_by|\bunsafe\s|maxHeartbeats\s+0\b"
    r"|@\[\s*extern|@\[\s*csimp|^\s*opaque\s|skipKernelTC|set_option\s+debug\.",
    re.M,
)

TRUSTED_BASE = [
    "Lean 4.33 kernel; axioms allowed: propext, Classical.choice, Quot.sound (audited by #print axioms on every run)",
    "hand-written Lean model; tie to /repo is the correspondence check (differential testing; reach = its generators)",
    "Python harness: generators, canonicalisers, property oracle",
]


class Infra(Exception):
    """Infrastructure problem (exit 2, never a violation)."""


# --------------------------------------------------------------------------- lean


_DRIVER_RUN: str | None = None


def _snapshot_driver() -> None:
    """Copy the driver binary (while the build lock is held) so that a concurrent relink by
    another check or developer cannot pull it from under this run."""
    global _DRIVER_RUN
    import atexit
    import shutil

    for stale in os.listdir(os.path.dirname(DRIVER)):
        sp = os.path.join(os.path.dirname(DRIVER), stale)
        if ".run" in stale and time.time() - os.path.getmtime(sp) > 6 * 3600:
            try:
                os.remove(sp)
            except OSError:
                pass
    dst = f"{DRIVER}.run{os.getpid()}"
    shutil.copy2(DRIVER, dst)
    _DRIVER_RUN = dst
    atexit.register(lambda: os.path.exists(dst) and os.remove(dst))


def driver_path() -> str:
    return _DRIVER_RUN or DRIVER


def _strip_lean_comments(src: str) -> str:
    # remove nested /- -/ block comments and -- line comments (string literals are rare in
    # proof files; a forbidden token inside a string literal is still flagged, on purpose)
    out = []
    i, depth, n = 0, 0, len(src)
    while i < n:
        two = src[i : i + 2]
        if two == "/-":
            depth += 1
            i += 2
        elif two == "-/" and depth:
            depth -= 1
            i += 2
        elif depth:
            i += 1
        elif two == "--":
            j = src.find("\n", i)
            i = n if j < 0 else j
        else:
            out.append(src[i])
            i += 1
    return "".join(out)


def lean_sources() -> list[str]:
    res = []
    for root, _dirs, files in os.walk(LEAN_DIR):
        if ".lake" in root.split(os.sep):
            continue
        for f in files:
            if f.endswith(".lean"):
                res.append(os.path.join(root, f))
    return sorted(res)


def forbidden_tokens() -> list[str]:
    hits = []
    for p in lean_sources():
        txt = _strip_lean_comments(open(p, encoding="utf-8").read())
        for m in FORBIDDEN.finditer(txt):
            hits.append(f"{os.path.relpath(p, VERIF)}: {m.group(0).strip()}")
    return hits


def lake_build(timeout: int = 3000, prop: str | None = None) -> tuple[bool, str]:
    """Build under a file lock (checks may run concurrently). With `prop`, only that property's theorems and the
    model driver are built, so that a broken proof file of another property cannot fail this check."""
    os.makedirs(os.path.join(LEAN_DIR, ".lake"), exist_ok=True)
    lock = open(os.path.join(LEAN_DIR, ".lake", "verif.lock"), "w")
    fcntl.flock(lock, fcntl.LOCK_EX)
    try:
        p = subprocess.run(
            ["lake", "build"] + ([f"IrVerif.Props.{prop}", "irdriver"] if prop else []),
            cwd=LEAN_DIR,
            capture_output=True,
            text=True,
            timeout=timeout,
        )
        if p.returncode == 0 and os.path.exists(DRIVER):
            _snapshot_driver()
        return p.returncode == 0, (p.stdout + p.stderr)[-6000:]
    except subprocess.TimeoutExpired as e:  # pragma: no cover
        raise Infra(f"lake build timed out: {e}")
    finally:
        fcntl.flock(lock, fcntl.LOCK_UN)
        lock.close()


_AX_RE = re.compile(r"^'([^']+)' (depends on axioms: \[([^\]]*)\]|does not depend on any axioms)", re.M)


STATEMENTS_LOCK = os.path.join(VERIF, "lean", "statements.lock.json")


def _lean_under_lock(args: list[str], timeout: int) -> subprocess.CompletedProcess:
    """Run a lean command in LEAN_DIR while holding the build lock (a concurrent lake build rewrites .olean files)."""
    lock = open(os.path.join(LEAN_DIR, ".lake", "verif.lock"), "w")
    fcntl.flock(lock, fcntl.LOCK_EX)
    try:
        return subprocess.run(args, cwd=LEAN_DIR, capture_output=True, text=True, timeout=timeout)
    finally:
        fcntl.flock(lock, fcntl.LOCK_UN)
        lock.close()


def audit(prop: str, theorems: list[str], timeout: int = 900) -> dict:
    """Run lean on Audit/<prop>.lean, return {theorem: [axioms]} for those found."""
    path = os.path.join("IrVerif", "Audit", f"{prop}.lean")
    if not os.path.exists(os.path.join(LEAN_DIR, path)):
        return {"ok": False, "found": {}, "log": f"missing {path}"}
    p = _lean_under_lock(["lake", "env", "lean", path], timeout)
    out = p.stdout + p.stderr
    out1 = re.sub(r"\s*\n\s+", " ", out)  # long axiom lists wrap
    found = {}
    for m in _AX_RE.finditer(out1):
        axs = [a.strip() for a in (m.group(3) or "").split(",") if a.strip()]
        found[m.group(1)] = axs
    return {"ok": p.returncode == 0, "found": found, "log": out[-3000:]}


def statement_hashes(prop: str, theorems: list[str], timeout: int = 900) -> dict[str, str]:
    """sha256 of the pretty-printed statement (`#check @thm`) of each theorem: pins WHAT is proved, so that a
    theorem weakened or replaced under the same name is reported as a broken obligation."""
    src = f"import IrVerif.Props.{prop}\nset_option pp.width 1000000\n" + "".join(
        f'#eval IO.println "@@STMT {t}"\n#check @{t}\n' for t in theorems
    )
    os.makedirs(os.path.join(LEAN_DIR, ".lake", "stmt"), exist_ok=True)
    tmp = os.path.join(LEAN_DIR, ".lake", "stmt", f"{prop}-{os.getpid()}.lean")
    with open(tmp, "w") as f:
        f.write(src)
    try:
        p = _lean_under_lock(["lake", "env", "lean", tmp], timeout)
    finally:
        os.path.exists(tmp) and os.remove(tmp)
    res: dict[str, str] = {}
    chunks = (p.stdout + p.stderr).split("@@STMT ")
    for ch in chunks[1:]:
        name, _, rest = ch.partition("\n")
        body = re.sub(r"\s+", " ", rest.strip())
        if body and " : " in body and not re.match(r"^\S*\.lean:\d+:\d+: error", body):
            res[name.strip()] = hashlib.sha256(body.encode()).hexdigest()[:20]
    return res


def load_statement_lock() -> dict:
    try:
        with open(STATEMENTS_LOCK) as f:
            return json.load(f)
    except FileNotFoundError:
        return {}


def leanchecker(modules: list[str], timeout: int = 3000) -> tuple[bool, str]:
    p = subprocess.run(
        ["lake", "env", "leanchecker", *modules], cwd=LEAN_DIR, capture_output=True, text=True, timeout=timeout
    )
    return p.returncode == 0, (p.stdout + p.stderr)[-3000:]


def lean_batch(requests: list[dict], timeout: int = 1800) -> list[dict]:
    """Send JSON requests (one per line) to the compiled model driver; one JSON answer per line."""
    if not requests:
        return []
    if not os.path.exists(driver_path()):
        raise Infra("model driver not built")
    data = "\n".join(json.dumps(r, separators=(",", ":")) for r in requests) + "\n"
    p = subprocess.run([driver_path()], input=data, capture_output=True, text=True, timeout=timeout)
    lines = [l for l in p.stdout.split("\n") if l]
    if p.returncode != 0 or len(lines) != len(requests):
        raise Infra(
            f"driver returned {len(lines)} answers for {len(requests)} requests (rc={p.returncode}): {p.stderr[-500:]}"
        )
    return [json.loads(l) for l in lines]


def lean_batch_parallel(requests: list[dict], shards: int = 16, timeout: int = 1800) -> list[dict]:
    if len(requests) < 4 * shards:
        return lean_batch(requests, timeout)
    from concurrent.futures import ThreadPoolExecutor

    k = (len(requests) + shards - 1) // shards
    parts = [requests[i : i + k] for i in range(0, len(requests), k)]
    with ThreadPoolExecutor(len(parts)) as ex:
        outs = list(ex.map(lambda part: lean_batch(part, timeout), parts))
    return [x for o in outs for x in o]


# --------------------------------------------------------------------------- context


def canon_hash(obj: Any) -> str:
    return hashlib.sha1(json.dumps(obj, sort_keys=True, default=str).encode()).hexdigest()[:16]


class Ctx:
    def __init__(self, prop: str, tier: str, seed: int):
        self.prop, self.tier, self.seed = prop, tier, seed
        self.rng = random.Random(f"{prop}:{seed}")
        self.t0 = time.time()
        self.evaluations = 0
        self.distinct: set[str] = set()
        self.samples: list = []
        self.dist: collections.Counter = collections.Counter()
        self.disagreements: list[dict] = []
        self.failures: list[dict] = []  # oracle failures on the real code
        self.known_hits: list[dict] = []
        self.exhaustive_scopes: list[str] = []
        self.notes: list[str] = []
        self.rule = ""
        self.extra: dict = {}
        self.proof: dict = {}
        self._known = load_known().get("known", [])
        self.escalated = False
        self.anchor_info: dict = {}

    @property
    def quick(self) -> bool:
        return self.tier == "quick"

    def pick(self, quick: int, thorough: int) -> int:
        if self.quick and self.escalated and quick >= 50:  # counts only; small values are depths / sizes, not budgets
            # a function this property's model transcribes was edited since the model was pinned
            # (harness/anchors.py): spend up to 3x the quick budget on correspondence / search
            return max(quick, min(thorough, 3 * quick))
        return quick if self.quick else thorough

    # ---- bookkeeping
    def case(self, canonical: Any, nontrivial: bool = True, sample: Any = None, **hist: Any) -> None:
        """Count one explored case. `canonical` identifies it (hashed); hist keys go to the distribution."""
        self.evaluations += 1
        if nontrivial:
            self.distinct.add(canon_hash(canonical))
        if sample is not None and len(self.samples) < 6:
            self.samples.append(sample)
        elif len(self.samples) < 3:
            self.samples.append(canonical)
        for k, v in hist.items():
            self.dist[f"{k}={v}"] += 1

    def count(self, key: str, n: int = 1) -> None:
        self.dist[key] += n

    def merge(self, part: dict) -> None:
        """Merge a worker's partial result (see Part)."""
        self.evaluations += part["evaluations"]
        self.distinct.update(part["distinct"])
        for s in part["samples"]:
            if len(self.samples) < 6:
                self.samples.append(s)
        self.dist.update(part["dist"])
        for d in part["disagreements"]:
            self.disagree(**d)
        for f in part["failures"]:
            self.fail(**f)

    def disagree(self, what: str, case: Any, model: Any = None, impl: Any = None) -> None:
        """Model and implementation differ on `case` (not yet a violation)."""
        if len(self.disagreements) < 50:
            self.disagreements.append({"what": what, "case": case, "model": model, "impl": impl})
        else:
            self.dist["disagreements_dropped"] += 1

    def fail(self, signature: str, what: str, case: Any) -> None:
        """The property oracle failed on the real code for `case`.

        `signature` names the specific failing call site/input shape; it is what
        known_findings.json entries are matched against (never the property id alone)."""
        for k in self._known:
            if k["property"] == self.prop and re.fullmatch(k["signature"], signature):
                if not any(h["signature"] == signature for h in self.known_hits):
                    self.known_hits.append({"signature": signature, "what": k["what"], "id": k.get("id", "")})
                return
        if len(self.failures) < 50:
            self.failures.append({"signature": signature, "what": what, "case": case})

    def elapsed(self) -> float:
        return time.time() - self.t0


class Part(dict):
    """Picklable partial result produced by worker processes; same API subset as Ctx."""

    def __init__(self):
        super().__init__(evaluations=0, distinct=[], samples=[], dist={}, disagreements=[], failures=[])

    def case(self, canonical, nontrivial=True, sample=None, **hist):
        self["evaluations"] += 1
        if nontrivial:
            self["distinct"].append(canon_hash(canonical))
        if sample is not None and len(self["samples"]) < 2:
            self["samples"].append(sample)
        for k, v in hist.items():
            key = f"{k}={v}"
            self["dist"][key] = self["dist"].get(key, 0) + 1

    def count(self, key, n=1):
        self["dist"][key] = self["dist"].get(key, 0) + n

    def disagree(self, what, case, model=None, impl=None):
        if len(self["disagreements"]) < 10:
            self["disagreements"].append({"what": what, "case": case, "model": model, "impl": impl})

    def fail(self, signature, what, case):
        if len(self["failures"]) < 10:
            self["failures"].append({"signature": signature, "what": what, "case": case})


def pmap(fn: Callable, items: list, procs: int = 16) -> list:
    """Run fn over items in worker processes (fork). fn must be a module-level function."""
    import multiprocessing as mp

    if procs <= 1 or len(items) <= 1:
        return [fn(x) for x in items]
    # ProcessPoolExecutor (not mp.Pool): when a worker is killed (e.g. by the kernel's OOM killer)
    # Pool.map waits for ever, whereas the executor raises BrokenProcessPool -> infrastructure error (exit 2)
    import concurrent.futures as cf
    from concurrent.futures.process import BrokenProcessPool

    ex = cf.ProcessPoolExecutor(min(procs, len(items)), mp_context=mp.get_context("fork"))
    try:
        return list(ex.map(fn, items, chunksize=1))
    except BrokenProcessPool as e:
        raise Infra(f"a worker process died abruptly (killed? out of memory?): {e}") from e
    finally:
        # A worker may be unable to exit by itself: a run against a deadlocking implementation leaves blocked
        # non-daemon threads behind, which interpreter shutdown would join for ever. Kill the workers.
        workers = list(getattr(ex, "_processes", {}).values())
        ex.shutdown(wait=False, cancel_futures=True)
        for w in workers:
            try:
                w.terminate()
            except Exception:
                pass
        for w in workers:
            try:
                w.join(2)
                if w.is_alive():
                    w.kill()
            except Exception:
                pass


def load_known() -> dict:
    try:
        with open(KNOWN_FILE) as f:
            return json.load(f)
    except FileNotFoundError:
        return {"known": [], "fixed": []}


def load_corpus(prop: str) -> list[dict]:
    d = os.path.join(CORPUS_DIR, prop)
    res = []
    if os.path.isdir(d):
        for fn in sorted(os.listdir(d)):
            if fn.endswith(".jsonl"):
                with open(os.path.join(d, fn)) as f:
                    res += [json.loads(l) for l in f if l.strip()]
            elif fn.endswith(".json"):
                with open(os.path.join(d, fn)) as f:
                    res.append(json.load(f))
    return res


def exc_kind(e: BaseException) -> str:
    return type(e).__name__


# --------------------------------------------------------------------------- main driver


def write_replay(prop: str, seed: int, n: int, obj: dict) -> str:
    os.makedirs(REPLAY_DIR, exist_ok=True)
    path = os.path.join(REPLAY_DIR, f"{prop}-{seed}-{n}.json")  # one run per (property, seed) at a time per output dir
    with open(path, "w") as f:
        json.dump(obj, f, indent=1, default=str)
    return os.path.relpath(path, VERIF)


def write_evidence(ctx: Ctx, violations: int, assumptions: list[str]) -> None:
    os.makedirs(EVIDENCE_DIR, exist_ok=True)
    pr = ctx.proof
    cov = {
        "obligations": pr.get("obligations", 0),
        "discharged": pr.get("discharged", 0),
        "checker_cmd": pr.get("checker_cmd", ""),
        "trusted_base": TRUSTED_BASE + pr.get("extra_trusted", []),
        "theorems": pr.get("theorems", {}),
        "evaluations": ctx.evaluations,
        "distinct_nontrivial": len(ctx.distinct),
        "rule": ctx.rule,
        "samples": ctx.samples[:6] or ["(no generated case: proof tier only)"],
        "disagreements_checked": len(ctx.disagreements),
        "input_distribution": dict(sorted(ctx.dist.items())),
        "exhaustive": bool(ctx.exhaustive_scopes),
        "exhaustive_scopes": ctx.exhaustive_scopes,
        "known_findings_hit": ctx.known_hits,
        "notes": ctx.notes,
        "anchored_code": ctx.anchor_info,
    }
    cov.update(ctx.extra)
    ev = {
        "property_id": ctx.prop,
        "tier": ctx.tier,
        "seed": ctx.seed,
        "level": "proof",
        "coverage": cov,
        "assumptions": assumptions,
        "wall_s": round(ctx.elapsed(), 2),
        "violations": violations,
    }
    tmp = os.path.join(EVIDENCE_DIR, f".{ctx.prop}.json.{os.getpid()}.tmp")
    with open(tmp, "w") as f:
        json.dump(ev, f, indent=1, default=str)
    os.replace(tmp, os.path.join(EVIDENCE_DIR, f"{ctx.prop}.json"))


def proof_tier(ctx: Ctx, theorems: list[str]) -> list[str]:
    """Returns the list of proof obligations that do NOT check (empty = all discharged)."""
    broken: list[str] = []
    ok, log = lake_build(prop=ctx.prop)
    if not ok:
        broken.append("lake build failed: " + log[-1500:])
    hits = forbidden_tokens()
    if hits:
        broken.append("forbidden tokens: " + "; ".join(hits[:10]))
    res = audit(ctx.prop, theorems) if ok else {"ok": False, "found": {}, "log": "not audited (build failed)"}
    discharged = 0
    thm_axioms = {}
    for t in theorems:
        axs = res["found"].get(t)
        if axs is None:
            broken.append(f"theorem {t} not found by audit")
            continue
        bad = [a for a in axs if a not in ALLOWED_AXIOMS]
        if bad:
            broken.append(f"theorem {t} depends on disallowed axioms {bad}")
            continue
        thm_axioms[t] = axs
        discharged += 1
    if ok and not res["ok"] and not broken:
        broken.append("audit file failed: " + res["log"][-800:])
    if ok:
        lock = load_statement_lock().get(ctx.prop, {})
        got = statement_hashes(ctx.prop, theorems)
        for t in theorems:
            if t not in lock:
                broken.append(f"theorem {t} has no pinned statement in lean/statements.lock.json (run tools/pin_statements.py)")
            elif got.get(t) != lock[t]:
                broken.append(f"statement of theorem {t} differs from the pinned one (lean/statements.lock.json)")
        for t in lock:
            if t not in theorems:
                broken.append(f"pinned theorem {t} is no longer listed in THEOREMS of harness/{ctx.prop.lower()}.py")
        if any("pinned" in b for b in broken):
            discharged = 0
    checker_cmd = f"cd lean && lake build && lake env lean IrVerif/Audit/{ctx.prop}.lean"
    if ctx.tier == "thorough" and ok:
        mods = [f"IrVerif.Props.{ctx.prop}"]
        okc, logc = leanchecker(mods)
        checker_cmd += f" && lake env leanchecker {' '.join(mods)}"
        ctx.notes.append("leanchecker: " + ("ok" if okc else "FAILED " + logc[-300:]))
        if not okc:
            broken.append("leanchecker rejected compiled proofs: " + logc[-800:])
    ctx.proof = {
        "obligations": len(theorems),
        "discharged": discharged if ok and not hits else 0,
        "checker_cmd": checker_cmd,
        "theorems": thm_axioms,
    }
    return broken


def main(argv: list[str]) -> int:
    import argparse
    import importlib

    ap = argparse.ArgumentParser()
    ap.add_argument("prop")
    ap.add_argument("--tier", default=os.environ.get("VERIF_TIER", "quick"), choices=["quick", "thorough"])
    ap.add_argument("--replay")
    ap.add_argument("--no-proof", action="store_true", help="development only: skip the proof tier")
    a = ap.parse_args(argv)
    seed = int(os.environ.get("VERIF_SEED", "0") or 0)
    prop = a.prop.upper()
    sys.path.insert(0, VERIF)
    os.environ.setdefault("ONNX_IR_PY_VERIF", "1")
    ctx = Ctx(prop, a.tier, seed)
    # Last-resort watchdog: a check must never hang (e.g. the real code under test loops in the main process).
    # Far above every normal run time; an expiry is an infrastructure result (exit 2), never a verdict.
    import threading

    limit = int(os.environ.get("IRVERIF_WATCHDOG_S") or (2400 if a.tier == "quick" else 4 * 3600))

    def _expired():
        print(f"INFRA property={prop}: watchdog: the check did not finish within {limit}s", file=sys.stderr, flush=True)
        try:  # kill our descendants (worker processes, model drivers), then leave
            me = os.getpid()
            kids = {}
            for d in os.listdir("/proc"):
                if d.isdigit():
                    try:
                        with open(f"/proc/{d}/stat") as f:
                            kids.setdefault(int(f.read().rsplit(")", 1)[1].split()[1]), []).append(int(d))
                    except OSError:
                        pass
            todo, seen = [me], set()
            while todo:
                for k in kids.get(todo.pop(), []):
                    if k not in seen:
                        seen.add(k)
                        todo.append(k)
            for k in seen:
                try:
                    os.kill(k, 9)
                except OSError:
                    pass
        except Exception:
            pass
        os._exit(2)

    _wd = threading.Timer(limit, _expired)
    _wd.daemon = True
    _wd.start()
    try:
        mod = importlib.import_module(f"harness.{prop.lower()}")
        if a.replay:
            with open(a.replay) as f:
                obj = json.load(f)
            okb, logb = lake_build(prop=prop)
            if not okb:
                print(f"REPLAY-DISAGREE property={prop} lake build failed: {logb[-400:]}")
                return 1
            mod.replay(ctx, obj)
            for fl in ctx.failures:
                print(f"REPLAY-FAIL property={prop} {fl['signature']}: {fl['what']}")
            for d in ctx.disagreements:
                print(f"REPLAY-DISAGREE property={prop} {d['what']}")
            return 1 if (ctx.failures or ctx.disagreements) else 0
        if a.no_proof and not os.environ.get("IRVERIF_OUT_DIR"):
            print("--no-proof is a development aid: set IRVERIF_OUT_DIR so that the real evidence is not overwritten", file=sys.stderr)
            return 2
        try:
            from harness import anchors

            n_anch, changed = anchors.changed_since_pin(prop)
            ctx.anchor_info = {"functions": n_anch, "changed_since_pin": changed,
                               "source_root": anchors.src_root()}
            if changed and not os.environ.get("IRVERIF_NO_ESCALATE"):
                ctx.escalated = True
                ctx.notes.append("anchored code differs from the pinned fingerprint: quick budgets x3 (" + ", ".join(changed[:8]) + ")")
                print(f"NOTE property={prop} anchored code changed since the model was pinned: {', '.join(changed[:8])}")
        except Exception as e:  # never decides anything; never fails a run
            ctx.anchor_info = {"error": repr(e)}
        broken = [] if a.no_proof else proof_tier(ctx, list(mod.THEOREMS))
        if a.no_proof:
            ctx.proof = {"obligations": len(mod.THEOREMS), "discharged": 0, "checker_cmd": "(skipped)"}
        driver_ok = os.path.exists(DRIVER)
        ctx.driver_ok = driver_ok
        try:
            mod.run(ctx)
        except Infra:
            if broken:  # the model driver is unusable because the build is broken: oracle-only run
                ctx.notes.append("model driver unavailable; oracle-only failing-input search")
            else:
                raise
    except Infra as e:
        print(f"INFRA property={prop}: {e}", file=sys.stderr)
        return 2
    except subprocess.TimeoutExpired as e:
        print(f"INFRA property={prop}: timeout {e}", file=sys.stderr)
        return 2
    except Exception:
        traceback.print_exc()
        print(f"INFRA property={prop}: harness crashed", file=sys.stderr)
        return 2

    rc = 0
    nrep = 0
    for h in ctx.known_hits:
        print(f"KNOWN-FINDING: property={prop} {h['id']} [{h['signature']}] {h['what'][:300]}")
    # 1. genuine failing inputs on the real code
    seen_sig = set()
    for fl in ctx.failures:
        if fl["signature"] in seen_sig:
            continue
        seen_sig.add(fl["signature"])
        path = write_replay(prop, seed, nrep, {"property": prop, "kind": "failing-input", **fl})
        nrep += 1
        print(f"VIOLATION property={prop} replay={path}")
        rc = 1
    # 2. proof obligations / correspondence that no longer check, with no failing input found
    if rc == 0 and (broken or ctx.disagreements):
        obj = {
            "property": prop,
            "kind": "unchecked-obligation",
            "broken_proof_obligations": broken,
            "correspondence_disagreements": ctx.disagreements[:10],
            "note": "the failing-input search (property oracle over the disagreeing cases, the corpus and the generated "
            "cases of this run) found no input on which the real code violates the property",
        }
        path = write_replay(prop, seed, nrep, obj)
        print(f"VIOLATION property={prop} replay={path} no-failing-input-found")
        rc = 1
    elif broken or ctx.disagreements:
        ctx.notes.append(f"also: {len(broken)} broken proof obligations, {len(ctx.disagreements)} disagreements")
    write_evidence(ctx, len(seen_sig) if rc else 0, getattr(mod, "ASSUMPTIONS", []))
    print(
        f"{prop} tier={a.tier} seed={seed} proof={ctx.proof.get('discharged')}/{ctx.proof.get('obligations')} "
        f"cases={ctx.evaluations} distinct={len(ctx.distinct)} disagreements={len(ctx.disagreements)} "
        f"failures={len(seen_sig)} known={len(ctx.known_hits)} wall={ctx.elapsed():.1f}s -> exit {rc}"
    )
    return rc

"""C19, stream `inline-pass`: the complete InlinePass on annotated models (theorem C19_inline_pass).

A case is a world-building history over the alphabet of `device.run` (one IR-11 model, two registered
configurations, model-local functions whose bodies contain annotated nodes, nested subgraphs that use function
values, calls to earlier functions; a main graph with ordinary nodes, subgraphs that contain calls, call nodes,
users of the call outputs that shard them) plus the side table the Lean model of the pass reads: which nodes are
calls to which function (the real node gets the function's domain / op_type) and the outputs of graphs (appended
to `graph.outputs` of the real graphs).  The real `InlinePass()` is run in place; the Lean model
(`IrVerif.Device.inlinePass`, driver command `device.inline`) on the same input.  Both results are walked in the
same order (main graph, remaining functions; per graph: inputs, initializers, nodes - inputs, outputs, annotation
targets, subgraphs -, outputs); objects that existed before the pass keep their ids, new ones are numbered by
first visit.  Compared: the whole structure, the annotation records of every node, value names (the inliner's
renaming) and shapes (the copy of the call outputs' shapes), the internal checker's output per node, the model's
configuration and function lists, and the model's flat node / graph lists against its own nesting.

Oracle (on the real objects, independent of the model): every spec of every node targets an input / output of its
node and a configuration registered on the model; the checker reports only `valEmptyName`, `axisRange`,
`axisRepeat`; `axisRange` / `axisRepeat` only for specs whose target is in the substituted set (actual arguments of
inlined calls, replacement values of call outputs, clones of such values - computed here from the real objects by
instrumenting nothing: a value is substituted when it is not a plain copy, see `_subst_real`); the ghost set
returned by the model is compared with the model's own claim `WeakOK` (evaluated by the driver) and the hypotheses
`DevOK` / `HeapReg` are evaluated per case and published.
"""
from __future__ import annotations

import random

SHAPES = [None, [2, 3], [4], [2, "N"], [2, 3, 4], []]


class Builder:
    """Builds the op list and tracks the ids the model will allocate."""

    def __init__(self, r: random.Random):
        self.r = r
        self.ops = []
        self.nv = self.nn = self.ng = 0
        self.shape = {}      # value id -> shape
        self.node_io = {}    # node id -> (ins, outs)
        self.node_graph = {}
        self.callee = []     # [node, body graph]
        self.outs = {}       # graph -> [values]
        self.names = ["a", "b", "t", "val", "x", "val_2", "a_2", "", "o"]

    def name(self, allow_empty=False):
        n = self.r.choice(self.names)
        if n == "" and not allow_empty:
            n = "q"
        return n

    def op(self, **kw):
        self.ops.append(kw)

    def new_model(self):
        self.op(op="newModel", ir=11)
        g = self.ng
        self.ng += 1
        return g

    def new_function(self):
        self.op(op="newFunction", m=0)
        g = self.ng
        self.ng += 1
        return g

    def new_input(self, g, shape="rand"):
        if shape == "rand":
            shape = self.r.choice(SHAPES)
        self.op(op="newInput", g=g, name=self.name(), shape=shape)
        v = self.nv
        self.nv += 1
        self.shape[v] = shape
        return v

    def new_node(self, g, ins, nout, shapes=None):
        outs = []
        for i in range(nout):
            sh = self.r.choice(SHAPES) if shapes is None else shapes[i]
            outs.append({"name": self.name(allow_empty=self.r.random() < 0.5), "shape": sh})
        self.op(op="newNode", g=g, ins=list(ins), outs=outs)
        n = self.nn
        self.nn += 1
        ovs = list(range(self.nv, self.nv + nout))
        for v, o in zip(ovs, outs):
            self.shape[v] = o["shape"]
        self.nv += nout
        self.node_io[n] = (list(ins), ovs)
        self.node_graph[n] = g
        return n, ovs

    def new_subgraph(self, n):
        self.op(op="newSubgraph", n=n, graphs=self.r.random() < 0.3)
        g = self.ng
        self.ng += 1
        return g

    def shard(self, n, v, c=None):
        r = self.r
        sh = self.shape.get(v)
        rank = None if sh is None else len(sh)
        if rank is None:
            axis = r.choice([-2, -1, 0, 1, 2])
        elif rank == 0:
            return
        else:
            axis = r.randrange(-rank, rank)
        c = r.choice([0, 1]) if c is None else c
        ndev = [2, 3][c]
        self.op(op="shard", n=n, v=v, c=c, axis=axis, k=r.choice([1, 2, 4]),
                devs=[r.randrange(ndev) for _ in range(r.choice([0, 1, 2]))],
                stage=r.choice([None, None, 0, 1]))

    def annotate(self, n, p=0.6):
        ins, outs = self.node_io[n]
        io = [v for v in ins if v is not None] + outs
        for _ in range(self.r.choice([0, 1, 2, 3]) if self.r.random() < p else 0):
            if io:
                self.shard(n, self.r.choice(io))
        if self.r.random() < 0.15:
            self.op(op="setStage", n=n, c=self.r.choice([0, 1]), stage=self.r.choice([0, 1, 2]))


def gen_case(r: random.Random):
    b = Builder(r)
    main = b.new_model()
    b.op(op="addCfg", m=0, name="c0", num=2, names=[])
    b.op(op="addCfg", m=0, name="c1", num=3, names=[])
    funcs = []  # (graph, formals, nouts)
    nf = r.choice([1, 1, 2, 3])
    for _ in range(nf):
        f = b.new_function()
        formals = [b.new_input(f) for _ in range(r.choice([1, 2, 2, 3]))]
        pool = list(formals)
        produced = []
        for _ in range(r.choice([1, 2, 3])):
            kind = r.random()
            if funcs and kind < 0.3:
                # a call to an earlier function inside a function body
                cg, cform, cnout = r.choice(funcs)
                k = len(cform) if r.random() < 0.75 else r.randrange(0, len(cform) + 1)
                ins = [r.choice(pool + [None]) if r.random() < 0.15 else r.choice(pool) for _ in range(k)]
                n, ovs = b.new_node(f, ins, cnout)
                b.callee.append([n, cg])
            else:
                ins = [r.choice(pool + [None]) if r.random() < 0.1 else r.choice(pool) for _ in range(r.choice([0, 1, 2, 3]))]
                n, ovs = b.new_node(f, ins, r.choice([1, 1, 2]))
                if kind > 0.65:
                    # a body node with a subgraph whose nodes use function values (outer scope) and its own input
                    sg = b.new_subgraph(n)
                    spool = list(pool)
                    if r.random() < 0.4:
                        spool.append(b.new_input(sg))
                    last = None
                    for _ in range(r.choice([1, 2])):
                        k2, o2 = b.new_node(sg, [r.choice(spool) for _ in range(r.choice([1, 2]))], 1)
                        b.annotate(k2)
                        last = o2[0]
                        if r.random() < 0.3:
                            dg = b.new_subgraph(k2)
                            # (rarely the nested node uses the output of the node that owns it: clone_node raises)
                            k3, o3 = b.new_node(dg, [r.choice(spool + (o2 if r.random() < 0.05 else []))], 1)
                            b.annotate(k3)
                            b.outs[dg] = [o3[0]]
                        spool += o2
                    b.outs[sg] = [last]
            b.annotate(n, 0.8)
            pool += ovs
            produced += ovs
        nout = r.choice([1, 1, 2])
        outs = []
        for _ in range(nout):
            x = r.random()
            if x < 0.12:
                outs.append(r.choice(formals))      # a function that returns its input (Identity forwarding)
            elif x < 0.2 and outs:
                outs.append(outs[-1])               # the same value twice
            else:
                outs.append(r.choice(produced))
        b.outs[f] = outs
        funcs.append((f, formals, nout))
    # main graph
    xs = [b.new_input(main) for _ in range(r.choice([1, 2, 3]))]
    pool = list(xs)
    call_outs = []
    for _ in range(r.choice([2, 3, 4, 5])):
        kind = r.random()
        if kind < 0.45:
            cg, cform, cnout = r.choice(funcs)
            k = len(cform) if r.random() < 0.75 else r.randrange(0, len(cform) + 1)
            if r.random() < 0.03:
                k = len(cform) + 1              # too many inputs: the pass raises
            ins = [None if r.random() < 0.08 else r.choice(pool) for _ in range(k)]
            no = cnout if r.random() < 0.97 else cnout + 1   # output count mismatch: the pass raises
            n, ovs = b.new_node(main, ins, no)
            b.callee.append([n, cg])
            call_outs += ovs
        else:
            ins = [r.choice(pool) for _ in range(r.choice([1, 2]))]
            n, ovs = b.new_node(main, ins, r.choice([1, 1, 2]))
            if kind > 0.8:
                sg = b.new_subgraph(n)
                spool = list(pool)
                last = None
                for _ in range(r.choice([1, 2])):
                    if r.random() < 0.5:
                        cg, cform, cnout = r.choice(funcs)
                        k2, o2 = b.new_node(sg, [r.choice(spool) for _ in range(r.randrange(0, len(cform) + 1))], cnout)
                        b.callee.append([k2, cg])
                    else:
                        k2, o2 = b.new_node(sg, [r.choice(spool) for _ in range(r.choice([1, 2]))], 1)
                    b.annotate(k2)
                    spool += o2
                    last = o2[0]
                b.outs[sg] = [last]
        b.annotate(n, 0.8)
        pool += ovs
    mo = [pool[-1]]
    if call_outs and r.random() < 0.6:
        mo.append(r.choice(call_outs))
    b.outs[main] = mo
    return {"ops": b.ops, "model": 0, "callee": b.callee, "outs": sorted([g, vs] for g, vs in b.outs.items()),
            "fuel": 400}


# ---------------------------------------------------------------------------------------------- canonical walks


class _Ids:
    def __init__(self, old):
        self.old = old        # key -> existing id
        self.new = {}

    def get(self, key, kind):
        if key in self.old:
            return self.old[key]
        if key not in self.new:
            self.new[key] = f"{kind}{len(self.new)}"
        return self.new[key]


def walk_lean(out, m, nvals0, nnodes0, ngraphs0):
    st = out["state"]
    vals, nodes, graphs = st["values"], st["nodes"], st["graphs"]
    callee = {n: g for n, g in reversed(out["callee"])}
    vid = _Ids({v: v for v in range(nvals0)})
    seen_nodes, seen_graphs = [], []
    chk = {n: kinds for n, kinds in st["models"][m]["chk"]}

    def V(v):
        return None if v is None else vid.get(v, "v")

    def G(g):
        seen_graphs.append(g)
        gs = graphs[g]
        res = {"id": g if g < ngraphs0 else None, "in": [V(v) for v in gs["i"]], "init": [V(v) for v in gs["t"]], "nodes": []}
        for n in gs["n"]:
            seen_nodes.append(n)
            nd = nodes[n]
            rec = {"id": n if n < nnodes0 else None, "i": [V(v) for v in nd["i"]], "o": [V(v) for v in nd["o"]],
                   "on": [vals[v][0] for v in nd["o"]], "os": [vals[v][1] for v in nd["o"]],
                   "d": [[c, [[V(s[0]), s[1], s[2]] for s in specs], stg] for c, specs, stg in nd["d"]],
                   "call": callee.get(n), "chk": chk.get(n, "unlisted")}
            rec["subs"] = [G(sg) for sg in nd["s"]]
            res["nodes"].append(rec)
        res["outs"] = [V(v) for v in out["outs"][g]]
        return res

    ms = st["models"][m]
    res = {"main": G(ms["g"]), "funcs": [G(f) for f in ms["f"]], "cfgs": ms["c"]}
    lists_ok = sorted(seen_nodes) == ms["n"] and sorted(seen_graphs) == ms["gs"]
    return res, lists_ok, vid


def walk_real(real, model, fgid):
    """`fgid`: id(function) -> body graph id (functions existed before the pass)"""
    vid = _Ids({k: v for k, v in real.vid.items()})
    nodes_in_order = []

    def V(v):
        return None if v is None else vid.get(id(v), "v")

    def shape(v):
        return real._shape(v)

    def G(g):
        res = {"id": real.gid.get(id(g)), "in": [V(v) for v in g.inputs], "init": [V(v) for v in g.initializers.values()],
               "nodes": []}
        for n in g:
            nodes_in_order.append(n)
            op_id = n.op_identifier()
            rec = {"id": real.nid.get(id(n)), "i": [V(v) for v in n.inputs], "o": [V(v) for v in n.outputs],
                   "on": [v.name or "" for v in n.outputs], "os": [shape(v) for v in n.outputs],
                   "d": [[real.cid.get(id(nc.configuration), -1),
                          [[V(s.value), list(s.device), real._sdims(s)] for s in nc.sharding_specs], nc.pipeline_stage]
                         for nc in n.device_configurations],
                   "call": fgid.get(op_id), "chk": None}
            rec["subs"] = [G(sg) for sg in real.subgraphs_of(n)]
            res["nodes"].append(rec)
        res["outs"] = [V(v) for v in g.outputs]
        return res

    res = {"main": G(model.graph), "funcs": [G(f.graph) for f in model.functions.values()],
           "cfgs": [real.cid[id(c)] for c in model.device_configurations]}
    return res, nodes_in_order, vid


def _fill_chk(res, nodes_in_order, msgs, kind):
    """attribute the checker messages to nodes (the nodes were given unique names in walk order)"""
    import re

    by = {}
    for msg in msgs:
        mm = re.match(r"Node '([^']*)'", msg)
        by.setdefault(mm.group(1) if mm else None, []).append(kind(msg))
    it = iter(range(len(nodes_in_order)))

    def G(g):
        for rec in g["nodes"]:
            k = next(it)
            rec["chk"] = by.pop(f"w{k}", [])
            for sg in rec["subs"]:
                G(sg)

    G(res["main"])
    for f in res["funcs"]:
        G(f)
    return by  # unattributed messages


def run_case(case, out, kind, part, stream="inline-pass"):
    """`out` = answer of `device.inline`.  Returns nothing; reports through `part`."""
    from harness.c19 import Real

    real = Real()
    for op in case["ops"]:
        res, _ = real.apply(op)
    model = real.models[case["model"]]
    fgid = {}
    for f in model.functions.values():
        fgid[f.identifier()] = real.gid[id(f.graph)]
    gname = {real.gid[id(f.graph)]: f for f in model.functions.values()}
    for n, g in case["callee"]:
        f = gname[g]
        real.nodes[n].domain = f.domain
        real.nodes[n].op_type = f.name
    for g, vs in case["outs"]:
        real.graphs[g].outputs.extend(real.values[v] for v in vs)
    model.graph.opset_imports["custom"] = 1
    nvals0, nnodes0, ngraphs0 = len(real.values), len(real.nodes), len(real.graphs)
    before_vals = {id(v): (real._shape(v)) for v in real.values}
    from onnx_ir.passes.common import InlinePass

    try:
        InlinePass()(model)
        rres = "ok"
    except Exception as e:  # the pass has its own preconditions (input / output count, missing argument returned)
        rres = "raised"
        part.count(f"inline_raise={type(e).__name__}")
    hyp = out.get("hyp", {})
    n_ann = sum(1 for o in case["ops"] if o["op"] == "shard")
    part.case(["inline", case], nontrivial=rres == "ok" and n_ann > 0 and bool(case["callee"]),
              sample={"callee": case["callee"], "outs": case["outs"], "n_ops": len(case["ops"])}, stream=stream,
              inline_res=rres, inline_hyp_devok=hyp.get("devok"), inline_hyp_heapreg=hyp.get("heapreg"),
              inline_hyp_graphids=hyp.get("graphids"),
              inline_calls=min(len(case["callee"]), 6))
    if "err" in out:
        part.disagree("device.inline: driver error", {"inline": case}, out, rres)
        return
    if out["res"] != rres:
        part.disagree("InlinePass outcome (ok / raised) differs", {"inline": case}, out["res"], rres)
        return
    if rres != "ok":
        return
    # ---- correspondence
    lres, lists_ok, lvid = walk_lean(out, case["model"], nvals0, nnodes0, ngraphs0)
    rwalk, rnodes, rvid = walk_real(real, model, fgid)
    for k, n in enumerate(rnodes):
        n.name = f"w{k}"
    msgs = real.md._check_device_configurations(model)
    left = _fill_chk(rwalk, rnodes, msgs, kind)
    if left:
        part.fail("inline: checker message not attributable to a node", repr(left)[:200], {"inline": case})
    if not lists_ok:
        part.disagree("inlinePass: the model's flat node / graph lists differ from its nesting", {"inline": case},
                      out["state"]["models"][case["model"]], None)
    if lres != rwalk:
        part.disagree("InlinePass result differs (structure / annotations / names / shapes / checker)", {"inline": case},
                      lres, rwalk)
    # ---- oracle on the real objects
    reg = {id(c) for c in model.device_configurations}
    all_nodes = Real.all_nodes(model)
    if len(all_nodes) != len(rnodes):
        part.fail("inline: walk mismatch", "independent walk and ordered walk differ", {"inline": case})
    hyps = bool(hyp.get("devok")) and bool(hyp.get("heapreg")) and bool(hyp.get("graphids"))
    part.count(f"inline_hyps={hyps}")
    if not hyps:
        return
    for n in all_nodes:
        io = {id(v) for v in list(n.inputs) + list(n.outputs) if v is not None}
        for nc in n.device_configurations:
            if nc.configuration is None or id(nc.configuration) not in reg:
                part.fail("inline-pass: unregistered-configuration after InlinePass",
                          "a node configuration is not registered on the model", {"inline": case})
            for s in nc.sharding_specs:
                if s.value is None or id(s.value) not in io:
                    part.fail("inline-pass: dangling-spec after InlinePass",
                              "a spec targets a value that is not an input/output of its node", {"inline": case})
    kinds = [kind(x) for x in msgs]
    bad = [k for k in kinds if k not in ("valEmptyName", "axisRange", "axisRepeat")]
    if bad:
        part.fail(f"inline-pass: checker reports {bad[0]} after InlinePass", msgs[kinds.index(bad[0])], {"inline": case})
    part.count(f"inline_checker_axis_msgs={'yes' if any(k in ('axisRange', 'axisRepeat') for k in kinds) else 'no'}")
    part.count(f"inline_checker_emptyname={'yes' if 'valEmptyName' in kinds else 'no'}")
    # rank-dependent messages only for substituted targets: the model's ghost set, translated to real objects
    inv = {}
    for key, cid in list(rvid.old.items()) + list(rvid.new.items()):
        inv[cid] = key
    subst_real = set()
    for v in out["subst"]:
        c = lvid.old.get(v, lvid.new.get(v))
        if c in inv:
            subst_real.add(inv[c])
    if not out.get("weak"):
        part.fail("inline-pass: WeakOK false on the model world", "the Lean predicate WeakOK does not hold after inlinePass "
                  "although DevOK and HeapReg held before", {"inline": case})
    if lres == rwalk:
        for n in all_nodes:
            for nc in n.device_configurations:
                for s in nc.sharding_specs:
                    if id(s.value) in subst_real:
                        continue
                    rank = None if s.value.shape is None else len(s.value.shape)
                    seen = set()
                    for d in s.sharded_dims:
                        if rank is not None and not -rank <= d.axis < rank:
                            part.fail("inline-pass: axis out of range on a value that was not substituted",
                                      f"{n.name}: axis {d.axis} rank {rank}", {"inline": case})
                        a = d.axis + rank if (rank is not None and d.axis < 0) else d.axis
                        if a in seen:
                            part.fail("inline-pass: axis repeated on a value that was not substituted",
                                      f"{n.name}: axis {d.axis}", {"inline": case})
                        seen.add(a)

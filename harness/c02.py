"""C02 — ONNX proto -> IR -> proto is lossless (DESIGN.md section 5, C02).

Correspondence: a structured generator over the real `onnx` protobuf classes (+ the repo's test
corpus and the ONNX backend corpus) builds protos; each is rendered to the JSON form of
`lean/IrVerif/Model/Proto.lean`; the Lean model (`serde.*` driver commands: deserialize then
serialize, transcribing serde.py) and the real `onnx_ir.from_proto` / `to_proto` both round-trip it
and the two results are compared field by field (ok/raised + the rendered result).

Oracle (independent of the model): protobuf equality of the real round trip with the original,
after an independent Python implementation of the documented normalisations (`py_norm`); it also
runs on the "edge" stream (supported protos outside WFproto) with the explicit list
`EXPECTED_NORMALISATIONS`, and compares `onnx_ir.save(onnx_ir.load(file))` with the in-memory
round trip for every model.

The driver also evaluates the statement of the Lean theorem on every case
(`WFproto x -> serialize (deserialize x) = norm x`); a false instance is reported as a disagreement.
"""
from __future__ import annotations

import base64
import copy
import glob
import logging
import os
import struct
import tempfile
import warnings

import onnx
from google.protobuf import text_format
from onnx import (
    AttributeProto,
    FunctionProto,
    GraphProto,
    ModelProto,
    NodeProto,
    TensorProto,
    TypeProto,
    ValueInfoProto,
)

from harness.common import Ctx, Infra, lean_batch_parallel, load_corpus

logging.getLogger("onnx_ir").setLevel(logging.CRITICAL)
warnings.filterwarnings("ignore", module="onnx")

NS = "IrVerif.Serde."
THEOREMS = [
    NS + n
    for n in (
        "C02_shape",
        "C02_maps",
        "C02_type",
        "C02_value_info",
        "C02_tensor_string",
        "C02_tensor_external",
        "C02_devcfg",
        "C02_attr_list",
        "C02_attr_tensor",
        "C02_attr_type",
        "C02_attr_ref",
        "C02_attr",
        "C02_node",
        "C02_graph",
        "C02_function",
        "C02_model",
        "C02_model_norm",
        "C02_norm_idempotent",
        "C02_annotations",
        "C02_no_loss_names",
        "C02_keeps_model",
        "C02_keeps_nodes",
        "C02_keeps_values",
        "C02_node_alone",
        "C02_function_alone",
        # deepening round: the widened WFproto (Model/SerdeWide.lean)
        "C02_fold_unread_graph",
        "C02_fold_unread_function",
        "C02_fold_unread",
        "C02_fold_value_info",
        "C02_fold_external",
        "C02_model_wide",
        "C02_model_norm_wide",
        "C02_graph_wide",
        "C02_function_alone_wide",
        "C02_tensor_wide",
        "C02_wide_subsumes",
        "C02_keeps_wide",
        "C02_tensor_fields",
        # stage E: merge (E3), canon = merge . fold
        "C02_merge_deserialize_graph",
        "C02_merge_deserialize",
        "C02_merge_output",
        "C02_model_canon",
        "C02_model_norm_canon",
        "C02_graph_canon",
        "C02_function_alone_canon",
        "C02_canon_subsumes",
        "C02_keeps_canon",
        # stage F (second deepening round): E4 = outdup, canonD = merge . outdup . fold; stand-alone forms widened
        "C02_wf_outputs",
        "C02_outdup_output",
        "C02_outdup_deserialize_graph",
        "C02_outdup_deserialize",
        "C02_model_outdup",
        "C02_model_norm_outdup",
        "C02_graph_outdup",
        "C02_function_alone_outdup",
        "C02_node_alone_wide",
        "C02_node_wide",
        "C02_attr_wide",
        "C02_outdup_subsumes",
        "C02_keeps_outdup",
        # E8 (IR<10, a graph value named like an experimental entry): wfModel9 / normModel9
        "C02_model_ir9",
        "C02_model_ir9_wide",
        "C02_model_ir9_outdup",
        "C02_ir9_subsumes",
        # stage G: dimensions and scalar attributes as typed fields (Model/SerdeScalar.lean, harness/c02_scalar.py)
        "C02_dim_fields",
        "C02_shape_fields",
        "C02_attr_scalar_fields",
        "C02_float32_widen_narrow",
        "C02_float32_representable",
        "C02_float32_rounding_partial",
        "C02_utf8_roundtrip",
    )
]
ASSUMPTIONS = [
    "protobuf wire parsing, CPython dict/str/UTF-8 codec and onnx.external_data_helper.ExternalDataInfo are trusted",
    "optional scalars: unset == default value; absent sub-message == empty sub-message (rendering convention)",
    "bytes payloads are opaque tokens; float fields are compared as IEEE bit patterns (signalling NaNs excluded)",
    "sparse_initializer, training_info, TensorProto.segment, opaque/map types, sparse attributes are outside the supported set",
    "quantization annotations are treated as a map keyed by tensor name (their order is not preserved by serde.py); "
    "an annotation with an empty parameter map is dropped (outside WFproto; py_norm drops it too)",
    "one Value carries one type / shape / doc string / metadata dict: the entries of a value that is both a graph "
    "input and a graph output (pass-through) are merged by the round trip - the output entry wins for type, shape "
    "and doc string (also when it has none), the metadata dicts are united (output wins per key) - and BOTH entries "
    "read that afterwards; this is a documented normalisation inside norm / the theorem (mergeVI), not a finding",
    "further documented normalisations in norm (named in C02_keeps_values): the value_info of an initializer is "
    "completed from its tensor where it says nothing (fillFromTensor: type, leaf shape); value_info is added for "
    "every non-input initializer; value_info that addresses no value of the graph or carries no information is "
    "dropped; external_data entries are written in the order location/offset/length/checksum (py_norm sorts them)",
    "edge stream = supported protos outside WFproto in which the same thing is described twice.  Inside the widened "
    "theorems (WFprotoW p := WFproto (fold p), C02_*_wide; histogram wfw[edge]=...): E2 value_info naming a graph "
    "input, E5 repeated opset domain, E6 repeated value_info name (graphs and functions), E7 external_data with "
    "unspecified or repeated keys - fold drops exactly the entries deserialize never reads (C02_fold_unread*).  "
    "Inside the second widening (WFprotoX p := WFproto (merge (fold p)), C02_*_canon; histogram wfx[edge]=...): "
    "additionally E3 value_info naming a graph output produced in the graph - its metadata is united into the output "
    "entry (C02_merge_output: the mergeVI normalisation), C02_merge_deserialize* under WFproto (merge p).  "
    "Inside the third widening (second deepening round; WFprotoD p := WFproto (merge (outdup (fold p))), C02_*_outdup, "
    "C02_node_alone_wide, C02_node_wide, C02_attr_wide; histograms wfd[edge]=..., wfd[E4]=...): additionally E4 "
    "several graph output entries with one name - WFproto itself (consOutputs) admits entries with one name when "
    "they are identical, outdup replaces the entries of a declared name by their union (type/shape/doc of the last, "
    "metadata united, later wins; C02_outdup_output), C02_outdup_deserialize* under WFproto (merge (outdup p)); the "
    "edge stream now also runs on stand-alone nodes and GRAPH(S) attributes.  "
    "E8 (IR<10, a value of the main graph named like the experimental entry 'domain::name/value' of a function "
    "value; D320, /repo commit f0d2984): C02_model_ir9 / C02_model_ir9_wide / C02_model_ir9_outdup prove the round trip "
    "WITHOUT the hypothesis 'no such name' (wfModel9, normModel9 with the reserved names; histograms wf9d[edge]=..., "
    "wf9d[E8]=...), on the plain domain, in front of the fold and in front of canonD (there: no graph input and no "
    "declared graph output of the experimental form).  "
    "Still oracle (EXPECTED_NORMALISATIONS) + correspondence only: value_info naming an output nobody produces",
    "the hypotheses of the new theorems are evaluated by the driver on every case (wfw / wfx, thmw / thmx = statements "
    "of C02_*_wide / C02_*_canon, sub / subx = C02_wide_subsumes / C02_canon_subsumes, unread = C02_fold_unread* "
    "observed through serialize, fields = C02_tensor_fields; wfd / thmd / subd / unreadd = hypothesis and statement of "
    "C02_*_outdup / C02_node_alone_wide / C02_attr_wide, C02_outdup_subsumes, C02_outdup_deserialize* observed through "
    "serialize); a false instance is a disagreement",
    "tensors: serTensorF = serialize_tensor_into written out per tensor class and per field (CopyFrom as Clear + "
    "MergeFrom with the presence convention unset == default) is compared with the real to_proto on every tensor "
    "case; C02_tensor_fields claims every field incl. the payload in the storage field it came in, for all three "
    "classes.  Stage G (harness/c02_scalar.py, Model/SerdeScalar.lean): dimensions and INT/FLOAT/STRING attributes as "
    "typed fields - int64 ranges (out-of-range Python ints RAISE ValueError, never wrap), float32 bit patterns with the "
    "widening/narrowing conversions (protobuf's C cast: round to nearest even, overflow to inf, NaNs quieted), bytes "
    "with CPython's strict UTF-8 codec - are theorems (C02_dim_fields, C02_shape_fields, C02_attr_scalar_fields, "
    "C02_float32_*, C02_utf8_roundtrip) compared with the real code on every run; the renderer of this file is itself "
    "compared with the model's rendering there.  Still opaque tokens: bytes payloads of tensors (C04).  A FLOAT "
    "attribute whose f is a SIGNALLING NaN comes back with the quiet bit set (protobuf's float getter; invisible to "
    "r_attr, histogram scalar:renderer_cannot_see_snan); tie-breaking of the double->float32 narrowing below the least "
    "normal float32 is compared (exhaustive scope), not proved (C02_float32_rounding_partial)",
    "unsupported constructs (outside the property's quantifier), observed on every run by the 'unsupported' stream "
    "(histogram only, never a failure): SPARSE_TENSOR(S) attributes and map types raise NotImplementedError; "
    "GraphProto.sparse_initializer, ModelProto.training_info and TypeProto.opaque_type are DROPPED SILENTLY by "
    "from_proto/to_proto (observations D370-D372, proposed_fixes/D370-D372.md); TensorProto.segment is kept by the "
    "proto-backed pass-through",
    "the file entry points onnx_ir.load / onnx_ir.save are compared with from_proto / to_proto on every model case "
    "(differential only; external tensor data is never touched)",
    "WFproto (theorem domain) vs the generator's valid stream: see histogram keys wf[valid]=...; outside WFproto "
    "(correspondence + oracle only) remain IR<10 models in which a value of the main graph itself has a name of the "
    "experimental 'domain::name/value' form, or whose functions carry their own value_info, and stand-alone nodes "
    "whose subgraphs capture a name that is neither an input nor an output of the node",
    "experimental IR<10 entries whose name does not split back (first '::', then first '/') into an existing "
    "function and one of its values address nothing and count as unreferenced value-info (D106 semantics)",
    "a node input that resolves to a different Value object with the same name (scope shadowing order) is not "
    "observable through to_proto; object identity after deserialization belongs to C03/C17",
]

KINDS = {
    "dim": onnx.TensorShapeProto.Dimension,
    "type": TypeProto,
    "vi": ValueInfoProto,
    "tensor": TensorProto,
    "attr": AttributeProto,
    "node": NodeProto,
    "graph": GraphProto,
    "function": FunctionProto,
    "model": ModelProto,
}


class Unsupported(Exception):
    """The proto uses a construct the Lean proto model cannot represent (outside the supported set)."""


# --------------------------------------------------------------------------- rendering proto -> JSON


def r_entries(es):
    return [[e.key, e.value] for e in es]


def r_dimval(d, a="dim_value", b="dim_param", oneof="value"):
    w = d.WhichOneof(oneof)
    if w is None:
        return None
    if w == a:
        return {"v": getattr(d, a)}
    return {"p": getattr(d, b)}


def r_dim(d):
    return {"d": r_dimval(d), "den": d.denotation}


def r_type(t):
    w = t.WhichOneof("value")
    den = t.denotation
    if w is None:
        return {"k": "unset", "den": den}
    if w in ("tensor_type", "sparse_tensor_type"):
        tt = getattr(t, w)
        return {
            "k": "tensor" if w == "tensor_type" else "sparse",
            "elem": tt.elem_type if tt.HasField("elem_type") else None,
            "shape": [r_dim(d) for d in tt.shape.dim] if tt.HasField("shape") else None,
            "den": den,
        }
    if w in ("sequence_type", "optional_type"):
        return {"k": "seq" if w == "sequence_type" else "opt", "elem": r_type(getattr(t, w).elem_type), "den": den}
    if w == "map_type":
        return {"k": "map", "den": den}
    raise Unsupported(w)


def r_vi(v):
    return {"name": v.name, "type": r_type(v.type), "doc": v.doc_string, "meta": r_entries(v.metadata_props)}


def f32bits(x):
    return struct.unpack("<I", struct.pack("<f", x))[0]


def f64bits(x):
    return struct.unpack("<Q", struct.pack("<d", x))[0]


def r_tensor(t):
    if t.HasField("segment"):
        raise Unsupported("segment")
    return {
        "name": t.name,
        "doc": t.doc_string,
        "dt": t.data_type,
        "dims": list(t.dims),
        "loc": int(t.data_location),
        "raw": t.raw_data.hex() if t.HasField("raw_data") else None,
        "f32": [f32bits(x) for x in t.float_data],
        "i32": list(t.int32_data),
        "str": [s.hex() for s in t.string_data],
        "i64": list(t.int64_data),
        "f64": [f64bits(x) for x in t.double_data],
        "u64": list(t.uint64_data),
        "ext": r_entries(t.external_data),
        "meta": r_entries(t.metadata_props),
    }


def r_bstr(b):
    try:
        return {"u": b.decode("utf-8")}
    except UnicodeDecodeError:
        return {"b": b.hex()}


_ATTR_FIELD = {1: "f", 2: "i", 3: "s", 4: "t", 5: "g", 6: "floats", 7: "ints", 8: "strings", 9: "tensors",
               10: "graphs", 11: "sparse_tensor", 12: "sparse_tensors", 13: "tp", 14: "type_protos"}
_ATTR_VALUE_FIELDS = list(_ATTR_FIELD.values())


def _populated(a, f):
    fd = a.DESCRIPTOR.fields_by_name[f]
    if fd.is_repeated if hasattr(fd, "is_repeated") else fd.label == fd.LABEL_REPEATED:
        return len(getattr(a, f)) > 0
    return a.HasField(f)


def r_attr(a):
    base = {"name": a.name, "doc": a.doc_string}
    t = int(a.type)
    own = _ATTR_FIELD.get(t)
    for f in _ATTR_VALUE_FIELDS:
        if f != own and _populated(a, f) or (a.ref_attr_name and f == own and _populated(a, f)):
            raise Unsupported("attribute value field not matching its type")
    if a.ref_attr_name:
        return {"k": "ref", **base, "ref": a.ref_attr_name, "type": t}
    if t == 0:
        return {"k": "undefined", **base}
    if t == 1:
        return {"k": "float", **base, "bits": f32bits(a.f)}
    if t == 2:
        return {"k": "int", **base, "i": a.i}
    if t == 3:
        return {"k": "string", **base, "s": r_bstr(a.s)}
    if t == 4:
        return {"k": "tensor", **base, "t": r_tensor(a.t)}
    if t == 5:
        return {"k": "graph", **base, "g": r_graph(a.g)}
    if t == 6:
        return {"k": "floats", **base, "xs": [f32bits(x) for x in a.floats]}
    if t == 7:
        return {"k": "ints", **base, "xs": list(a.ints)}
    if t == 8:
        return {"k": "strings", **base, "xs": [r_bstr(s) for s in a.strings]}
    if t == 9:
        return {"k": "tensors", **base, "ts": [r_tensor(x) for x in a.tensors]}
    if t == 10:
        return {"k": "graphs", **base, "gs": [r_graph(x) for x in a.graphs]}
    if t in (11, 12):
        return {"k": "sparse", **base, "plural": t == 12}
    if t == 13:
        return {"k": "tp", **base, "tp": r_type(a.tp)}
    if t == 14:
        return {"k": "tps", **base, "tps": [r_type(x) for x in a.type_protos]}
    return {"k": "unknown", **base, "type": t}


def r_nodedev(c):
    return {
        "id": c.configuration_id,
        "specs": [
            {
                "tensor": s.tensor_name,
                "device": list(s.device),
                "map": [{"key": e.key, "value": list(e.value)} for e in s.index_to_device_group_map],
                "dims": [
                    {"axis": d.axis, "simple": [{"d": r_dimval(x, oneof="dim"), "n": x.num_shards} for x in d.simple_sharding]}
                    for d in s.sharded_dim
                ],
            }
            for s in c.sharding_spec
        ],
        "stage": c.pipeline_stage if c.HasField("pipeline_stage") else None,
    }


def r_node(n):
    return {
        "in": list(n.input),
        "out": list(n.output),
        "name": n.name,
        "op": n.op_type,
        "domain": n.domain,
        "overload": n.overload,
        "doc": n.doc_string,
        "attrs": [r_attr(a) for a in n.attribute],
        "meta": r_entries(n.metadata_props),
        "dev": [r_nodedev(c) for c in n.device_configurations],
    }


def r_graph(g):
    if len(g.sparse_initializer):
        raise Unsupported("sparse_initializer")
    return {
        "name": g.name,
        "doc": g.doc_string,
        "nodes": [r_node(n) for n in g.node],
        "init": [r_tensor(t) for t in g.initializer],
        "in": [r_vi(v) for v in g.input],
        "out": [r_vi(v) for v in g.output],
        "vi": [r_vi(v) for v in g.value_info],
        "quant": [{"tensor": a.tensor_name, "params": r_entries(a.quant_parameter_tensor_names)} for a in g.quantization_annotation],
        "meta": r_entries(g.metadata_props),
    }


def r_function(f):
    return {
        "name": f.name,
        "domain": f.domain,
        "overload": f.overload,
        "doc": f.doc_string,
        "in": list(f.input),
        "out": list(f.output),
        "attr_names": list(f.attribute),
        "attrs": [r_attr(a) for a in f.attribute_proto],
        "nodes": [r_node(n) for n in f.node],
        "opsets": [[o.domain, o.version] for o in f.opset_import],
        "vi": [r_vi(v) for v in f.value_info],
        "meta": r_entries(f.metadata_props),
    }


def r_model(m):
    if len(m.training_info):
        raise Unsupported("training_info")
    return {
        "ir": m.ir_version,
        "producer": m.producer_name,
        "producer_version": m.producer_version,
        "domain": m.domain,
        "model_version": m.model_version,
        "doc": m.doc_string,
        "opsets": [[o.domain, o.version] for o in m.opset_import],
        "meta": r_entries(m.metadata_props),
        "graph": r_graph(m.graph),
        "functions": [r_function(f) for f in m.functions],
        "config": [{"name": c.name, "n": c.num_devices, "device": list(c.device)} for c in m.configuration],
    }


RENDER = {"dim": r_dim, "type": r_type, "vi": r_vi, "tensor": r_tensor, "attr": r_attr, "node": r_node,
          "graph": r_graph, "function": r_function, "model": r_model}

# --------------------------------------------------------------------------- the real round trip


def impl_roundtrip(kind, p):
    """serialize(deserialize(p)) with the real onnx_ir; returns a proto of the same class."""
    import onnx_ir as ir
    from onnx_ir import serde

    if kind == "dim":
        out = onnx.TensorShapeProto.Dimension()
        dim, den = serde.deserialize_dimension(p)
        serde.serialize_dimension_into(out, dim, den)
        return out
    if kind == "type":
        a = AttributeProto(name="a", type=AttributeProto.TYPE_PROTO)
        a.tp.CopyFrom(p)
        return ir.to_proto(ir.from_proto(a)).tp
    return ir.to_proto(ir.from_proto(p))


def impl_file_roundtrip(p, tmpdir):
    """the file entry points: onnx_ir.save(onnx_ir.load(file)) read back with onnx (no tensor data is touched:
    external tensors stay references)."""
    import onnx_ir as ir

    src, dst = os.path.join(tmpdir, "in.onnx"), os.path.join(tmpdir, "out.onnx")
    with open(src, "wb") as f:
        f.write(p.SerializeToString())
    ir.save(ir.load(src), dst)
    out = ModelProto()
    with open(dst, "rb") as f:
        out.ParseFromString(f.read())
    return out


# --------------------------------------------------------------------------- independent oracle: py_norm

_KEEP_PRESENCE = {("TypeProto.Tensor", "elem_type"), ("TypeProto.SparseTensor", "elem_type"),
                  ("NodeDeviceConfigurationProto", "pipeline_stage")}


def _is_repeated(fd):
    return fd.is_repeated if hasattr(fd, "is_repeated") else fd.label == fd.LABEL_REPEATED


def _msg_name(m):
    return m.DESCRIPTOR.full_name.removeprefix("onnx.")


def _strip_defaults(m):
    """unset == default for optional scalars; absent == empty for sub-messages (bottom-up)."""
    for fd, val in list(m.ListFields()):
        if fd.message_type is not None:
            if _is_repeated(fd):
                for x in val:
                    _strip_defaults(x)
            else:
                _strip_defaults(val)
                if val.ByteSize() == 0 and fd.containing_oneof is None and not (
                    _msg_name(m) in ("TypeProto.Tensor", "TypeProto.SparseTensor") and fd.name == "shape"
                ):
                    m.ClearField(fd.name)
        elif not _is_repeated(fd):
            if fd.containing_oneof is not None or (_msg_name(m), fd.name) in _KEEP_PRESENCE:
                continue
            if val == fd.default_value:
                m.ClearField(fd.name)


def _sort_entries(rep):
    es = sorted(((e.key, e.value) for e in rep))
    del rep[:]
    for k, v in es:
        rep.add(key=k, value=v)


def _vi_has_info(v):
    return v.type.WhichOneof("value") is not None or len(v.metadata_props) > 0 or v.doc_string != ""


def _norm_tensor(t):
    _sort_entries(t.metadata_props)
    if t.data_location == TensorProto.EXTERNAL:
        # E7: only the four keys of the ONNX spec survive (onnx's ExternalDataInfo ignores the others)
        es = {e.key: e.value for e in t.external_data if e.key in ("location", "offset", "length", "checksum")}
        del t.external_data[:]
        for k in sorted(es):
            t.external_data.add(key=k, value=es[k])


def _norm_vi(v):
    _sort_entries(v.metadata_props)


def _norm_attr(a):
    if a.HasField("t"):
        _norm_tensor(a.t)
    for t in a.tensors:
        _norm_tensor(t)
    if a.HasField("g"):
        _norm_graph(a.g)
    for g in a.graphs:
        _norm_graph(g)


def _norm_node(n):
    if n.domain == "ai.onnx":
        n.domain = ""
    while len(n.output) and n.output[-1] == "":
        del n.output[-1]
    _sort_entries(n.metadata_props)
    for a in n.attribute:
        _norm_attr(a)


def _default_vi(t):
    v = ValueInfoProto(name=t.name)
    v.type.tensor_type.elem_type = t.data_type
    v.type.tensor_type.shape.ClearField("dim")
    for d in t.dims:
        v.type.tensor_type.shape.dim.add().dim_value = d
    return v


def _leaf(t):
    w = t.WhichOneof("value")
    while w in ("sequence_type", "optional_type"):
        t = getattr(t, w).elem_type
        w = t.WhichOneof("value")
    return getattr(t, w) if w in ("tensor_type", "sparse_tensor_type") else None


def _fill_from_tensor(v, t):
    v = copy.deepcopy(v)
    d = _default_vi(t)
    if v.type.WhichOneof("value") is None:
        v.type.CopyFrom(d.type)
    else:
        leaf = _leaf(v.type)
        if leaf is not None and not leaf.HasField("shape"):
            leaf.shape.CopyFrom(d.type.tensor_type.shape)
    return v


# The expected normalisations of supported protos OUTSIDE the domain of the theorem (the "edge" stream).
# The IR has ONE Value object per value and a Value carries ONE type / shape / doc string / metadata
# dict, and ONE dict per map-like repeated field; a proto that describes the same thing twice is
# folded accordingly.  Everything else must survive unchanged.
EXPECTED_NORMALISATIONS = [
    ("E1", "a value that is both graph input and graph output: both entries read the output entry's "
           "type/shape/doc and the union of the metadata (output entry wins) [inside the theorem: mergeVI]"),
    ("E2", "a value_info entry naming a graph input is dropped (the input entry describes the value)"),
    ("E3", "a value_info entry naming a graph output produced in this graph (node output or non-input "
           "initializer): its metadata is united into the output entry (output entry wins per key), its "
           "type/shape/doc are overridden by the output entry; the value_info entry is dropped"),
    ("E4", "several graph output entries with one name: each reads the last entry's type/shape/doc and the "
           "union of their metadata (later wins); their number and positions are kept [inside the theorem: outdup]"),
    ("E5", "opset_import with a repeated domain: one entry per domain, the last version"),
    ("E6", "several value_info entries with one name: the last one counts"),
    ("E7", "external_data keys other than location/offset/length/checksum are dropped"),
    ("E8", "IR<10: a main-graph value named like the experimental entry 'domain::name/value' of a function value: "
           "nothing changes (the entry describes the graph value; the function's own entry is not written, D320)"),
]


def _expected_normalisations(g):
    """E2, E3, E4, E6 on one graph, in place (no-ops on a proto inside WFproto)."""
    in_names = {v.name for v in g.input}
    # E4
    groups = {}
    for vo in g.output:
        groups.setdefault(vo.name, []).append(vo)
    for name, vos in groups.items():
        if len(vos) > 1:
            md = {}
            for vo in vos:
                md.update({e.key: e.value for e in vo.metadata_props})
            last = copy.deepcopy(vos[-1])
            for vo in vos:
                vo.CopyFrom(last)
                del vo.metadata_props[:]
                for k, v in md.items():
                    vo.metadata_props.add(key=k, value=v)
    # E6
    by_name = {v.name: v for v in g.value_info}
    vis = [copy.deepcopy(v) for v in by_name.values()]
    # E2
    vis = [v for v in vis if v.name not in in_names]
    # E3
    declared = {t.name for t in g.initializer} | {o for n in g.node for o in n.output if o}
    rest = []
    for v in vis:
        if v.name in groups and v.name in declared:
            for vo in groups[v.name]:
                md = {e.key: e.value for e in v.metadata_props}
                md.update({e.key: e.value for e in vo.metadata_props})
                del vo.metadata_props[:]
                for k, val in md.items():
                    vo.metadata_props.add(key=k, value=val)
        else:
            rest.append(v)
    del g.value_info[:]
    g.value_info.extend(rest)


def _norm_graph(g, extra_referenced=()):
    for n in g.node:
        _norm_node(n)
    for t in g.initializer:
        _norm_tensor(t)
    _expected_normalisations(g)
    # one Value carries one entry: a graph input that is also a graph output (pass-through) reads the
    # output entry's type / doc string, and the union of both metadata maps (output entry wins)
    outs_by_name = {v.name: v for v in g.output}
    for vi in g.input:
        vo = outs_by_name.get(vi.name)
        if vo is not None:
            merged = {e.key: e.value for e in vi.metadata_props}
            merged.update({e.key: e.value for e in vo.metadata_props})
            for v in [vi] + [o for o in g.output if o.name == vi.name]:  # (all alike after E4)
                if v is vi:
                    v.type.CopyFrom(vo.type) if vo.HasField("type") else v.ClearField("type")
                    v.doc_string = vo.doc_string
                del v.metadata_props[:]
                for k in merged:
                    v.metadata_props.add(key=k, value=merged[k])
    for v in list(g.input) + list(g.output) + list(g.value_info):
        _norm_vi(v)
    _sort_entries(g.metadata_props)
    in_names = {v.name for v in g.input}
    out_names = {v.name for v in g.output}
    init = {t.name: t for t in g.initializer}
    referenced = {n for n in init if n not in in_names}
    for n in g.node:
        referenced |= {o for o in n.output if o and o not in out_names}
    by_name = {v.name: v for v in g.value_info}
    keep = {}
    for name, v in by_name.items():
        if name in init and name not in in_names:
            # the entry of an initializer is completed from the tensor where it says nothing
            keep[name] = _fill_from_tensor(v, init[name])
        elif (name in referenced or name in extra_referenced) and _vi_has_info(v):
            keep[name] = v
    outs = {v.name: v for v in g.output}
    for name, t in init.items():
        if name not in in_names and name not in keep:
            # "value-info is added for initializers": from the tensor, or from the graph output entry
            # when the initializer is itself a graph output
            keep[name] = _fill_from_tensor(outs[name], t) if name in outs else _default_vi(t)
    vis = [copy.deepcopy(keep[k]) for k in sorted(keep)]
    del g.value_info[:]
    g.value_info.extend(vis)
    for a in g.quantization_annotation:
        _sort_entries(a.quant_parameter_tensor_names)
    anns = sorted((copy.deepcopy(a) for a in g.quantization_annotation if len(a.quant_parameter_tensor_names)),
                  key=lambda a: a.tensor_name)
    del g.quantization_annotation[:]
    g.quantization_annotation.extend(anns)


def _norm_function(f):
    for n in f.node:
        _norm_node(n)
    for a in f.attribute_proto:
        _norm_attr(a)
    _sort_entries(f.metadata_props)
    names = set(f.input)
    for n in f.node:
        names |= {o for o in n.output if o}
    last = {v.name: v for v in f.value_info}  # E6: the last entry of a name counts
    vis = sorted((copy.deepcopy(v) for v in last.values() if v.name in names and _vi_has_info(v)), key=lambda v: v.name)
    for v in vis:
        _norm_vi(v)
    del f.value_info[:]
    f.value_info.extend(vis)
    ops = sorted({o.domain: o.version for o in f.opset_import}.items())  # E5
    del f.opset_import[:]
    for d, v in ops:
        f.opset_import.add(domain=d, version=v)


def _norm_model(m):
    extra = set()
    if m.ir_version < 10:
        # experimental encoding: function value info lives in the main graph as domain::name/value
        for f in m.functions:
            if f.overload:
                continue
            names = set(f.input)
            for n in f.node:
                names |= {o for o in n.output if o}
            for v in names:
                # the encoding is only defined for names that split back at the first "::" / first "/"
                # (D106): other entries address nothing and count as unreferenced
                full = f"{f.domain}::{f.name}/{v}"
                d, sep1, rest = full.partition("::")
                n, sep2, vn = rest.partition("/")
                if sep1 and sep2 and (d, n, vn) == (f.domain, f.name, v):
                    extra.add(full)
    _norm_graph(m.graph, extra)
    for f in m.functions:
        _norm_function(f)
    _sort_entries(m.metadata_props)
    ops = sorted({o.domain: o.version for o in m.opset_import}.items())  # E5
    del m.opset_import[:]
    for d, v in ops:
        m.opset_import.add(domain=d, version=v)


def py_norm(kind, p):
    q = copy.deepcopy(p)
    if kind == "vi":
        _norm_vi(q)
    elif kind == "tensor":
        _norm_tensor(q)
    elif kind == "attr":
        _norm_attr(q)
    elif kind == "node":
        _norm_node(q)
    elif kind == "graph":
        _norm_graph(q)
    elif kind == "function":
        _norm_function(q)
    elif kind == "model":
        _norm_model(q)
    _strip_defaults(q)
    return q


def is_known(ctx, sig):
    import re

    return any(k["property"] == ctx.prop and re.fullmatch(k["signature"], sig) for k in ctx._known)


def _drop_function_input_vis(kind, a):
    a = copy.deepcopy(a)
    for f in (a.functions if kind == "model" else [a]):
        keep = [v for v in f.value_info if v.name not in set(f.input)]
        if len(keep) != len(f.value_info):
            keep = copy.deepcopy(keep)
            del f.value_info[:]
            f.value_info.extend(keep)
    return a


def _all_nodes(x):
    if isinstance(x, ModelProto):
        yield from _all_nodes(x.graph)
        for f in x.functions:
            yield from _all_nodes(f)
    elif isinstance(x, (GraphProto, FunctionProto)):
        for n in x.node:
            yield from _all_nodes(n)
    elif isinstance(x, NodeProto):
        yield x
        for a in x.attribute:
            yield from _all_nodes(a)
    elif isinstance(x, AttributeProto):
        if x.HasField("g"):
            yield from _all_nodes(x.g)
        for g in x.graphs:
            yield from _all_nodes(g)


def raise_shape(kind, p):
    """input shape of a raising round trip (part of the signature)"""
    if kind == "model" and len(p.configuration) and any(
        a.ref_attr_name and a.type in (AttributeProto.GRAPH, AttributeProto.GRAPHS) for n in _all_nodes(p) for a in n.attribute
    ):
        return " device-configurations+ref-graph-attr"
    return ""


def classify(kind, p, a, b):
    """signature of an oracle failure: the specific shape of what was lost (a = norm original, b = norm result)"""
    if kind in ("function", "model") and _drop_function_input_vis(kind, a) == b:
        return f"C02 {kind} function-input-value-info-dropped"
    return f"C02 {kind} lost-or-altered {first_diff(a, b) or '?'}"


def known_divergence(ctx, kind, p, out, impl):
    """model and implementation differ: is the difference exactly one of the known findings (which the
    model has fixed)?  Checked on the rendered results, for any stream."""
    if kind in ("function", "model"):
        sig = f"C02 {kind} function-input-value-info-dropped"
        if is_known(ctx, sig) and out["ok"] and impl["ok"] and isinstance(impl["r"], dict):
            r = copy.deepcopy(out["r"])
            for f in (r["functions"] if kind == "model" else [r]):
                f["vi"] = [v for v in f["vi"] if v["name"] not in f["in"]]
            if r == impl["r"]:
                return sig
    if not impl["ok"]:
        sig = f"C02 {kind} roundtrip-raised {impl.get('exc')}" + raise_shape(kind, p)
        if raise_shape(kind, p) and is_known(ctx, sig):
            return sig
    return None


def first_diff(a, b, path=""):
    """path of the first field where two messages of the same type differ (for the signature)."""
    if a == b:
        return None
    for fd in a.DESCRIPTOR.fields:
        x, y = getattr(a, fd.name), getattr(b, fd.name)
        p = f"{path}.{fd.name}" if path else fd.name
        if _is_repeated(fd):
            if len(x) != len(y):
                return p + "#len"
            for u, v in zip(x, y):
                if u != v:
                    return first_diff(u, v, p) if fd.message_type is not None else p
        elif fd.message_type is not None:
            if a.HasField(fd.name) != b.HasField(fd.name):
                return p + "#presence"
            if x != y:
                return first_diff(x, y, p)
        else:
            if a.HasField(fd.name) != b.HasField(fd.name) or x != y:
                return p
    return path + "#unknown"


# --------------------------------------------------------------------------- generator (valid stream)

DTYPES = list(range(1, 27))
STORAGE = {  # data_type -> storage fields usable besides raw_data
    1: ["float_data"], 14: ["float_data"], 11: ["double_data"], 15: ["double_data"], 7: ["int64_data"],
    13: ["uint64_data"], 12: ["uint64_data"],
    **{d: ["int32_data"] for d in (2, 3, 4, 5, 6, 9, 10, 16, 17, 18, 19, 20, 21, 22, 23, 24, 25, 26)},
}
F32_SPECIAL = [0x00000000, 0x80000000, 0x7F800000, 0xFF800000, 0x7FC00000, 0x00000001, 0x3F800000, 0xC0490FDB, 0x7F7FFFFF]
F64_SPECIAL = [0, 0x8000000000000000, 0x7FF0000000000000, 0x7FF8000000000000, 1, 0x3FF0000000000000, 0x400921FB54442D18]
WORDS = ["a", "b", "x", "y", "w", "k", "scale", "zero", "N", "batch", "DATA_CHANNEL", "é", "中", "v_1", "a/b", "p::q", "t.0", "Z"]
DOMAINS = ["", "", "", "ai.onnx", "custom", "com.microsoft", "pkg.torch"]
OPS = ["Add", "Relu", "If", "Loop", "Identity", "MatMul", "Custom", "f", "Scan"]


class Gen:
    def __init__(self, rng):
        self.r = rng
        self.n = 0

    # ---- atoms
    def fresh(self, base="v"):
        self.n += 1
        return f"{base}{self.n}"

    def word(self):
        return self.r.choice(WORDS)

    def doc(self):
        return self.r.choice(["", "", "", "doc", "a longer doc string\nwith a newline", "é"])

    def den(self):
        return self.r.choice(["", "", "", "TENSOR", "IMAGE", "DATA_BATCH", "é"])

    def entries(self, rep, hi=3):
        keys = self.r.sample(WORDS, self.r.choice([0, 0, 1, 2, hi]))
        for k in keys:
            rep.add(key=k, value=self.r.choice(["", "1", "v", k, "é"]))

    def f32(self):
        bits = self.r.choice(F32_SPECIAL) if self.r.random() < 0.4 else self.r.getrandbits(32)
        if (bits & 0x7F800000) == 0x7F800000 and (bits & 0x007FFFFF) and not (bits & 0x00400000):
            bits |= 0x00400000  # signalling NaN -> quiet (float<->double conversion in protobuf is outside serde)
        return struct.unpack("<f", struct.pack("<I", bits))[0]

    def f64(self):
        bits = self.r.choice(F64_SPECIAL) if self.r.random() < 0.4 else self.r.getrandbits(64)
        return struct.unpack("<d", struct.pack("<Q", bits))[0]

    def i64(self):
        return self.r.choice([0, 1, -1, 7, 2**63 - 1, -(2**63), self.r.randrange(-1000, 1000)])

    # ---- dims / shapes / types
    def dim(self, d):
        c = self.r.randrange(4)
        if c == 0:
            d.dim_value = self.r.choice([0, 1, 2, 3, 224, -1, 2**40])
        elif c == 1:
            d.dim_param = self.r.choice(["N", "batch", "", "seq_len + 1", "é"])
        elif c == 2 and self.r.random() < 0.3:
            d.dim_value = 0
        if self.r.random() < 0.3:
            d.denotation = self.r.choice(["DATA_BATCH", "DATA_CHANNEL", "é"])

    def shape(self, tt):
        c = self.r.randrange(5)
        if c == 0:
            return  # no shape
        tt.shape.ClearField("dim")  # present, rank 0
        for _ in range(self.r.choice([0, 1, 2, 3, 4])):
            self.dim(tt.shape.dim.add())

    def type(self, t, depth=0, allow_unset=False):
        if self.r.random() < 0.35:
            d = self.den()
            if d:
                t.denotation = d
        c = self.r.randrange(6 if depth < 3 else 3)
        if c in (0, 1, 2):
            tt = t.sparse_tensor_type if c == 2 and self.r.random() < 0.5 else t.tensor_type
            tt.elem_type = self.r.choice(DTYPES + [0])
            self.shape(tt)
        elif c in (3, 4):
            self.type(t.sequence_type.elem_type, depth + 1)
        else:
            self.type(t.optional_type.elem_type, depth + 1)

    def vi(self, v, name, typed=None):
        v.name = name
        if typed is None:
            typed = self.r.random() < 0.85
        if typed:
            self.type(v.type)
        if self.r.random() < 0.25:
            v.doc_string = self.doc()
        if self.r.random() < 0.3:
            self.entries(v.metadata_props)

    # ---- tensors
    def tensor(self, t, name=None, allow_external=True):
        if name is None:
            name = self.r.choice(["", self.word()])
        if name:
            t.name = name
        if self.r.random() < 0.2:
            t.doc_string = self.doc()
        if self.r.random() < 0.35:
            self.entries(t.metadata_props)
        dt = self.r.choice(DTYPES)
        t.data_type = dt
        n = self.r.choice([0, 1, 2, 3, 6])
        c = self.r.random()
        if allow_external and c < 0.15:
            t.dims.extend([n])
            t.data_location = TensorProto.EXTERNAL
            ents = [("location", self.r.choice(["w.bin", "data/w.bin", "é.bin", ""]))]
            if self.r.random() < 0.7:
                ents.append(("offset", str(self.r.choice([0, 4096, 123456789012]))))
            if self.r.random() < 0.7:
                ents.append(("length", str(self.r.choice([0, 4, 10**12]))))
            if self.r.random() < 0.4:
                ents.append(("checksum", "da39a3ee5e6b4b0d3255bfef95601890afd80709"))
            self.r.shuffle(ents)
            for k, v in ents:
                t.external_data.add(key=k, value=v)
            return
        if dt == 8:
            t.dims.extend([n])
            for _ in range(n):
                t.string_data.append(self.r.choice([b"", b"abc", "é".encode(), b"\xff\xfe", b"\x00"]))
            return
        if self.r.random() < 0.3:
            t.dims.extend(self.r.choice([[n], [1, n], [n, 1, 1]]))
        elif n != 1 or self.r.random() < 0.5:
            t.dims.extend([n])
        else:
            n = 1  # scalar: no dims
        if c < 0.55:
            import onnx_ir as ir

            nbytes = (n * ir.DataType(dt).bitwidth + 7) // 8
            t.raw_data = bytes(self.r.getrandbits(8) for _ in range(nbytes))
            return
        field = self.r.choice(STORAGE[dt])
        if field == "float_data":
            t.float_data.extend(self.f32() for _ in range(n * (2 if dt == 14 else 1)))
        elif field == "double_data":
            t.double_data.extend(self.f64() for _ in range(n * (2 if dt == 15 else 1)))
        elif field == "int64_data":
            t.int64_data.extend(self.i64() for _ in range(n))
        elif field == "uint64_data":
            t.uint64_data.extend(self.r.choice([0, 1, 2**32 - 1, 2**64 - 1 if dt == 13 else 5]) for _ in range(n))
        else:
            t.int32_data.extend(self.r.choice([0, 1, 127, 255, -1 if dt in (3, 5, 6) else 3, 2**31 - 1 if dt == 6 else 2]) for _ in range(n))

    # ---- attributes / nodes / graphs
    def attr(self, a, name, scopes, depth, in_function=False, ir_version=13):
        a.name = name
        if self.r.random() < 0.2:
            a.doc_string = self.doc()
        kinds = ["f", "i", "s", "t", "floats", "ints", "strings", "tensors", "tp", "type_protos"]
        if depth < 2:
            kinds += ["g", "g", "graphs"]
        # reference attributes: mostly in function bodies, but serde accepts them anywhere
        kinds += ["ref", "ref"] if in_function else ["ref"]
        k = self.r.choice(kinds)
        if k == "ref":
            a.ref_attr_name = self.r.choice(["alpha", "beta", "é"])
            a.type = self.r.choice(list(range(0, 15)))  # incl. UNDEFINED and the sparse tensor types
        elif k == "f":
            a.type = AttributeProto.FLOAT
            a.f = self.f32()
        elif k == "i":
            a.type = AttributeProto.INT
            a.i = self.i64()
        elif k == "s":
            a.type = AttributeProto.STRING
            a.s = self.r.choice([b"", b"abc", "é中".encode(), b"\xff\xfe\x00"])
        elif k == "t":
            a.type = AttributeProto.TENSOR
            self.tensor(a.t)
        elif k == "floats":
            a.type = AttributeProto.FLOATS
            a.floats.extend(self.f32() for _ in range(self.r.randrange(4)))
        elif k == "ints":
            a.type = AttributeProto.INTS
            a.ints.extend(self.i64() for _ in range(self.r.randrange(4)))
        elif k == "strings":
            a.type = AttributeProto.STRINGS
            a.strings.extend(self.r.choice([b"", b"abc", "é".encode()]) for _ in range(self.r.randrange(4)))
        elif k == "tensors":
            a.type = AttributeProto.TENSORS
            for _ in range(self.r.randrange(3)):
                self.tensor(a.tensors.add())
        elif k == "tp":
            a.type = AttributeProto.TYPE_PROTO
            if self.r.random() < 0.9:
                self.type(a.tp)
        elif k == "type_protos":
            a.type = AttributeProto.TYPE_PROTOS
            for _ in range(self.r.randrange(3)):
                self.type(a.type_protos.add())
        elif k == "g":
            a.type = AttributeProto.GRAPH
            self.graph(a.g, scopes, depth + 1, ir_version)
        elif k == "graphs":
            a.type = AttributeProto.GRAPHS
            for _ in range(self.r.randrange(3)):
                self.graph(a.graphs.add(), scopes, depth + 1, ir_version)

    def devcfg(self, c, visible):
        c.configuration_id = self.r.choice(["cfg0", "cfg1", "dangling_cfg"])
        if self.r.random() < 0.5:
            c.pipeline_stage = self.r.choice([0, 1, 3])
        for _ in range(self.r.randrange(3)):
            s = c.sharding_spec.add()
            s.tensor_name = self.r.choice(visible) if visible and self.r.random() < 0.9 else "unknown_tensor"
            s.device.extend(self.r.sample(range(4), self.r.randrange(3)))
            for _ in range(self.r.randrange(2)):
                e = s.index_to_device_group_map.add()
                e.key = self.r.randrange(4)
                e.value.extend([0, 1][: self.r.randrange(3)])
            for _ in range(self.r.randrange(3)):
                d = s.sharded_dim.add()
                d.axis = self.r.choice([0, 1, -1])
                for _ in range(self.r.randrange(3)):
                    x = d.simple_sharding.add()
                    c2 = self.r.randrange(3)
                    if c2 == 0:
                        x.dim_value = self.r.choice([0, 8])
                    elif c2 == 1:
                        x.dim_param = self.r.choice(["N", ""])
                    x.num_shards = self.r.choice([1, 2, 4])

    def node(self, n, scopes, outs, depth, in_function=False, ir_version=13):
        """scopes: list of name lists, innermost last; outs: this node's output names"""
        visible = [x for sc in scopes for x in sc]
        n.op_type = self.r.choice(OPS)
        d = self.r.choice(DOMAINS)
        if d:
            n.domain = d
        if self.r.random() < 0.7:
            n.name = self.fresh("node")
        if self.r.random() < 0.15:
            n.overload = self.r.choice(["ov1", "ov2"])
        if self.r.random() < 0.2:
            n.doc_string = self.doc()
        if self.r.random() < 0.3:
            self.entries(n.metadata_props)
        for _ in range(self.r.randrange(4)):
            if visible and self.r.random() < 0.85:
                n.input.append(self.r.choice(visible))
            else:
                n.input.append("")
        n.output.extend(outs)
        names = self.r.sample(["alpha", "beta", "gamma", "body", "then_branch", "else_branch", "axis", "é"], self.r.randrange(4))
        for nm in names:
            self.attr(n.attribute.add(), nm, scopes, depth, in_function, ir_version)
        if ir_version >= 11 and self.r.random() < 0.25:
            for _ in range(self.r.choice([1, 2])):
                self.devcfg(n.device_configurations.add(), visible)

    def node_outputs(self):
        k = self.r.choice([0, 1, 1, 1, 2, 3])
        outs = [self.fresh() for _ in range(k)]
        if outs and self.r.random() < 0.15:
            outs.insert(self.r.randrange(len(outs)), "")  # interior optional output
        if self.r.random() < 0.15:
            outs += [""] * self.r.choice([1, 2])  # trailing unnamed outputs
        return outs

    def graph(self, g, scopes, depth=0, ir_version=13):
        if self.r.random() < 0.8:
            g.name = self.fresh("graph")
        if self.r.random() < 0.2:
            g.doc_string = self.doc()
        if self.r.random() < 0.3:
            self.entries(g.metadata_props)
        in_names = [self.fresh("in") for _ in range(self.r.randrange(3))]
        outer_names = [x for sc in scopes for x in sc]
        if depth and outer_names and self.r.random() < 0.25:
            # shadowing: a subgraph input named like a value of an enclosing scope (innermost wins)
            in_names.append(self.r.choice(outer_names))
        for nm in in_names:
            self.vi(g.input.add(), nm)
        init_names = [self.fresh("w") for _ in range(self.r.randrange(3))]
        if in_names and self.r.random() < 0.3:
            init_names.append(self.r.choice(in_names))  # initializer for an input (default value)
        self.r.shuffle(init_names)
        for nm in init_names:
            self.tensor(g.initializer.add(), nm)
        nnodes = self.r.randrange(4 if depth else 6)
        node_outs = [self.node_outputs() for _ in range(nnodes)]
        if depth and self.r.random() < 0.2:
            # shadowing by a node output: a subgraph node produces a name that an enclosing scope declares too
            free = [x for x in dict.fromkeys(outer_names) if x not in in_names and x not in init_names]
            slots = [(i, j) for i, os_ in enumerate(node_outs) for j, o in enumerate(os_) if o]
            if free and slots:
                i, j = self.r.choice(slots)
                node_outs[i][j] = self.r.choice(free)
        declared = in_names + [n for n in init_names if n not in in_names] + [o for os_ in node_outs for o in os_ if o]
        order = list(range(nnodes))
        if self.r.random() < 0.2:
            self.r.shuffle(order)  # unsorted graphs are legal input for serde
        for i in order:
            self.node(g.node.add(), scopes + [declared], node_outs[i], depth, False, ir_version)
        produced = [o for i in order for o in node_outs[i] if o]
        out_names = self.r.sample(produced, min(len(produced), self.r.randrange(3)))
        outer = [x for sc in scopes for x in sc if x not in declared]
        if depth and outer and self.r.random() < 0.3:
            out_names.append(self.r.choice(outer))  # a subgraph returning an outer value
        for nm in dict.fromkeys(out_names):
            self.vi(g.output.add(), nm)
        only_init = [n for n in init_names if n not in in_names]
        if g.input and self.r.random() < 0.08:
            # pass-through: an input that is an output.  Half of the time the output entry differs from
            # the input entry (checker-valid): one Value carries one entry, the output entry wins
            src = self.r.choice(list(g.input))
            if self.r.random() < 0.5:
                g.output.add().CopyFrom(src)
            else:
                self.vi(g.output.add(), src.name)
            out_names.append(g.output[-1].name)
        if only_init and self.r.random() < 0.08:
            nm = self.r.choice(only_init)  # a constant output: an initializer that is an output
            self.vi(g.output.add(), nm)
            out_names.append(nm)
        # value_info: some intermediate outputs, some initializers, some unreferenced names
        cand = [o for o in produced if o not in out_names] + [n for n in only_init if n not in out_names]
        vi_names = [c for c in cand if self.r.random() < 0.5]
        if self.r.random() < 0.3:
            vi_names.append(self.fresh("unreferenced"))
        self.r.shuffle(vi_names)
        for nm in vi_names:
            self.vi(g.value_info.add(), nm, typed=None if self.r.random() < 0.9 else False)
        ann = list(declared)  # incl. pass-through inputs and constant outputs (the D29 shape)
        for nm in self.r.sample(ann, min(len(ann), self.r.choice([0, 0, 1, 2]))):
            a = g.quantization_annotation.add()
            a.tensor_name = nm
            for k in self.r.sample(["SCALE_TENSOR", "ZERO_POINT_TENSOR", "é"], self.r.choice([1, 2])):
                a.quant_parameter_tensor_names.add(key=k, value=self.word())

    def function(self, f, ident, ir_version):
        f.domain, f.name, ov = ident
        if ov:
            f.overload = ov
        if self.r.random() < 0.3:
            f.doc_string = self.doc()
        if self.r.random() < 0.3:
            self.entries(f.metadata_props)
        for d, v in self.r.sample([("", 18), ("custom", 1), ("ai.onnx", 17), ("com.microsoft", 1)], self.r.randrange(3)):
            f.opset_import.add(domain=d, version=v)
        ins = [self.fresh("fin") for _ in range(self.r.randrange(3))]
        f.input.extend(ins)
        anames = self.r.sample(["alpha", "beta", "gamma", "delta"], self.r.randrange(4))
        for nm in anames:
            if self.r.random() < 0.5:
                f.attribute.append(nm)
            else:
                a = f.attribute_proto.add()
                while True:
                    a.Clear()
                    self.attr(a, nm, [], 2, False, ir_version)
                    if not a.ref_attr_name:
                        break
        nnodes = self.r.randrange(4)
        node_outs = [self.node_outputs() for _ in range(nnodes)]
        declared = ins + [o for os_ in node_outs for o in os_ if o]
        for i in range(nnodes):
            self.node(f.node.add(), [declared], node_outs[i], 0, True, ir_version)
        f.output.extend(self.r.sample(declared, min(len(declared), self.r.randrange(3))))
        if ir_version < 10 and self.r.random() < 0.3:
            # value names containing the separators of the experimental encoding ("/block/Add_output_0")
            ren = {d: self.r.choice(["/blk/", "x::", "a/b::c/"]) + d for d in declared if self.r.random() < 0.5}
            f.input[:] = [ren.get(x, x) for x in f.input]
            f.output[:] = [ren.get(x, x) for x in f.output]

            def rename_nodes(nodes):
                # also inside subgraphs: they capture the function's values (generated names are
                # globally fresh, so no subgraph declares one of the renamed names itself)
                for n in nodes:
                    n.input[:] = [ren.get(x, x) for x in n.input]
                    n.output[:] = [ren.get(x, x) for x in n.output]
                    for c in n.device_configurations:
                        for sp in c.sharding_spec:
                            sp.tensor_name = ren.get(sp.tensor_name, sp.tensor_name)
                    for a in n.attribute:
                        for sub in ([a.g] if a.HasField("g") else []) + list(a.graphs):
                            rename_nodes(sub.node)
                            for v in list(sub.output) + list(sub.input) + list(sub.value_info) + list(sub.initializer):
                                v.name = ren.get(v.name, v.name)
                            for q in sub.quantization_annotation:
                                q.tensor_name = ren.get(q.tensor_name, q.tensor_name)

            rename_nodes(f.node)
            declared = [ren.get(x, x) for x in declared]
        vis = [c for c in declared if self.r.random() < 0.5]
        self.r.shuffle(vis)
        return vis  # names that get value info (placed by the caller according to the IR version)

    def model(self, m):
        ir_version = self.r.choice([3, 4, 5, 6, 7, 8, 9, 9, 10, 10, 11, 11, 12, 13, 13])
        m.ir_version = ir_version
        if self.r.random() < 0.6:
            m.producer_name = self.r.choice(["pytorch", "é"])
        if self.r.random() < 0.4:
            m.producer_version = "2.1"
        if self.r.random() < 0.2:
            m.domain = "ai.example"
        if self.r.random() < 0.3:
            m.model_version = self.r.choice([1, 2**40])
        if self.r.random() < 0.3:
            m.doc_string = self.doc()
        if self.r.random() < 0.4:
            self.entries(m.metadata_props)
        for d, v in self.r.sample([("", 18), ("custom", 1), ("ai.onnx", 17), ("com.microsoft", 1), ("ai.onnx.ml", 3)], self.r.randrange(1, 4)):
            m.opset_import.add(domain=d, version=v)
        if ir_version >= 11 and self.r.random() < 0.5:
            for nm in self.r.sample(["cfg0", "cfg1", "cfg2"], self.r.choice([1, 2])):
                c = m.configuration.add()
                c.name = nm
                c.num_devices = self.r.choice([0, 1, 2, 4])
                c.device.extend(["CPU", "CUDA:0", "é"][: self.r.randrange(4)])
        self.graph(m.graph, [], 0, ir_version)
        idents = self.r.sample([("custom", "f", ""), ("custom", "f", "ov1"), ("custom", "f", "ov2"), ("", "g", ""),
                                ("pkg.torch", "h", ""), ("ai.onnx", "k", ""), ("a::b", "n", ""), ("pkg", "m/n", "")],
                               self.r.choice([0, 0, 1, 2, 3]))
        for ident in idents:
            f = m.functions.add()
            vis = self.function(f, ident, ir_version)
            if ir_version >= 10:
                for nm in vis:
                    self.vi(f.value_info.add(), nm)
            elif not ident[2] and self.r.random() < 0.7:
                for nm in vis:
                    self.vi(m.graph.value_info.add(), f"{ident[0]}::{ident[1]}/{nm}", typed=None)
                if self.r.random() < 0.2:  # entries that address nothing
                    self.vi(m.graph.value_info.add(), f"{ident[0]}::{ident[1]}/no_such_value")
                    self.vi(m.graph.value_info.add(), "no::such_function/x")
        return ir_version


def gen_case(rng, kind):
    g = Gen(rng)
    p = KINDS[kind]()
    if kind == "dim":
        g.dim(p)
    elif kind == "type":
        if rng.random() < 0.95:
            g.type(p)
    elif kind == "vi":
        g.vi(p, g.word())
    elif kind == "tensor":
        g.tensor(p)
    elif kind == "attr":
        g.attr(p, g.word(), [], 1)
    elif kind == "node":
        # a stand-alone node: free inputs (deserialize_node creates placeholder values for them; the
        # subgraphs of the node may capture them)
        outs = g.node_outputs()
        free = [g.fresh("free") for _ in range(rng.randrange(3))]
        g.node(p, [[o for o in outs if o] + free], outs, 1)
        if rng.random() < 0.9:
            for nm in free:
                if nm not in p.input:
                    p.input.append(nm)
    elif kind == "graph":
        g.graph(p, [], 0)
    elif kind == "function":
        for nm in g.function(p, rng.choice([("custom", "f", ""), ("custom", "f", "ov1"), ("", "g", "")]), 13):
            g.vi(p.value_info.add(), nm)
    elif kind == "model":
        g.model(p)
    return p


# --------------------------------------------------------------------------- invalid / edge stream


def mutate(rng, kind, p):
    """Field-level mutations that leave the supported/well-formed set (correspondence only)."""
    p = copy.deepcopy(p)
    what = []

    def graphs_of(x):
        if isinstance(x, ModelProto):
            yield from graphs_of(x.graph)
            for f in x.functions:
                for n in f.node:
                    yield from graphs_of(n)
        elif isinstance(x, GraphProto):
            yield x
            for n in x.node:
                yield from graphs_of(n)
        elif isinstance(x, (NodeProto,)):
            for a in x.attribute:
                yield from graphs_of(a)
        elif isinstance(x, AttributeProto):
            if x.HasField("g"):
                yield from graphs_of(x.g)
            for g in x.graphs:
                yield from graphs_of(g)
        elif isinstance(x, FunctionProto):
            for n in x.node:
                yield from graphs_of(n)

    def nodes_of(x):
        if isinstance(x, ModelProto):
            for f in x.functions:
                yield from f.node
        if isinstance(x, FunctionProto):
            yield from x.node
        if isinstance(x, NodeProto):
            yield x
        for g in graphs_of(x):
            yield from g.node

    gs = list(graphs_of(p))
    ns = list(nodes_of(p))
    for _ in range(rng.choice([1, 1, 2, 3])):
        c = rng.randrange(17)
        if c == 0 and ns:
            n = rng.choice(ns)
            n.input.append("dangling_" + str(rng.randrange(3)))
            what.append("dangling-input")
        elif c == 1 and ns:
            a, b = rng.choice(ns), rng.choice(ns)
            if len(a.output):
                b.output.append(rng.choice(list(a.output)))
                what.append("redeclared-output")
        elif c == 2 and gs:
            g = rng.choice(gs)
            if len(g.input):
                g.output.add().CopyFrom(rng.choice(list(g.input)))
                what.append("input-as-output")
        elif c == 3 and gs:
            g = rng.choice(gs)
            if len(g.input) and len(g.output):
                v = g.value_info.add()
                v.CopyFrom(rng.choice(list(g.input) + list(g.output)))
                v.metadata_props.add(key="extra", value="1")
                what.append("value-info-for-io")
        elif c == 4 and gs:
            g = rng.choice(gs)
            if len(g.initializer):
                t = g.initializer.add()
                t.CopyFrom(rng.choice(list(g.initializer)[:-1]))
                t.doc_string = "duplicate"
                what.append("duplicate-initializer")
        elif c == 5 and gs:
            g = rng.choice(gs)
            if len(g.initializer):
                t = rng.choice(list(g.initializer))
                t.name = ""
                what.append("unnamed-initializer")
        elif c == 6 and gs:
            g = rng.choice(gs)
            if len(g.initializer):
                g.output.add().name = rng.choice(list(g.initializer)).name
                what.append("initializer-as-output")
        elif c == 7 and ns:
            n = rng.choice(ns)
            if len(n.attribute):
                a = n.attribute.add()
                a.CopyFrom(rng.choice(list(n.attribute)[:-1]))
                a.doc_string = "shadowing duplicate"
                what.append("duplicate-attribute")
        elif c == 8 and ns:
            n = rng.choice(ns)
            a = n.attribute.add()
            a.name = "weird"
            k = rng.randrange(4)
            if k == 0:
                a.type = AttributeProto.SPARSE_TENSOR
            elif k == 1:
                pass  # UNDEFINED
            elif k == 2:
                a.type = AttributeProto.STRINGS
                a.strings.append(b"\xff")
            else:
                a.type = AttributeProto.TYPE_PROTO
                a.tp.map_type.key_type = 7
            what.append("unsupported-attribute")
        elif c == 9 and gs:
            g = rng.choice(gs)
            vs = list(g.input) + list(g.output) + list(g.value_info)
            if vs:
                v = rng.choice(vs)
                k = rng.randrange(4)
                if k == 0:
                    v.type.Clear()
                    v.type.tensor_type.shape.dim.add().dim_value = 3  # shape without elem_type
                elif k == 1:
                    v.type.Clear()
                    v.type.sequence_type.SetInParent()  # sequence without elem_type
                elif k == 2:
                    v.type.Clear()
                    v.type.tensor_type.elem_type = 99
                else:
                    v.type.Clear()
                    v.type.denotation = "ONLY_DENOTATION"
                what.append("bad-type")
        elif c == 10 and gs:
            g = rng.choice(gs)
            if len(g.initializer):
                t = rng.choice(list(g.initializer))
                k = rng.randrange(4)
                if k == 0:
                    t.data_type = 99
                elif k == 1 and t.data_location == TensorProto.EXTERNAL:
                    t.external_data.add(key="offset", value=rng.choice(["-1", "x", "007", ""]))
                elif k == 2:
                    t.metadata_props.add(key="dup", value="1")
                    t.metadata_props.add(key="dup", value="2")
                else:
                    t.data_type = 0
                what.append("bad-tensor")
        elif c == 11 and gs:
            g = rng.choice(gs)
            a = g.quantization_annotation.add()
            a.tensor_name = rng.choice(["nowhere"] + [v.name for v in g.input])
            if rng.random() < 0.5:
                a.quant_parameter_tensor_names.add(key="SCALE_TENSOR", value="s")
            what.append("odd-annotation")
        elif c == 12 and gs:
            g = rng.choice(gs)
            if len(g.input):
                v = g.input.add()
                v.CopyFrom(rng.choice(list(g.input)[:-1]))
                v.doc_string = "duplicate"
                what.append("duplicate-input")
        elif c == 13 and isinstance(p, ModelProto) and len(p.functions):
            p.functions.add().CopyFrom(rng.choice(list(p.functions)))
            what.append("duplicate-function")
        elif c == 14 and isinstance(p, (ModelProto, FunctionProto)):
            fs = list(p.functions) if isinstance(p, ModelProto) else [p]
            if fs:
                rng.choice(fs).output.append("not_declared")
                what.append("function-output-undeclared")
        elif c == 16 and isinstance(p, ModelProto) and len(p.functions):
            # function value_info below IR 10 (it is moved into the main graph, when representable)
            if p.ir_version >= 10:
                p.ir_version = rng.choice([7, 8, 9])
            f = rng.choice(list(p.functions))
            names = list(f.input) + [o for n in f.node for o in n.output if o]
            for nm in names[:3]:
                v = f.value_info.add()
                v.name = nm
                v.type.tensor_type.elem_type = 1
                v.doc_string = "fn"
            what.append("ir9-function-value-info")
        elif c == 15 and gs:
            g = rng.choice(gs)
            g.metadata_props.add(key="dup", value="1")
            g.metadata_props.add(key="dup", value="2")
            if len(g.output):
                g.output.add().CopyFrom(g.output[0])
            what.append("duplicate-keys")
    return p, what


# --------------------------------------------------------------------------- edge stream


def _graphs_of(x):
    if isinstance(x, ModelProto):
        yield from _graphs_of(x.graph)
        for f in x.functions:
            yield from _graphs_of(f)
    elif isinstance(x, GraphProto):
        yield x
        for n in x.node:
            yield from _graphs_of(n)
    elif isinstance(x, FunctionProto):
        for n in x.node:
            yield from _graphs_of(n)
    elif isinstance(x, NodeProto):
        for a in x.attribute:
            yield from _graphs_of(a)
    elif isinstance(x, AttributeProto):
        if x.HasField("g"):
            yield from _graphs_of(x.g)
        for g in x.graphs:
            yield from _graphs_of(g)


def edge_external(rng, t):
    """E7 on one external tensor: an unspecified key, or a repeated specified key (the last entry counts)."""
    if rng.random() < 0.5:
        e = t.external_data.add(key=rng.choice(["basepath", "foo"]), value="/x")
        if rng.random() < 0.5:  # not at the end
            es = [(x.key, x.value) for x in t.external_data]
            rng.shuffle(es)
            del t.external_data[:]
            for k, v in es:
                t.external_data.add(key=k, value=v)
        return "E7:extra-external-key"
    k = rng.choice(["location", "offset", "length", "checksum"])
    v = {"location": "other.bin", "offset": str(rng.choice([0, 8, 4096])), "length": str(rng.choice([0, 16])),
         "checksum": "abc"}[k]
    if rng.random() < 0.5:
        t.external_data.add(key=k, value=v)
    else:
        es = [(k, v)] + [(x.key, x.value) for x in t.external_data]
        del t.external_data[:]
        for kk, vv in es:
            t.external_data.add(key=kk, value=vv)
    return "E7:repeated-external-key"


def edge(rng, kind, p):
    """Supported protos outside WFproto: the same thing described twice.  The oracle runs on them with
    EXPECTED_NORMALISATIONS (E2..E7); correspondence as everywhere."""
    p = copy.deepcopy(p)
    gen = Gen(rng)
    what = []
    if kind == "tensor":
        if p.data_location == TensorProto.EXTERNAL:
            for _ in range(rng.choice([1, 1, 2])):
                what.append(edge_external(rng, p))
        return p, what
    gs = list(_graphs_of(p))
    fs = (list(p.functions) if isinstance(p, ModelProto) else []) + ([p] if isinstance(p, FunctionProto) else [])
    if isinstance(p, ModelProto) and p.ir_version < 10 and rng.random() < 0.25:
        # E8 (D320): a value of the main graph whose name is the experimental entry name of a function value.
        # On load the entry is attached to both; on save the function's entry is not written (reserved name).
        cands = [(f, v) for f in p.functions if not f.overload
                 for v in list(f.input) + [o for n in f.node for o in n.output if o]]
        if cands:
            f, v = rng.choice(cands)
            full = f"{f.domain}::{f.name}/{v}"
            if full not in {o for n in p.graph.node for o in n.output}:
                p.graph.node.add(op_type="Custom", name="e8", output=[full])
                if full not in {x.name for x in p.graph.value_info} or rng.random() < 0.5:
                    gen.vi(p.graph.value_info.add(), full, typed=True)
                what.append("E8:ir9-graph-value-named-like-function-entry")
                if rng.random() < 0.5:
                    return p, what  # E8 alone (inside C02_model_ir9); otherwise combined with the families below
    for _ in range(rng.choice([1, 1, 2])):
        c = rng.randrange(8)
        g = rng.choice(gs) if gs else None
        if c == 7:
            fs_vi = [f for f in fs if len(f.value_info)]
            if fs_vi:
                f = rng.choice(fs_vi)
                nm = rng.choice(list(f.value_info)).name  # (before .add(): the new, still unnamed entry is not a candidate)
                gen.vi(f.value_info.add(), nm)
                what.append("E6:duplicate-function-value-info")
            continue
        if c == 0 and g is not None and g.input:
            gen.vi(g.value_info.add(), rng.choice(list(g.input)).name)
            what.append("E2:value-info-for-input")
        elif c == 1 and g is not None:
            declared = {t.name for t in g.initializer} | {o for n in g.node for o in n.output if o}
            ins = {v.name for v in g.input}
            cand = [v.name for v in g.output if v.name in declared and v.name not in ins and v.HasField("type")]
            if cand:
                gen.vi(g.value_info.add(), rng.choice(cand))
                what.append("E3:value-info-for-output")
        elif c == 2 and g is not None:
            declared = {t.name for t in g.initializer} | {o for n in g.node for o in n.output if o} | {v.name for v in g.input}
            cand = [v.name for v in g.output if v.name in declared]
            if cand:
                gen.vi(g.output.add(), rng.choice(cand), typed=True)
                what.append("E4:duplicate-output")
        elif c == 3:
            holders = ([p] if isinstance(p, (ModelProto, FunctionProto)) else []) + (list(p.functions) if isinstance(p, ModelProto) else [])
            holders = [h for h in holders if len(h.opset_import)]
            if holders:
                h = rng.choice(holders)
                o = rng.choice(list(h.opset_import))
                h.opset_import.add(domain=o.domain, version=o.version + rng.choice([-1, 1, 0]))
                what.append("E5:duplicate-opset")
        elif c == 4 and g is not None and g.value_info:
            nm = rng.choice(list(g.value_info)).name
            gen.vi(g.value_info.add(), nm)
            what.append("E6:duplicate-value-info")
        elif c == 5:
            ts = [t for g_ in gs for t in g_.initializer if t.data_location == TensorProto.EXTERNAL]
            ts += [a.t for n in _all_nodes(p) for a in n.attribute if a.HasField("t") and a.t.data_location == TensorProto.EXTERNAL]
            if ts:
                what.append(edge_external(rng, rng.choice(ts)))
        elif c == 6 and g is not None and g.input and g.output:
            # E1 together with E4 / E2: a pass-through with two output entries or a value_info entry
            src = rng.choice(list(g.input))
            gen.vi(g.output.add(), src.name, typed=True)
            if rng.random() < 0.5:
                gen.vi(g.value_info.add(), src.name)
            what.append("E1:pass-through-again")
    return p, what


# --------------------------------------------------------------------------- restated initializers
#
# The value_info / input / output entry of an initializer that RESTATES the tensor (elem_type = data_type, one
# static dim per tensor dim) and says something the tensor cannot say: a TypeProto.denotation and/or
# per-dimension denotations (with and without metadata / doc string).  serialize_graph_into writes exactly
# such an entry (without denotations) for every weight, so "this entry tells nothing new" is the tempting
# shortcut on load; the random stream above almost never hits the tensor's own dtype AND shape.

TYPE_DENOTATIONS = ["TENSOR", "IMAGE", "AUDIO", "TEXT", "é"]
DIM_DENOTATIONS = ["DATA_BATCH", "DATA_CHANNEL", "DATA_TIME", "DATA_FEATURE", "FILTER_IN_CHANNEL",
                   "FILTER_OUT_CHANNEL", "FILTER_SPATIAL", "é"]
RESTATED_DEN = ["none", "type", "dims", "both"]
RESTATED_EXTRA = ["none", "meta", "doc", "meta+doc"]


def restating_entry(rng, v, name, t, den, extra):
    """v := the entry that repeats tensor t (+ denotations `den`, + `extra`).  Returns the den mode actually used
    (a rank-0 tensor has no dimension to denote)."""
    v.Clear()
    v.name = name
    tt = v.type.tensor_type
    tt.elem_type = t.data_type
    tt.shape.SetInParent()  # present, also for rank 0 (that is what the tensor says)
    for d in t.dims:
        tt.shape.dim.add().dim_value = d
    if den in ("dims", "both") and not len(t.dims):
        den = "type" if den == "both" or rng.random() < 0.5 else "none"
    if den in ("type", "both"):
        v.type.denotation = rng.choice(TYPE_DENOTATIONS)
    if den in ("dims", "both"):
        dims = list(tt.shape.dim)
        some = dims if rng.random() < 0.5 else rng.sample(dims, rng.randrange(1, len(dims) + 1))
        for d in some:
            d.denotation = rng.choice(DIM_DENOTATIONS)
    if "meta" in extra:
        for k in rng.sample(WORDS, rng.choice([1, 2])):
            v.metadata_props.add(key=k, value=rng.choice(["", "1", k, "é"]))
    if "doc" in extra:
        v.doc_string = rng.choice(["doc", "a longer doc string\nwith a newline", "é"])
    return den


def _graphs_with_depth(x, depth=0):
    if isinstance(x, ModelProto):
        yield from _graphs_with_depth(x.graph, 0)
        for f in x.functions:
            yield from _graphs_with_depth(f, 0)
    elif isinstance(x, GraphProto):
        yield x, depth
        for n in x.node:
            yield from _graphs_with_depth(n, depth + 1)
    elif isinstance(x, FunctionProto):
        for n in x.node:
            yield from _graphs_with_depth(n, depth + 1)
    elif isinstance(x, NodeProto):
        for a in x.attribute:
            yield from _graphs_with_depth(a, depth)
    elif isinstance(x, AttributeProto):
        if x.HasField("g"):
            yield from _graphs_with_depth(x.g, depth)
        for g in x.graphs:
            yield from _graphs_with_depth(g, depth)


def restate(rng, kind, p, counts):
    """Rewrite the entries of (most) named initializers of every graph in p so that they restate their tensor.
    plain initializer -> its value_info entry; initializer for a graph input -> the input entry (and sometimes an
    E2 value_info entry next to it, never read); initializer that is a graph output -> the output entries.
    Returns (proto, stream, label) or None when p has no named initializer."""
    p = copy.deepcopy(p)
    tags, edge_what = [], []
    for g, depth in _graphs_with_depth(p, 1 if kind in ("node", "attr", "function") else 0):
        where = "main" if depth == 0 else "sub"
        in_names = {v.name for v in g.input}
        out_names = {v.name for v in g.output}
        seen = set()
        for t in g.initializer:
            if not t.name or t.name in seen or rng.random() < 0.2:
                continue
            seen.add(t.name)
            den, extra = rng.choice(RESTATED_DEN), rng.choice(RESTATED_EXTRA + ["none", "none"])
            if t.name in in_names:
                role = "input"
                for v in g.input:
                    if v.name == t.name:
                        den = restating_entry(rng, v, t.name, t, den, extra)
                if rng.random() < 0.3:
                    restating_entry(rng, g.value_info.add(), t.name, t, rng.choice(RESTATED_DEN), rng.choice(RESTATED_EXTRA))
                    edge_what.append("E2:value-info-for-input")
            elif t.name in out_names:
                role = "output"
                first = None
                for v in g.output:
                    if v.name == t.name:
                        if first is None:
                            den = restating_entry(rng, v, t.name, t, den, extra)
                            first = v
                        else:
                            v.CopyFrom(first)  # identical entries of one name stay inside WFproto (consOutputs)
            else:
                role = "plain"
                keep = [copy.deepcopy(v) for v in g.value_info if v.name != t.name]
                new = ValueInfoProto()
                den = restating_entry(rng, new, t.name, t, den, extra)
                keep.insert(rng.randrange(len(keep) + 1), new)
                del g.value_info[:]
                g.value_info.extend(keep)
            tags.append((role, where, den, extra))
    if not tags:
        return None
    for role, where, den, extra in tags:
        counts(f"restated-role={role}")
        counts(f"restated-where={where}")
        counts(f"restated-den={den}")
        counts(f"restated-extra={extra}")
        if role == "plain" and extra == "none":
            # the entry that differs from what serialize_graph_into would write for the bare tensor ONLY by denotations
            counts(f"restated-only-denotations[{where}]={den}")
    label = "restated:" + "+".join(sorted({f"{r}/{w}/{d}/{e}" for r, w, d, e in tags}))[:200]
    if edge_what:
        return p, "edge", "+".join(sorted(set(edge_what))) + "+" + label
    return p, "valid", label


def restated_cases(ctx):
    rng = ctx.rng
    budget = {"graph": ctx.pick(160, 2000), "model": ctx.pick(160, 2000), "node": ctx.pick(40, 400),
              "function": ctx.pick(30, 300), "attr": ctx.pick(30, 300)}
    cases = []
    for kind, n in budget.items():
        for i in range(n):
            want_sub = kind in ("graph", "model") and rng.random() < 0.4
            for _ in range(40):
                p = gen_case(rng, kind)
                gs = list(_graphs_with_depth(p, 1 if kind in ("node", "attr", "function") else 0))
                if any(len(g.initializer) and (d > 0 or not want_sub) for g, d in gs):
                    break
            else:
                ctx.count("restated-base-without-initializer")
                continue
            r = restate(rng, kind, p, ctx.count)
            if r is None:
                ctx.count("restated-base-without-initializer")
                continue
            q, stream, label = r
            cases.append((kind, q, stream, label))
            if stream == "edge":
                ctx.count("edge-family=E2")
    return cases


# --------------------------------------------------------------------------- corpus files


def corpus_models(ctx):
    import onnx.backend.test

    files = sorted(glob.glob("/repo/testdata/**/*.textproto", recursive=True))
    bdir = os.path.join(os.path.dirname(onnx.backend.test.__file__), "data")
    bfiles = sorted(glob.glob(bdir + "/**/*.onnx", recursive=True))
    if ctx.quick:
        bfiles = ctx.rng.sample(bfiles, min(len(bfiles), 250))
        files = files[-1:]  # the torchscript model is the small one
    for f in files + bfiles:
        try:
            if f.endswith(".textproto"):
                m = ModelProto()
                with open(f) as fh:
                    text_format.Parse(fh.read(), m)
            else:
                m = onnx.load(f, load_external_data=False)
        except Exception:
            continue
        if m.ByteSize() > 3_000_000:
            continue
        yield os.path.relpath(f, "/"), m


# --------------------------------------------------------------------------- run


def _enc(p):
    return base64.b64encode(p.SerializeToString()).decode()


def _dec(kind, s):
    p = KINDS[kind]()
    p.ParseFromString(base64.b64decode(s))
    return p


def _sizes(kind, p):
    h = {}
    if kind in ("graph", "model"):
        g = p.graph if kind == "model" else p
        h["nodes"] = min(len(g.node), 5)
        h["subgraphs"] = min(sum(1 for n in g.node for a in n.attribute if a.type in (5, 10)), 3)
    if kind == "model":
        h["ir"] = p.ir_version
        h["functions"] = min(len(p.functions), 3)
    if kind == "tensor":
        h["dtype"] = p.data_type
        h["storage"] = (
            "external" if p.data_location == 1 else
            next((f for f in ("raw_data",) if p.HasField(f)), None) or
            next((f for f in ("float_data", "int32_data", "string_data", "int64_data", "double_data", "uint64_data") if len(getattr(p, f))), "empty")
        )
    if kind == "attr":
        h["attr"] = "ref" if p.ref_attr_name else AttributeProto.AttributeType.Name(p.type)
    return h


def run_cases(ctx: Ctx, cases):
    """cases: list of (kind, proto, stream, label). stream in {'valid','invalid','corpus'}"""
    reqs, kept = [], []
    for kind, p, stream, label in cases:
        try:
            x = RENDER[kind](p)
        except Unsupported as e:
            ctx.count(f"unsupported={e}")
            continue
        except RecursionError:
            ctx.count("unsupported=too-deep")
            continue
        reqs.append({"m": "serde." + kind, "x": x})
        kept.append((kind, p, stream, label, x))
    try:
        outs = lean_batch_parallel(reqs)
        model_ok = True
    except Infra:
        if getattr(ctx, "driver_ok", True):
            raise
        outs = [None] * len(reqs)
        model_ok = False
    for (kind, p, stream, label, x), out in zip(kept, outs):
        rec = {"kind": kind, "stream": stream, "label": label, "proto_b64": _enc(p)}
        try:
            rt = impl_roundtrip(kind, p)
            impl = {"ok": True, "r": RENDER[kind](rt)}
        except Unsupported as e:
            rt, impl = None, {"ok": True, "r": f"unrenderable:{e}"}
        except Exception as e:  # noqa: BLE001
            rt, impl = None, {"ok": False, "r": None, "exc": type(e).__name__ + ":" + type(e.__cause__).__name__}
        ctx.case([kind, x], nontrivial=True, sample={"kind": kind, "stream": stream, "x": x} if kind in ("type", "node") else None,
                 kind=kind, stream=stream, impl="ok" if impl["ok"] else "raised", **_sizes(kind, p))
        # ---- correspondence
        if model_ok:
            if "err" in out and "ok" not in out:
                raise Infra(f"driver rejected a request: {out['err']}")
            ctx.count(f"wf[{stream}]={out['wf']}")
            if not out["thm"]:
                ctx.disagree(f"serde.{kind}: theorem instance false in the model: WFproto x but serialize(deserialize x) != norm x", rec,
                             {"r": out["r"], "norm": out["norm"]}, None)
            if "wfw" in out:
                # the widened domain (C02_*_wide), its relation to the old one, and what the fold leaves unread
                ctx.count(f"wfw[{stream}]={out['wfw']}")
                if out["wfw"] and not out["wf"]:
                    ctx.count(f"wfw-only[{stream}:{kind}]")
                ctx.count(f"wfx[{stream}]={out['wfx']}")
                if out["wfx"] and not out["wfw"]:
                    ctx.count(f"wfx-only[{stream}:{kind}]")
                for flag, thm in (("thmw", f"C02_{kind}_wide: WFproto (fold x) but serialize(deserialize x) != norm (fold x)"),
                                  ("thmx", f"C02_{kind}_canon: WFproto (canon x) but serialize(deserialize x) != norm (canon x)"),
                                  ("subx", "C02_canon_subsumes: WFproto (fold x) but merge changes norm"),
                                  ("sub", "C02_wide_subsumes: WFproto x but fold x changes norm"),
                                  ("unread", "C02_fold_unread: deserialize (fold x) != deserialize x (seen through serialize)")):
                    if not out[flag]:
                        ctx.disagree(f"serde.{kind}: theorem instance false in the model: {thm}", rec,
                                     {"r": out["r"], "normw": out["normw"]}, None)
            if "wfd" in out:
                # stage F: canonD = merge (outdup (fold x)) (E4), also for stand-alone nodes and attributes
                ctx.count(f"wfd[{stream}]={out['wfd']}")
                if out["wfd"] and not out.get("wfx", out["wf"]):
                    ctx.count(f"wfd-only[{stream}:{kind}]")
                if stream == "edge" and ("E4:" in str(label) or "E1:pass-through-again" in str(label)):
                    ctx.count(f"wfd[E4]={out['wfd']}")
                for flag, thm in (("thmd", f"C02_{kind}_outdup / _wide: WFproto (canonD x) but serialize(deserialize x) != norm (canonD x)"),
                                  ("subd", "C02_outdup_subsumes: WFproto (canon x) but outdup changes norm"),
                                  ("unreadd", "C02_outdup_deserialize: WFproto (canonD x) but deserialize (canonD x) != deserialize x (seen through serialize)")):
                    if not out[flag]:
                        ctx.disagree(f"serde.{kind}: theorem instance false in the model: {thm}", rec,
                                     {"r": out["r"], "normd": out.get("normd")}, None)
            if "wf9" in out:
                # E8: C02_model_ir9 (wfModel9 = wfModel without "no graph value named like an experimental entry")
                ctx.count(f"wf9[{stream}]={out['wf9']}")
                ctx.count(f"wf9w[{stream}]={out['wf9w']}")
                ctx.count(f"wf9d[{stream}]={out['wf9d']}")
                if stream == "edge" and "E8:" in str(label):
                    ctx.count(f"wf9d[E8]={out['wf9d']}")
                if out["wf9d"] and not out["wfd"]:
                    ctx.count(f"wf9d-only[{stream}:{kind}]")
                for flag, thm in (("thm9", "C02_model_ir9: wfModel9 x but serialize(deserialize x) != normModel9 x"),
                                  ("thm9w", "C02_model_ir9_wide: wfModel9 (fold x) but serialize(deserialize x) != normModel9 (fold x)"),
                                  ("thm9d", "C02_model_ir9_outdup: wfModel9 (canonD x) but serialize(deserialize x) != normModel9 (canonD x)"),
                                  ("sub9", "C02_ir9_subsumes: WFproto x but normModel9 x != norm x")):
                    if not out[flag]:
                        ctx.disagree(f"serde.{kind}: theorem instance false in the model: {thm}", rec, {"r": out["r"]}, None)
            if kind == "tensor":
                if not out["fields"]:
                    ctx.disagree("serde.tensor: theorem instance false in the model: C02_tensor_fields", rec,
                                 {"rf": out["rf"]}, None)
                # serTensorF (serialize_tensor_into field by field) against the real to_proto
                if impl["ok"] and out["ok"] and out["rf"] != impl["r"]:
                    ctx.disagree("serde.tensor: field-by-field model serTensorF != implementation", rec, {"rf": out["rf"]}, impl)
        # ---- oracle: the property itself, on the real objects
        known_sig = None
        if stream in ("valid", "corpus", "edge"):
            if rt is None:
                sig = f"C02 {kind} roundtrip-raised {impl.get('exc')}" + raise_shape(kind, p)
                if is_known(ctx, sig):
                    known_sig = sig
                ctx.fail(sig, "from_proto/to_proto raised on a supported proto", rec)
            else:
                a, b = py_norm(kind, p), py_norm(kind, rt)
                # "duplicated": the result never describes one name twice in a value_info list (py_norm folds
                # repeated names, so this is checked on the raw result)
                dup = [v.name for g_ in _graphs_of(rt) for v in g_.value_info] if kind in ("graph", "model", "function", "node") else []
                per_graph_dup = any(len({v.name for v in g_.value_info}) != len(g_.value_info) for g_ in _graphs_of(rt)) if dup else False
                if per_graph_dup:
                    ctx.fail(f"C02 {kind} value_info-entry-duplicated", "the round trip wrote two value_info entries with one name", rec)
                if a != b:
                    sig = classify(kind, p, a, b)
                    if is_known(ctx, sig):
                        known_sig = sig
                    ctx.fail(sig, "round trip differs from the original beyond the documented normalisations", rec)
            # the file entry points must do exactly what from_proto / to_proto do
            if kind == "model" and rt is not None:
                try:
                    with tempfile.TemporaryDirectory(prefix="c02-") as td:
                        frt = impl_file_roundtrip(p, td)
                    if frt != rt:
                        ctx.fail(f"C02 model file-roundtrip-differs {first_diff(rt, frt)}",
                                 "onnx_ir.save(onnx_ir.load(file)) differs from to_proto(from_proto(proto))", rec)
                    else:
                        ctx.count("file-roundtrip=same")
                except Exception as e:  # noqa: BLE001
                    ctx.fail(f"C02 model file-roundtrip-raised {type(e).__name__}",
                             "onnx_ir.load / onnx_ir.save raised where from_proto / to_proto did not", rec)
        # ---- correspondence (the model has the known defects fixed: a divergence explained by a
        # known finding of this very case is counted, not reported)
        if model_ok and (out["ok"] != impl["ok"] or (out["ok"] and out["r"] != impl["r"])):
            if known_sig is None:
                known_sig = known_divergence(ctx, kind, p, out, impl)
            if known_sig is not None:
                ctx.count(f"divergence-explained-by-known-finding={known_sig}")
            else:
                ctx.disagree(f"serde.{kind}: model != implementation ({stream}:{label})", rec,
                             {"ok": out["ok"], "err": out["err"], "r": out["r"]}, impl)


def run_unsupported(ctx: Ctx) -> None:
    """Constructs outside the property's quantifier: record what from_proto/to_proto does with each (raises /
    drops silently / keeps).  Histogram only - never a failure (maintainer decision on D370-D372)."""
    import onnx_ir as ir
    from onnx import helper

    def graph():
        return helper.make_graph([helper.make_node("Add", ["x", "w"], ["y"])], "g",
                                 [helper.make_tensor_value_info("x", 1, [4])], [helper.make_tensor_value_info("y", 1, [4])])

    def sparse():
        return helper.make_sparse_tensor(helper.make_tensor("w", 1, [2], [1.0, 2.0]),
                                         helper.make_tensor("w_idx", 7, [2], [0, 3]), [4])

    def c_sparse_init():
        g = graph()
        g.sparse_initializer.append(sparse())
        return g, lambda a, b: len(b.sparse_initializer) == len(a.sparse_initializer)

    def c_training():
        m = helper.make_model(graph(), ir_version=10)
        m.training_info.add().algorithm.name = "alg"
        return m, lambda a, b: len(b.training_info) == len(a.training_info)

    def c_opaque():
        v = ValueInfoProto(name="x")
        v.type.opaque_type.domain, v.type.opaque_type.name = "d", "n"
        return v, lambda a, b: b.type.WhichOneof("value") == "opaque_type"

    def c_map():
        v = ValueInfoProto(name="x")
        v.type.map_type.key_type = 7
        v.type.map_type.value_type.tensor_type.elem_type = 1
        return v, lambda a, b: b.type.WhichOneof("value") == "map_type"

    def c_sparse_attr():
        a = helper.make_attribute("sparse_value", sparse())
        return a, lambda a_, b: b.HasField("sparse_tensor")

    def c_segment():
        t = helper.make_tensor("t", 1, [2], [1.0, 2.0])
        t.segment.begin, t.segment.end = 1, 2
        return t, lambda a, b: b.HasField("segment") and a == b

    for name, mk in (("sparse_initializer", c_sparse_init), ("training_info", c_training), ("opaque_type", c_opaque),
                     ("map_type", c_map), ("sparse_attribute", c_sparse_attr), ("tensor_segment", c_segment)):
        p, kept = mk()
        try:
            rt = ir.to_proto(ir.from_proto(p))
        except Exception as e:  # noqa: BLE001
            root = e
            while root.__cause__ is not None:
                root = root.__cause__
            ctx.count(f"unsupported-raised={name}:{type(root).__name__}")
            continue
        ctx.count(f"unsupported-kept={name}" if kept(p, rt) else f"unsupported-silently-dropped={name}")


def run(ctx: Ctx) -> None:
    ctx.rule = (
        "structured random protos per message kind (valid stream: oracle + correspondence; edge stream = supported "
        "protos outside WFproto (also inside stand-alone nodes and GRAPH(S) attributes): oracle with the "
        "expected-normalisation list E1-E8 + correspondence, E2-E7 inside the widened theorems; invalid stream: correspondence only; unsupported stream: six fixed protos, histogram only) "
        "+ 'restated' family: the value_info / input / output entry of an initializer repeats the tensor's dtype and "
        "static shape and adds type / dimension denotations, with and without metadata / doc, in main graphs and "
        "subgraphs (histogram restated-*) "
        "+ repo testdata + ONNX backend corpus; distinct by (kind, rendered proto); "
        "every case is non-trivial (a message with at least one field)"
    )
    # corpus of past findings first
    cases = []
    for obj in load_corpus("C02"):
        try:
            cases.append((obj["kind"], _dec(obj["kind"], obj["proto_b64"]), obj.get("stream", "valid"), "corpus:" + obj.get("label", "")))
        except Exception:  # noqa: BLE001
            continue
    run_cases(ctx, cases)
    rng = ctx.rng
    budget = {
        "dim": ctx.pick(100, 500), "type": ctx.pick(300, 3000), "vi": ctx.pick(200, 2000),
        "tensor": ctx.pick(400, 4000), "attr": ctx.pick(400, 4000), "node": ctx.pick(300, 3000),
        "graph": ctx.pick(500, 6000), "function": ctx.pick(200, 2000), "model": ctx.pick(500, 6000),
    }
    cases = []
    for kind, n in budget.items():
        for i in range(n):
            p = gen_case(rng, kind)
            cases.append((kind, p, "valid", f"gen{i}"))
            if kind in ("node", "graph", "function", "model") and rng.random() < 0.5:
                q, what = mutate(rng, kind, p)
                if what:
                    cases.append((kind, q, "invalid", "+".join(what)))
            if kind in ("graph", "function", "model", "tensor", "node", "attr") and rng.random() < 0.4:
                q, what = edge(rng, kind, p)
                if what:
                    cases.append((kind, q, "edge", "+".join(what)))
                    for w in what:
                        ctx.count(f"edge-family={w.split(':')[0]}")
    run_cases(ctx, cases)
    cases = [("model", m, "corpus", name) for name, m in corpus_models(ctx)]
    run_cases(ctx, cases)
    run_unsupported(ctx)
    # stage G: the typed scalar level (last, so that it does not shift the random streams above)
    from harness.c02_scalar import run_scalar

    run_scalar(ctx)
    # restated initializers: entries that repeat the tensor's dtype and static shape and add denotations
    # (after everything else, so that the random streams above are what they were)
    run_cases(ctx, restated_cases(ctx))


def replay(ctx: Ctx, obj: dict) -> None:
    case = obj.get("case") or {}
    if isinstance(case, dict) and "op" in case and "proto_b64" not in case:
        from harness.c02_scalar import replay_scalar

        replay_scalar(ctx, case)
        return
    if "proto_b64" not in case:
        ds = obj.get("correspondence_disagreements") or []
        cases = [d["case"] for d in ds if isinstance(d.get("case"), dict) and "proto_b64" in d["case"]]
    else:
        cases = [case]
    run_cases(ctx, [(c["kind"], _dec(c["kind"], c["proto_b64"]), c.get("stream", "valid"), "replay") for c in cases])
